"""Bounded run-time contracts for C06 (Becke / Hirshfeld atom-in-molecule weights), native NumPy on the real classes.

Oracles (independent of grid.becke / grid.hirshfeld):
  * Becke: brute-force pair loop of Becke's 1988 definition in the chi = R_A/R_B formulation
    a_AB = (1 - chi^2) / (4 chi) (own re-derivation of u/(u^2-1)), using the antisymmetry nu_BA = -nu_AB so that every
    unordered pair is visited once; no chunking, no nan trick, no (N, M, M) tensor.
  * radius fall-back: nearest lower atomic number that has a Bragg-Slater radius; a hard-coded list of Bragg-Slater radii
    (Angstrom, Slater 1964) pins the table for the elements used most.
  * switching polynomial: exact rational arithmetic (fractions) of x (3 - x^2) / 2.
  * Hirshfeld: tabulated pro-atom densities read directly from the shipped .npz files; exact at tabulated radii, monotone
    (PCHIP) interpolation of log(rho) elsewhere (loose tolerance = interpolation uncertainty); the share formula itself is
    checked tightly with the (separately checked) generate_proatom as building block.
Tolerances are noise-aware: a distance difference carries an absolute error ~ eps * coordinate scale, divided by the shortest
internuclear distance and amplified by at most 1.5^order per cell function and by 1/normaliser.
"""
import math
from fractions import Fraction
from importlib.resources import files

import numpy as np
from scipy.interpolate import PchipInterpolator

from grid.becke import BeckeWeights
from grid.hirshfeld import HirshfeldWeights
from grid.utils import get_cov_radii
from rtc.common import Collector, rng

EPS = 2.220446049250313e-16
TABLE = np.asarray(get_cov_radii(np.arange(1, 87, 1), "bragg"), dtype=float)
UNDEFINED = [2, 10, 18, 36, 54, 85, 86]          # elements without Bragg-Slater radius
ANGSTROM = 1.8897261                             # bohr per angstrom
SLATER_ANGSTROM = {1: 0.25, 3: 1.45, 6: 0.70, 7: 0.65, 8: 0.60, 9: 0.50, 11: 1.80, 15: 1.00, 16: 1.00, 17: 1.00, 19: 2.20,
                   35: 1.15, 53: 1.40, 55: 2.60, 84: 1.90}
GEOMS = ["random", "line", "ring", "lattice", "close-pair", "far-atom"]
ELEMS = ["homo", "noclip", "clip", "undef", "any", "custom"]
SEGS = ["random", "leading-empty", "trailing-empty", "one-owner", "equal"]


def _last(col):
    """Record of the failure just reported (the collector may have dropped it from the list when the case id is already frequent)."""
    rec = getattr(col, "last_failure", None)
    return rec if rec is not None else col.failures[-1]


# ----------------------------------------------------------------------------------------------------------------- oracles
def resolve_radii(nums, custom=None):
    table = {z: float(TABLE[z - 1]) for z in range(1, 87)}
    if custom:
        table.update(custom)
    out = []
    for z in nums:
        k = int(z)
        while np.isnan(table[k]):
            k -= 1
        out.append(table[k])
    return np.array(out)


def becke_oracle(points, coords, radii, order, cutoff=0.45):
    """Weights (M, N) and normaliser (N,) by the unchunked pair-by-pair definition, evaluated without cancellation:
    with e = 1 - nu = (1 - mu)(1 - a (1 + mu)) and d = 1 + nu = (1 + mu)(1 + a (1 - mu)) the switching polynomial obeys
    1 - f(x) = (1 - x)^2 (2 + x) / 2, i.e. e <- e^2 (3 - e) / 2 (same for d), and s_AB = e_k / 2, s_BA = d_k / 2.
    Products are accumulated as logarithms, so the result stays meaningful for any switching order."""
    m, n = len(coords), len(points)
    d = points[None, :, :] - coords[:, None, :]
    r = np.sqrt(d[..., 0] * d[..., 0] + d[..., 1] * d[..., 1] + d[..., 2] * d[..., 2])
    logp = np.zeros((m, n))
    with np.errstate(all="ignore"):
        for a in range(m):
            for b in range(a + 1, m):
                rab = math.dist(coords[a].tolist(), coords[b].tolist())
                mu = np.clip((r[a] - r[b]) / rab, -1.0, 1.0)
                chi = radii[a] / radii[b]
                aab = (1.0 - chi * chi) / (4.0 * chi)
                aab = min(cutoff, max(-cutoff, aab))
                for tgt, x0 in ((a, (1.0 - mu) * (1.0 - aab * (1.0 + mu))), (b, (1.0 + mu) * (1.0 + aab * (1.0 - mu)))):
                    lx = np.log(x0)
                    for _ in range(order):
                        lx = 2.0 * lx + np.log(0.5 * (3.0 - np.exp(lx)))
                    logp[tgt] += lx - math.log(2.0)
        top = logp.max(axis=0)
        s_rel = np.exp(logp - top).sum(axis=0)
        w = np.exp(logp - top) / s_rel
        s = np.exp(top) * s_rel
    return w, s


def min_dist(coords):
    m = len(coords)
    if m < 2:
        return 1.0
    return min(math.dist(coords[a].tolist(), coords[b].tolist()) for a in range(m) for b in range(a + 1, m))


def tol_vec(points, coords, order, s, extra=0.0):
    m = len(coords)
    if m == 1:
        return np.full(len(points), 1e-13)
    scale = np.abs(points).max(axis=1) + np.abs(coords).max() + extra if len(points) else np.zeros(0)
    dmu = 8.0 * EPS * scale / min_dist(coords)
    return 1e-12 + 16.0 * m * 1.5 ** max(order, 0) * dmu / np.maximum(s, 1e-300)


def rand_orthogonal(g, improper):
    q, r = np.linalg.qr(g.normal(size=(3, 3)))
    q = q * np.sign(np.diag(r))
    if (np.linalg.det(q) < 0) != improper:
        q[:, 0] = -q[:, 0]
    return q


# ------------------------------------------------------------------------------------------------------- input generation
def make_geometry(g, m, geom):
    if m == 1:
        return g.normal(size=(1, 3)) * 2.0
    if geom == "ring" and m < 3:
        geom = "line"
    if geom == "lattice":
        a = float(g.uniform(1.2, 3.0))
        nx = 2 if m <= 8 else 3
        nodes = np.array([[i, j, k] for i in range(nx) for j in range(nx) for k in range(nx)], dtype=float) * a
        return nodes[g.permutation(len(nodes))[:m]].copy()
    if geom == "line":
        u = g.normal(size=3)
        u /= np.linalg.norm(u)
        t = np.cumsum(g.uniform(0.8, 3.0, m))
        return np.outer(t, u) + g.normal(size=3)
    if geom == "ring":
        rad = float(g.uniform(1.5, 3.5))
        ang = 2 * np.pi * np.arange(m) / m
        return np.stack([rad * np.cos(ang), rad * np.sin(ang), np.zeros(m)], axis=1)
    scale = float(g.uniform(1.2, 3.0))
    for _ in range(400):
        c = g.normal(size=(m, 3)) * scale
        if min_dist(c) >= 0.6:
            break
        scale *= 1.05
    if geom == "close-pair":
        u = g.normal(size=3)
        u /= np.linalg.norm(u)
        c[1] = c[0] + u * float(g.choice([1e-3, 5e-3, 0.05]))
    elif geom == "far-atom":
        u = g.normal(size=3)
        u /= np.linalg.norm(u)
        c[-1] = u * float(g.choice([40.0, 200.0]))
    return c


def make_elements(g, m, elem):
    custom = None
    defined = [z for z in range(1, 87) if z not in UNDEFINED]
    if elem == "homo":
        nums = np.full(m, int(g.choice(defined)))
    elif elem == "noclip":
        nums = g.choice([6, 7, 8, 15, 16, 17], m)
    elif elem == "clip":
        nums = g.choice([1, 55, 19, 8, 6], m)
        nums[0] = 1
        if m > 1:
            nums[-1] = 55
    elif elem == "undef":
        nums = g.choice(UNDEFINED + [1, 9, 84, 17], m)
        nums[int(g.integers(0, m))] = int(g.choice(UNDEFINED))
    elif elem == "any":
        nums = g.integers(1, 87, m)
    else:  # custom radii: redefine present elements, give a noble gas a radius, change the fall-back source of another
        nums = g.choice([1, 2, 6, 8, 9, 10, 17, 18], m)
        custom = {1: float(g.uniform(0.5, 1.2)), 8: float(g.uniform(0.8, 2.0)), 10: float(g.uniform(0.8, 1.6)), 17: float(g.uniform(1.0, 2.5))}
    return np.asarray(nums, dtype=int), custom


def make_points(g, coords, ptkind):
    m = len(coords)
    nuc = {}
    if ptkind == "tiny":
        n = int(g.integers(1, m + 3))
        pts = coords[g.integers(0, m, n)] + g.normal(size=(n, 3)) * 1.5
        if g.random() < 0.5:
            a = int(g.integers(0, m))
            k = int(g.integers(0, n))
            pts[k] = coords[a]
            nuc[k] = a
        return pts, nuc
    blocks = []
    n_cloud = int(g.integers(15, 120))
    blocks.append(coords[g.integers(0, m, n_cloud)] + g.normal(size=(n_cloud, 3)) * g.uniform(0.3, 3.0, (n_cloud, 1)))
    blocks.append(coords.copy())                                                     # every nucleus
    u = g.normal(size=(m, 3))
    blocks.append(coords + 1e-9 * u / np.linalg.norm(u, axis=1)[:, None])          # next to every nucleus
    if m > 1:
        pa, pb = g.integers(0, m, 6), g.integers(0, m, 6)
        t = g.choice([-0.5, 0.5, 1.5, 2.0, 0.25], 6)
        blocks.append(coords[pa] + t[:, None] * (coords[pb] - coords[pa]))          # on internuclear lines: mid, beyond
    u = g.normal(size=(4, 3))
    u /= np.linalg.norm(u, axis=1)[:, None]
    blocks.append(u * np.array([50.0, 1e3, 1e6, 1e4])[:, None])                     # far points
    pts = np.concatenate(blocks)
    perm = g.permutation(len(pts))
    pts = pts[perm].copy()
    inv = np.argsort(perm)
    for a in range(m):
        nuc[int(inv[n_cloud + a])] = a
    # a point on an internuclear line may coincide with a nucleus (t=0 never drawn, pa==pb gives the nucleus itself)
    for k in range(len(pts)):
        if k not in nuc:
            hit = np.where(np.all(coords == pts[k], axis=1))[0]
            if len(hit):
                nuc[k] = int(hit[0])
    return pts, nuc


def make_indices(g, m, n, seg):
    if m == 1:
        return np.array([0, n])
    if seg == "leading-empty":
        k = int(g.integers(1, m))
        cuts = [0] * k + sorted(int(x) for x in g.integers(0, n + 1, m - 1 - k))
    elif seg == "trailing-empty":
        k = int(g.integers(1, m))
        cuts = sorted(int(x) for x in g.integers(0, n + 1, m - 1 - k)) + [n] * k
    elif seg == "one-owner":
        a = int(g.integers(0, m))
        cuts = [0] * a + [n] * (m - 1 - a)
    elif seg == "equal":
        cuts = [(n * i) // m for i in range(1, m)]
    else:
        cuts = sorted(int(x) for x in g.integers(0, n + 1, m - 1))
    return np.array([0] + cuts + [n], dtype=int)


def make_cfg(params):
    g = rng(params["subseed"], "C06cfg")
    m, order = params["natom"], params["order"]
    coords = make_geometry(g, m, params["geom"])
    nums, custom = make_elements(g, m, params["elem"])
    points, nuc = make_points(g, coords, params["ptkind"])
    indices = make_indices(g, m, len(points), params["seg"])
    return {"g": g, "m": m, "order": order, "coords": coords, "nums": nums, "custom": custom, "points": points, "nuc": nuc,
            "indices": indices, "radii": resolve_radii(nums, custom)}


def variant(params):
    return f"n{params['natom']}:order{params['order']}:{params['geom']}:{params['elem']}:{params['seg']}:{params['ptkind']}"


# ---------------------------------------------------------------------------------------------- Becke: per-configuration
def becke_contracts(col, params, only=None):
    cfg = make_cfg(params)
    g, m, order = cfg["g"], cfg["m"], cfg["order"]
    coords, nums, points, indices, nuc = cfg["coords"], cfg["nums"], cfg["points"], cfg["indices"], cfg["nuc"]
    n = len(points)
    var = variant(params)
    inp = dict(params, family="becke", atcoords=coords.tolist(), atnums=nums.tolist(), npoints=n, indices=indices.tolist(),
               custom_radii=cfg["custom"])
    smp = {"natom": m, "order": order, "geometry": params["geom"], "elements": nums.tolist()[:4], "npoints": n,
           "chunks": -(-n // max(1, (10 * n) // m**2))}
    bw = BeckeWeights(radii=cfg["custom"], order=order)
    w_or, s_or = becke_oracle(points, coords, cfg["radii"], order)
    tol = tol_vec(points, coords, order, s_or)
    owner = np.repeat(np.arange(m), np.diff(indices))
    snap = [x.copy() for x in (points, coords, nums, indices)]
    cache = {}

    def w_lib():
        if "w" not in cache:
            cache["w"] = np.array([bw.generate_weights(points, coords, nums, select=a) for a in range(m)])
        return cache["w"]

    def check(clause, fn):
        if only is None or clause == only:
            col.check(f"{clause}:{var}", fn, inputs=inp, sample=smp)

    def bounds():
        w = w_lib()
        if w.shape != (m, n):
            return False, f"weights of shape {w.shape} for {m} atoms and {n} points"
        if not np.all(np.isfinite(w)):
            k = int(np.where(~np.isfinite(w).all(axis=0))[0][0])
            return False, f"non-finite weight at point {points[k].tolist()} (normaliser of the definition = {s_or[k]:.3g})"
        if w.min() < -1e-14 or w.max() > 1 + 1e-14:
            return False, f"weights range [{w.min():.17g}, {w.max():.17g}] leaves [0, 1]"
        return True, None
    check("becke-bounds", bounds)

    def sum_to_one():
        dev = np.abs(w_lib().sum(axis=0) - 1.0)
        if not np.all(dev <= 1e-13 * m):
            k = int(np.nanargmax(np.where(np.isnan(dev), np.inf, dev)))
            return False, f"weights of the {m} atoms sum to {w_lib()[:, k].sum()!r} at point {points[k].tolist()}"
        return True, None
    check("becke-sum-to-one", sum_to_one)

    def definition():
        err = np.abs(w_lib() - w_or)
        bad = ~(err <= tol[None, :])
        if bad.any():
            a, k = (int(x[0]) for x in np.where(bad))
            return False, (f"atom {a} (Z={nums[a]}) at point {points[k].tolist()}: weight {w_lib()[a, k]!r}, pair-by-pair definition "
                           f"gives {w_or[a, k]!r} (tolerance {tol[k]:.2g})")
        return True, None
    check("becke-definition", definition)

    def nuclei():
        w = w_lib()
        for k, a in nuc.items():
            want = np.zeros(m)
            want[a] = 1.0
            if not np.all(np.abs(w[:, k] - want) <= 1e-14):
                return False, f"at nucleus {a} the weights of the atoms are {w[:, k].tolist()}, expected 1 for atom {a} and 0 otherwise"
        return True, None
    if nuc:
        check("becke-nuclei", nuclei)

    def route_call():
        got = bw(points, coords, nums, indices)
        if got.shape != (n,):
            return False, f"__call__ returns shape {got.shape} for {n} points"
        ref = w_or[owner, np.arange(n)]
        bad = ~(np.abs(got - ref) <= tol)
        if bad.any():
            k = int(np.where(bad)[0][0])
            return False, (f"__call__ ({smp['chunks']} chunk(s)): point {k} owned by atom {owner[k]} gets {got[k]!r}, "
                           f"definition gives {ref[k]!r}")
        lib = w_lib()[owner, np.arange(n)]
        if not np.all(np.abs(got - lib) <= 1e-14):
            k = int(np.argmax(np.abs(got - lib)))
            return False, f"__call__ differs from per-atom generate_weights at point {k}: {got[k]!r} vs {lib[k]!r}"
        return True, None
    check("routes-call-chunked", route_call)

    def route_segmentwise():
        lib = w_lib()[owner, np.arange(n)]
        for name in ("generate_weights", "compute_weights"):
            fn = getattr(bw, name)
            got = fn(points, coords, nums, pt_ind=indices) if m > 1 else fn(points, coords, nums, select=0)
            if got.shape != (n,) or not np.all(np.abs(got - lib) <= 1e-14):
                return False, f"{name}(pt_ind=indices) differs from the per-atom evaluation (max {np.abs(got - lib).max():.3g})"
            if m > 1:
                got = fn(points, coords, nums, pt_ind=indices.tolist())
                if not np.all(np.abs(got - lib) <= 1e-14):
                    return False, f"{name} with pt_ind given as a list differs"
        return True, None
    check("routes-segmentwise", route_segmentwise)

    def route_per_atom():
        w = w_lib()
        for a in range(m):
            full = bw.compute_atom_weight(points, coords, nums, a)
            if full.shape != (n,) or not np.all(np.abs(full - w[a]) <= 1e-14):
                return False, f"compute_atom_weight(select={a}) differs from generate_weights(select={a})"
            one = bw.compute_weights(points, coords, nums, select=a)
            lst = bw.generate_weights(points, coords, nums, select=[a])
            if not (np.all(np.abs(one - w[a]) <= 1e-14) and np.all(np.abs(lst - w[a]) <= 1e-14)):
                return False, f"compute_weights(select={a}) / generate_weights(select=[{a}]) differ from generate_weights(select={a})"
            b, e = int(indices[a]), int(indices[a + 1])
            seg = bw.compute_atom_weight(points[b:e], coords, nums, a)
            if seg.shape != (e - b,) or not np.all(np.abs(seg - w[a, b:e]) <= 1e-14):
                return False, f"compute_atom_weight on the segment of atom {a} differs from the whole-grid values"
        return True, None
    check("routes-per-atom", route_per_atom)

    def rigid():
        base = bw(points, coords, nums, indices)
        for improper in (False, True):
            q = rand_orthogonal(g, improper)
            t = g.normal(size=3) * float(g.choice([0.0, 1.0, 100.0]))
            c2 = coords @ q.T + t
            p2 = points @ q.T + t
            for k, a in nuc.items():
                p2[k] = c2[a]
            got = bw(p2, c2, nums, indices)
            tl = tol + tol_vec(p2, c2, order, s_or) + tol_vec(points, coords, order, s_or, extra=float(np.abs(t).max()))
            bad = ~(np.abs(got - base) <= tl)
            if bad.any():
                k = int(np.where(bad)[0][0])
                return False, f"{'improper' if improper else 'proper'} rigid motion changes the weight of point {k}: {base[k]!r} -> {got[k]!r}"
            for k, a in nuc.items():
                want = 1.0 if owner[k] == a else 0.0
                if abs(got[k] - want) > 1e-14:
                    return False, f"after the rigid motion nucleus {a} (in the segment of atom {owner[k]}) gets weight {got[k]!r}"
        return True, None
    check("invariance-rigid-motion", rigid)

    def relabel():
        base = bw(points, coords, nums, indices)
        perm = g.permutation(m)
        if m > 1 and np.array_equal(perm, np.arange(m)):
            perm = np.roll(perm, 1)
        segs = [np.arange(indices[a], indices[a + 1]) for a in perm]
        order_pts = np.concatenate(segs) if n else np.zeros(0, dtype=int)
        ind2 = np.concatenate([[0], np.cumsum([len(x) for x in segs])]).astype(int)
        got = bw(points[order_pts], coords[perm], nums[perm], ind2)
        bad = ~(np.abs(got - base[order_pts]) <= tol[order_pts])
        if bad.any():
            k = int(np.where(bad)[0][0])
            return False, f"relabelling atoms with permutation {perm.tolist()} changes a weight: {base[order_pts][k]!r} -> {got[k]!r}"
        a = int(g.integers(0, m))
        new_a = int(np.where(perm == a)[0][0])
        one = bw.generate_weights(points, coords[perm], nums[perm], select=new_a)
        if not np.all(np.abs(one - w_lib()[a]) <= tol):
            return False, f"weight function of atom {a} changes when the atom list is permuted by {perm.tolist()}"
        return True, None
    check("invariance-relabel", relabel)

    def purity():
        first = bw(points, coords, nums, indices)
        BeckeWeights(order=(order + 2) % 7)(points[: max(1, n // 2)], coords, nums, np.minimum(indices, max(1, n // 2)))
        again = bw(points, coords, nums, indices)
        if not np.array_equal(first, again):
            return False, "a second identical call returns different numbers (state carried between calls)"
        for x, y, name in zip((points, coords, nums, indices), snap, ("points", "atcoords", "atnums", "indices")):
            if not np.array_equal(x, y):
                return False, f"argument {name} was modified"
        return True, None
    check("purity", purity)

    def geometry_scan():
        """'for any molecule': one instance evaluated along a geometry scan that updates the SAME coordinate array in place answers for
        the current coordinates, exactly like a fresh instance given a fresh copy."""
        if m < 2:
            return True, None
        c = coords.copy()
        one = BeckeWeights(radii=cfg["custom"], order=order)
        for step in range(3):
            got = np.array([one.generate_weights(points, c, nums, select=a) for a in range(m)])
            call = one(points, c, nums, indices)
            fresh = BeckeWeights(radii=cfg["custom"], order=order)
            want = np.array([fresh.generate_weights(points.copy(), c.copy(), nums.copy(), select=a) for a in range(m)])
            want_call = BeckeWeights(radii=cfg["custom"], order=order)(points.copy(), c.copy(), nums.copy(), indices.copy())
            if not (np.array_equal(got, want, equal_nan=True) and np.array_equal(call, want_call, equal_nan=True)):
                return False, (f"scan step {step}: after the coordinate array was updated in place the instance returns numbers that differ from "
                               f"a fresh instance's by up to {np.nanmax(np.abs(got - want)):.3g}")
            c[0] += (0.31 + 0.2 * step) * (c[0] - c[1])          # stretch the bond 0-1 (not a rigid motion), in place
        return True, None
    check("geometry-scan-in-place", geometry_scan)


# --------------------------------------------------------------------------------------------------- unit-level contracts
def switch_contracts(col, g):
    x = np.concatenate([np.linspace(-1.0, 1.0, 401), np.sort(g.uniform(-1, 1, 50)), [-1.0, -1 + 1e-12, -1e-300, 0.0, 1e-9, 1 - 1e-12, 1.0]])
    x.sort()
    keep = x.copy()
    for order in range(0, 9):
        def chk(order=order):
            y = BeckeWeights._switch_func(x, order=order)
            if not np.array_equal(x, keep):
                return False, "input modified"
            if y.shape != x.shape or not np.all(np.abs(y) <= 1 + 4e-16):
                return False, f"values leave [-1, 1]: max |f| = {np.abs(y).max()!r}"
            if not np.all(np.abs(y + BeckeWeights._switch_func(-x, order=order)) <= 1e-15):
                return False, "not odd"
            if not np.all(np.diff(y) >= -1e-15):
                k = int(np.argmin(np.diff(y)))
                return False, f"decreasing between x={x[k]!r} and x={x[k + 1]!r}"
            for xe, ye in ((1.0, 1.0), (-1.0, -1.0), (0.0, 0.0)):
                if BeckeWeights._switch_func(xe, order=order) != ye:
                    return False, f"f({xe}) = {BeckeWeights._switch_func(xe, order=order)!r}"
            if order <= 4:
                for num in range(-8, 9):
                    fr = Fraction(num, 8)
                    for _ in range(order):
                        fr = fr * (3 - fr * fr) / 2
                    got = float(BeckeWeights._switch_func(num / 8.0, order=order))
                    if abs(got - float(fr)) > 1e-14:
                        return False, f"order {order}: f({num}/8) = {got!r}, exact iterate of x(3-x^2)/2 is {float(fr)!r}"
            if order == 3 and not np.array_equal(BeckeWeights._switch_func(x), y):
                return False, "default order is not 3"
            return True, None
        col.check(f"_switch_func:order{order}", chk, inputs={"family": "switch", "order": order}, sample={"fn": "_switch_func", "order": order})


def alpha_contracts(col, g, reps):
    for cutoff in (None, 0.3, 0.49):
        for rep in range(reps):
            m = int(g.integers(1, 9))
            radii = g.uniform(0.3, 5.0, m)
            if rep % 3 == 1 and m > 1:
                radii[1] = radii[0]                       # equal radii
            if rep % 3 == 2 and m > 1:
                radii[-1] = radii[0] * 9.0                # deep in the clipped region
            if rep % 3 == 0 and m > 2:                    # just inside / just outside the cutoff: a = c -+ 0.01
                c0 = 0.45 if cutoff is None else cutoff
                for j, t in ((1, c0 - 0.01), (2, c0 + 0.01)):
                    radii[j] = radii[0] * (-2.0 * t + math.sqrt(4.0 * t * t + 1.0))
            keep = radii.copy()

            def chk(radii=radii, keep=keep, cutoff=cutoff, m=m):
                c = 0.45 if cutoff is None else cutoff
                al = BeckeWeights._calculate_alpha(radii) if cutoff is None else BeckeWeights._calculate_alpha(radii, cutoff=cutoff)
                if not np.array_equal(radii, keep):
                    return False, "radii modified"
                if al.shape != (m, m) or not np.all(np.isfinite(al)):
                    return False, f"shape {al.shape} / non-finite"
                if np.abs(al).max() > c:
                    return False, f"|a| = {np.abs(al).max()!r} exceeds the cutoff {c}"
                if not np.array_equal(al, -al.T) or np.any(np.diag(al) != 0):
                    return False, "not antisymmetric with zero diagonal"
                for a in range(m):
                    for b in range(m):
                        chi = radii[a] / radii[b]
                        want = min(c, max(-c, (1 - chi * chi) / (4 * chi)))
                        if abs(al[a, b] - want) > 1e-13:
                            return False, f"a[{a},{b}] = {al[a, b]!r} for radii {radii[a]!r}, {radii[b]!r}; (1-chi^2)/(4 chi) clipped gives {want!r}"
                return True, None
            col.check(f"_calculate_alpha:cutoff-{cutoff or 'default'}:{['generic', 'equal-radii', 'clipped'][rep % 3]}", chk,
                      inputs={"family": "alpha", "radii": radii.tolist(), "cutoff": cutoff}, sample={"fn": "_calculate_alpha", "n": m})


def radius_contracts(col):
    defined = [z for z in range(1, 87) if z not in UNDEFINED]
    pts = np.array([[0.3, 0.2, 1.0], [0.0, 0.0, 1.15], [-0.4, 0.1, 1.4], [0.0, 0.0, 0.4], [1.0, -1.0, 2.0], [0.0, 0.0, 5.0], [0.2, 0.1, 0.9]])
    coords = np.array([[0.0, 0.0, 0.0], [0.0, 0.0, 2.3]])
    for z in range(1, 87):
        def chk(z=z):
            rz = resolve_radii([z])[0]
            if not (np.isfinite(rz) and rz > 0):
                return False, f"Z={z} resolves to radius {rz!r}"
            if z in SLATER_ANGSTROM and abs(TABLE[z - 1] - SLATER_ANGSTROM[z] * ANGSTROM) > 1e-4:
                return False, f"Bragg-Slater radius of Z={z} is {TABLE[z - 1]!r} bohr, Slater's table has {SLATER_ANGSTROM[z]} A"
            # partner with a radius ratio in the unclipped range, so that the weights depend on the resolved radius
            partner = min((p for p in defined if abs(TABLE[p - 1] - rz) > 1e-6), key=lambda p: abs(max(TABLE[p - 1], rz) / min(TABLE[p - 1], rz) - 1.45))
            nums = np.array([z, partner])
            bw = BeckeWeights()
            w_or, s = becke_oracle(pts, coords, resolve_radii(nums), 3)
            for a in (0, 1):
                for name, got in (("generate_weights", bw.generate_weights(pts, coords, nums, select=a)),
                                  ("compute_atom_weight", bw.compute_atom_weight(pts, coords, nums, a))):
                    if not np.all(np.abs(got - w_or[a]) <= 1e-12):
                        return False, (f"pair Z={z}/{partner}: {name} gives {got.tolist()[:3]}, definition with radius {rz:.4f} "
                                       f"(fall-back for undefined radii: nearest lower Z with a radius) gives {w_or[a].tolist()[:3]}")
            return True, None
        col.check(f"radius-resolution:Z{z}", chk, inputs={"family": "radius", "Z": z}, nontrivial=True, sample={"Z": z, "undefined": z in UNDEFINED})


def validation_contracts(col):
    def chk():
        for bad in (3.0, "3", None):
            try:
                BeckeWeights(order=bad)
                return False, f"order={bad!r} accepted"
            except ValueError:
                pass
        for bad in ([1.0], {1.5: 2.0}, {"H": 1.0}):
            try:
                BeckeWeights(radii=bad)
                return False, f"radii={bad!r} accepted"
            except TypeError:
                pass
        bw = BeckeWeights(radii={1: 0.9})
        if bw._radii[1] != 0.9 or BeckeWeights()._radii[1] == 0.9:
            return False, "custom radii not applied per instance"
        pts = np.arange(30.0).reshape(10, 3) / 7
        c = np.array([[0.0, 0, 0], [0, 0, 1.5], [0, 1.2, 0]])
        z = np.array([1, 8, 6])
        for fn in (bw.generate_weights, bw.compute_weights):
            for kw in (dict(select=[]), dict(pt_ind=[3]), dict(pt_ind=[3, 6]), dict(select=[], pt_ind=[]), dict(select=[0, 1], pt_ind=[0, 3, 6, 10])):
                try:
                    fn(pts, c, z, **kw)
                    return False, f"{fn.__name__}({kw}) accepted"
                except ValueError:
                    pass
        try:
            HirshfeldWeights()(pts, c, z.astype(float), np.array([0, 3, 6, 10]))
            return False, "Hirshfeld accepts float atomic numbers"
        except TypeError:
            pass
        return True, None
    col.check("validation:arguments", chk, inputs={"family": "validation"})


# --------------------------------------------------------------------------------- explicit owner lists (select + pt_ind)
def explicit_owner_contracts(col, params, routes=("generate_weights", "compute_weights")):
    cfg = make_cfg(params)
    g, m, order = cfg["g"], cfg["m"], cfg["order"]
    coords, nums, points = cfg["coords"], cfg["nums"], cfg["points"]
    n = len(points)
    bw = BeckeWeights(radii=cfg["custom"], order=order)
    w_or, s_or = becke_oracle(points, coords, cfg["radii"], order)
    tol = tol_vec(points, coords, order, s_or)
    for kind in ("identity-prefix", "permuted", "subset"):
        if kind == "identity-prefix":
            sel = list(range(max(2, m - 1)))
        elif kind == "permuted":
            sel = [int(x) for x in np.roll(np.arange(m), 1)]
        else:
            sel = [int(x) for x in np.sort(g.permutation(m)[: max(2, m - 1)])][::-1]
        k = len(sel)
        pt = [0] + sorted(int(x) for x in g.integers(0, n + 1, k - 1)) + [n]
        want = np.zeros(n)
        for i, a in enumerate(sel):
            want[pt[i]:pt[i + 1]] = w_or[a, pt[i]:pt[i + 1]]
        inp = dict(params, family="owners", kind=kind, select=sel, pt_ind=pt, atcoords=coords.tolist(), atnums=nums.tolist())
        for name in routes:
            def chk(name=name, sel=sel, pt=pt, want=want):
                got = getattr(bw, name)(points, coords, nums, select=sel, pt_ind=pt)
                bad = ~(np.abs(got - want) <= tol)
                if got.shape != (n,) or bad.any():
                    j = int(np.where(bad)[0][0])
                    return False, (f"{name}(select={sel}, pt_ind={pt}): point {j} gets {got[j]!r}, the weight of the atom owning its "
                                   f"segment is {want[j]!r}")
                return True, None
            cid = f"segment-owners:{name}:{kind}"
            ok = col.check(cid, chk, inputs=inp, sample={"route": name, "select": sel, "pt_ind": pt})
            if not ok and name == "compute_weights" and kind != "identity-prefix":
                # signature of the recorded finding: the entries of `select` are used as sector indices (sector i <- atom i for i in select)
                try:
                    emu = np.zeros(n)
                    for i in sel:
                        b, e = pt[i], pt[i + 1]
                        emu[b:e] += w_or[i, b:e]
                    emu_exc = None
                except IndexError:
                    emu, emu_exc = None, "IndexError"
                try:
                    got = bw.compute_weights(points, coords, nums, select=sel, pt_ind=pt)
                    same = emu is not None and bool(np.all(np.abs(got - emu) <= tol))
                except IndexError:
                    same = emu_exc == "IndexError"
                except Exception:  # noqa: BLE001
                    same = False
                if same:
                    _last(col)["case_id"] = cid + ":known-select-used-as-sector-index"


# ----------------------------------------------------------------------------------------- known: high switching orders
HIGH_ORDER_WITNESSES = [
    {"coords": [[0.4, 2.2, 1.8], [-3.2, 0.4, -0.7], [-0.6, 3.3, 0.6]], "nums": [55, 1, 1],                       # nan from order 11 on
     "points": [[-0.3, 1.3, -3.6], [-0.7, 1.3, -3.3], [-0.9, 1.6, -2.3], [0.4, 2.0, 1.0], [-3.0, 0.4, -0.5], [0.0, 0.0, 0.0]]},
    {"coords": [[4.0, -0.8, -0.7], [2.4, -1.8, -2.5], [-1.8, 1.0, -0.4]], "nums": [55, 1, 8],                     # nan from order 8 on
     "points": [[0.35, -0.28, -2.7], [-0.03, -1.63, -1.67], [4.0, -0.8, -0.7], [1.0, 0.0, -1.0], [2.4, -1.8, -2.0]]},
]


def high_order_contracts(col, g, order, nrand):
    """Partition of unity for switching orders beyond the tabulated 1..5 (the property quantifies over every order)."""
    sets = [(np.array(w["coords"]), np.array(w["nums"]), np.array(w["points"])) for w in HIGH_ORDER_WITNESSES]
    for _ in range(nrand):
        m = int(g.integers(2, 7))
        c = make_geometry(g, m, "random")
        sets.append((c, g.choice([1, 6, 8, 55, 86, 17], m), c[g.integers(0, m, 150)] + g.normal(size=(150, 3)) * 2.0))
    cid = f"becke-partition:high-order{order}"
    for k, (coords, nums, points) in enumerate(sets):
        m = len(coords)
        bw = BeckeWeights(order=order)
        w_or, s_or = becke_oracle(points, coords, resolve_radii(nums), order)
        tol = tol_vec(points, coords, order, s_or)
        box = {}

        def evaluate():
            w = np.array([bw.generate_weights(points, coords, nums, select=a) for a in range(m)])
            box["w"] = w
            fin = np.isfinite(w).all(axis=0)
            if not fin.all():
                j = int(np.where(~fin)[0][0])
                return False, (f"order {order}: non-finite weights at point {points[j].tolist()} of atoms Z={nums.tolist()} at "
                               f"{coords.tolist()} (every cell product underflows, normaliser = 0)")
            if w.min() < -1e-14 or w.max() > 1 + 1e-14 or np.abs(w.sum(axis=0) - 1).max() > 1e-13 * m:
                return False, f"order {order}: weights leave [0,1] or do not sum to one"
            ok = np.abs(w - w_or) <= tol[None, :]
            if not ok.all():
                return False, f"order {order}: weights differ from the pair-by-pair definition by {np.abs(w - w_or).max():.3g}"
            return True, None
        ok = col.check(cid, evaluate, inputs={"family": "high-order", "order": order, "set": k, "atcoords": coords.tolist(), "atnums": nums.tolist()},
                       sample={"order": order, "natom": m})
        if not ok and "w" in box and order >= 7:
            # signature of the recorded finding: the only violation is nan, and only at points where every atom has a cell
            # function below the double-precision resolution of 1 - f (2^-53), i.e. the true normaliser is <= M * 2^-53: a region
            # that no atom "owns" in a heteronuclear molecule; bounds, sum and definition hold at every other point
            w = box["w"]
            fin = np.isfinite(w).all(axis=0)
            good = w[:, fin]
            rest_ok = (np.all(np.abs(good - w_or[:, fin]) <= tol[None, fin]) and np.all(np.abs(good.sum(axis=0) - 1) <= 1e-13 * m)
                       and good.min(initial=0.0) >= -1e-14 and good.max(initial=0.0) <= 1 + 1e-14)
            if (~fin).any() and np.all(s_or[~fin] <= m * 2.0**-53) and rest_ok and len(set(resolve_radii(nums).tolist())) > 1:
                _last(col)["case_id"] = cid + ":known-normaliser-underflow"


def empty_points_contract(col):
    coords = np.array([[0.0, 0, 0], [0, 0, 1.5], [0, 1.2, 0]])
    nums = np.array([1, 8, 6])
    cid = "routes-call-chunked:zero-points"

    def chk():
        bw = BeckeWeights()
        ref = bw.generate_weights(np.zeros((0, 3)), coords, nums, pt_ind=[0, 0, 0, 0])
        got = bw(np.zeros((0, 3)), coords, nums, np.array([0, 0, 0, 0]))
        return (got.shape == (0,) and ref.shape == (0,)), f"shapes {got.shape}, {ref.shape}"
    ok = col.check(cid, chk, inputs={"family": "empty"}, nontrivial=True)
    if not ok and (_last(col)["detail"] or "").startswith("ValueError: need at least one array to concatenate"):
        try:
            fine = BeckeWeights().generate_weights(np.zeros((0, 3)), coords, nums, pt_ind=[0, 0, 0, 0]).shape == (0,)
        except Exception:  # noqa: BLE001
            fine = False
        if fine:
            _last(col)["case_id"] = cid + ":known-concatenate-of-no-chunks"


# ------------------------------------------------------------------------------------------------------------- Hirshfeld
PRO = [1, 6, 7, 8]
_pro_cache = {}


def proatom_table(z):
    if z not in _pro_cache:
        with np.load(files("grid.data.proatoms").joinpath(f"a{z:03d}.npz")) as dat:
            r, dn = np.array(dat["r"]), np.array(dat["dn"])
        _pro_cache[z] = (r, dn, PchipInterpolator(r, np.log(dn)))
    return _pro_cache[z]


def hirshfeld_table_contracts(col, g):
    for z in PRO:
        def chk(z=z):
            r, dn, _ = proatom_table(z)
            sel = r < 12.0
            pts = np.stack([r[sel], np.zeros(sel.sum()), np.zeros(sel.sum())], axis=1)
            got = HirshfeldWeights.generate_proatom(pts, np.zeros(3), z)
            if got.shape != (sel.sum(),) or not np.allclose(got, dn[sel], rtol=1e-10, atol=0):
                return False, f"Z={z}: pro-atom density at tabulated radii differs from the table (max rel {np.max(np.abs(got / dn[sel] - 1)):.3g})"
            c = g.normal(size=3)
            u = g.normal(size=(sel.sum(), 3))
            u /= np.linalg.norm(u, axis=1)[:, None]
            inner = (r > 0.05) & (r < 8.0)
            got = HirshfeldWeights.generate_proatom(c + r[sel, None] * u, c, z)
            if not np.allclose(got[inner[sel]], dn[inner], rtol=1e-6, atol=0):
                return False, f"Z={z}: pro-atom density is not a function of the distance to the displaced centre {c.tolist()}"
            return True, None
        col.check(f"hirshfeld-proatom-table:Z{z}", chk, inputs={"family": "hirshfeld-table", "Z": z}, sample={"fn": "generate_proatom", "Z": z})


def hirshfeld_contracts(col, params):
    g = rng(params["subseed"], "C06hirsh")
    m = params["natom"]
    coords = make_geometry(g, m, "random" if params["geom"] not in ("line", "ring", "random") else params["geom"])
    nums = np.asarray(g.choice(PRO, m), dtype=int)
    if params["elem"] == "homo":
        nums[:] = nums[0]
    n_cloud = int(g.integers(10, 80))
    pts = np.concatenate([coords[g.integers(0, m, n_cloud)] + g.normal(size=(n_cloud, 3)) * g.uniform(0.2, 2.0, (n_cloud, 1)), coords.copy()])
    pts = pts[g.permutation(len(pts))].copy()
    far = g.normal(size=(3, 3))
    far = far / np.linalg.norm(far, axis=1)[:, None] * np.array([[30.0], [70.0], [400.0]])
    n = len(pts)
    indices = make_indices(g, m, n, params["seg"])
    owner = np.repeat(np.arange(m), np.diff(indices))
    var = f"n{m}:{params['geom']}:{params['elem']}:{params['seg']}"
    inp = dict(params, family="hirshfeld", atcoords=coords.tolist(), atnums=nums.tolist(), indices=indices.tolist())
    smp = {"natom": m, "elements": nums.tolist(), "npoints": n, "route": "HirshfeldWeights"}
    hw = HirshfeldWeights()
    snap = [x.copy() for x in (pts, coords, nums, indices)]

    def share():
        got = hw(pts, coords, nums, indices)
        if got.shape != (n,):
            return False, f"shape {got.shape}"
        rho = np.array([HirshfeldWeights.generate_proatom(pts, coords[a], int(nums[a])) for a in range(m)])
        want = rho[owner, np.arange(n)] / rho.sum(axis=0)
        if not np.allclose(got, want, rtol=1e-12, atol=1e-14):
            k = int(np.argmax(np.abs(got - want)))
            return False, f"point {k} (atom {owner[k]}): weight {got[k]!r}, rho_owner / sum rho = {want[k]!r}"
        dist = np.linalg.norm(pts[None] - coords[:, None], axis=-1)
        rho_o = np.array([np.exp(proatom_table(int(nums[a]))[2](dist[a])) for a in range(m)])
        want_o = rho_o[owner, np.arange(n)] / rho_o.sum(axis=0)
        near = dist.max(axis=0) < 7.0
        if not np.all(np.abs(got - want_o)[near] <= 0.02):
            k = int(np.argmax(np.where(near, np.abs(got - want_o), 0)))
            return False, f"point {k} (atom {owner[k]}): weight {got[k]!r}, share of the tabulated pro-atom densities = {want_o[k]!r}"
        for x, y, name in zip((pts, coords, nums, indices), snap, ("points", "atcoords", "atnums", "indices")):
            if not np.array_equal(x, y):
                return False, f"argument {name} was modified"
        return True, None
    col.check(f"hirshfeld-share:{var}", share, inputs=inp, sample=smp)

    def sum_to_one():
        allp = np.concatenate([pts, far])
        na = len(allp)
        tot = np.zeros(na)
        mag = np.zeros(na)
        for a in range(m):
            ind = np.array([0] * (a + 1) + [na] * (m - a))
            w = hw(allp, coords, nums, ind)
            tot += w
            mag += np.abs(w)
        if not np.all(np.abs(tot - 1.0) <= 1e-13 * m * (1.0 + mag)):
            k = int(np.nanargmax(np.where(np.isnan(tot), np.inf, np.abs(tot - 1))))
            return False, f"Hirshfeld weights of the {m} atoms sum to {tot[k]!r} at point {allp[k].tolist()}"
        inside = np.linalg.norm(pts[None] - coords[:, None], axis=-1).min(axis=0) < 10.0
        seg = hw(pts, coords, nums, indices)
        if seg[inside].min(initial=0.0) < -1e-14 or seg[inside].max(initial=0.0) > 1 + 1e-14:
            return False, "a Hirshfeld weight within 10 bohr of the molecule leaves [0, 1]"
        return True, None
    col.check(f"hirshfeld-sum-to-one:{var}", sum_to_one, inputs=inp, sample=smp)


# --------------------------------------------------------------------------------------------------------------- drivers
def becke_family(g, tier):
    max_atoms = 8 if tier == "quick" else 12
    reps = 5 if tier == "quick" else 24
    out = []
    for natom in range(1, max_atoms + 1):
        for order in range(0, 7):
            for rep in range(reps):
                k = natom * 7 + order + rep * 11
                tiny = (rep % 2 == 1 and order in (1, 3, 4)) or rep % 5 == 4
                out.append({"natom": natom, "order": order, "geom": GEOMS[(k + rep) % len(GEOMS)], "elem": ELEMS[(natom + 2 * order + 3 * rep) % len(ELEMS)],
                            "seg": SEGS[(k + 2 * rep) % len(SEGS)], "ptkind": "tiny" if tiny else "cloud", "subseed": int(g.integers(0, 2**31 - 1))})
    return out


def run(tier, seed, *rest):
    col = Collector("real BeckeWeights (generate_weights, compute_weights, compute_atom_weight, chunked __call__) on 1..8 (thorough: 12) atoms, "
                    "switching orders 0..6, random / collinear / ring / lattice / near-coincident / far-atom geometries, homonuclear, unclipped, "
                    "clipped, undefined-radius, arbitrary and custom-radius element sets, point clouds incl. all nuclei, points 1e-9 next to "
                    "nuclei, internuclear lines and far points (50..1e6), 1..few-point sets, five kinds of segmentations (empty leading/trailing "
                    "segments, one owner): bounds, sum-to-one, pair-by-pair definition, exact nucleus values, equality of all evaluation routes, "
                    "rigid-motion (proper/improper, shifted) and relabelling invariance, argument purity; _switch_func (exact rationals), "
                    "_calculate_alpha, radius resolution for every Z=1..86; HirshfeldWeights against the shipped pro-atom tables; "
                    "distinct = (clause, natom, order, geometry, elements, segmentation, point set)")
    g = rng(seed, "C06")
    switch_contracts(col, g)
    alpha_contracts(col, g, 3 if tier == "quick" else 12)
    validation_contracts(col)
    radius_contracts(col)
    for params in becke_family(g, tier):
        becke_contracts(col, params)
    hirshfeld_table_contracts(col, g)
    for k in range(12 if tier == "quick" else 60):
        hirshfeld_contracts(col, {"natom": 1 + k % 6, "geom": ["random", "line", "ring"][k % 3], "elem": "homo" if k % 4 == 3 else "hetero",
                                  "seg": SEGS[k % len(SEGS)], "subseed": int(g.integers(0, 2**31 - 1))})
    # explicit owner lists and the recorded findings last (so that they never crowd out other failures)
    for k in range(3 if tier == "quick" else 12):
        explicit_owner_contracts(col, {"natom": 3 + k % 4, "order": 1 + k % 5, "geom": GEOMS[k % 2], "elem": ELEMS[(k + 1) % len(ELEMS)],
                                       "seg": "random", "ptkind": "cloud", "subseed": int(g.integers(0, 2**31 - 1))},
                                 routes=("generate_weights", "compute_weights") if k < 3 else ("generate_weights",))
    for order in (8, 12, 20):
        high_order_contracts(col, g, order, 2 if tier == "quick" else 4)
    empty_points_contract(col)
    return col.result()


def _first(col, want=None):
    fails = col.failures
    if want is not None:
        fails = [f for f in fails if f["case_id"].split(":known-")[0] == want.split(":known-")[0]] or []
    pick = None
    for f in fails:
        if ":known-" not in f["case_id"]:
            pick = f
            break
    if pick is None and fails and want is not None:
        pick = fails[0]
    if pick is not None:
        return {"failed": True, "case_id": pick["case_id"], "detail": pick["detail"], "input": pick["input"]}
    return None


def replay(req):
    spec = req.get("spec") or {}
    model = req.get("model") or {}
    text = (str(req.get("obligation", "")) + " " + " ".join(f"{k}={v}" for k, v in spec.items() if isinstance(v, (str, int, float)))).lower()
    seed = int(req.get("seed", 0) or 0)
    col = Collector("replay")
    g = rng(seed, "C06-replay")

    def want(*words):
        return any(w in text for w in words)
    focused = False
    if want("switch"):
        switch_contracts(col, g)
        focused = True
    if want("alpha"):
        alpha_contracts(col, g, 9)
        focused = True
    if want("radius", "radii", "nan"):
        radius_contracts(col)
        focused = True
    if want("hirshfeld", "promolecule", "proatom"):
        hirshfeld_table_contracts(col, g)
        for k in range(24):
            hirshfeld_contracts(col, {"natom": 1 + k % 6, "geom": ["random", "line", "ring"][k % 3], "elem": "hetero", "seg": SEGS[k % len(SEGS)],
                                      "subseed": int(g.integers(0, 2**31 - 1))})
        focused = True
    only = None
    natoms = range(1, 9)
    orders = range(0, 7)
    if isinstance(spec.get("natom"), int) and 1 <= spec["natom"] <= 12:
        natoms = [spec["natom"]]
    if isinstance(spec.get("order"), int) and 0 <= spec["order"] <= 6:
        orders = [spec["order"]]
    if want("chunk", "__call__", "ibegin", "segment"):
        only = "routes-call-chunked"
        natoms = [n for n in natoms if n >= 4] or [4, 5, 6, 7, 8]
    if not focused or only or want("generate_weights", "compute_atom_weight", "compute_weights", "becke", "weight"):
        k = 0
        for natom in natoms:
            for order in orders:
                for rep in range(2):
                    k += 1
                    params = {"natom": natom, "order": order, "geom": GEOMS[(k + rep) % len(GEOMS)], "elem": ELEMS[(k + 3 * rep) % len(ELEMS)],
                              "seg": SEGS[(k + 2 * rep) % len(SEGS)], "ptkind": "tiny" if (k % 5 == 0) else "cloud",
                              "subseed": int(g.integers(0, 2**31 - 1))}
                    becke_contracts(col, params, only=only)
        if only is None:
            validation_contracts(col)
            for k in range(3):
                explicit_owner_contracts(col, {"natom": 3 + k, "order": 3, "geom": "random", "elem": ELEMS[k], "seg": "random", "ptkind": "cloud",
                                               "subseed": int(g.integers(0, 2**31 - 1))}, routes=("generate_weights",))
    r = _first(col)
    if r:
        return r
    return {"failed": False, "detail": f"{col.evaluations} native contract evaluations passed", "model": {k: str(v) for k, v in list(model.items())[:4]}}


def replay_case(case):
    inp = case.get("input") or {}
    cid = case.get("case_id", "")
    fam = inp.get("family")
    col = Collector("replay-case")
    g = rng(0, "C06")
    if fam == "becke":
        becke_contracts(col, {k: inp[k] for k in ("natom", "order", "geom", "elem", "seg", "ptkind", "subseed")})
    elif fam == "owners":
        explicit_owner_contracts(col, {k: inp[k] for k in ("natom", "order", "geom", "elem", "seg", "ptkind", "subseed")})
    elif fam == "hirshfeld":
        hirshfeld_contracts(col, {k: inp[k] for k in ("natom", "geom", "elem", "seg", "subseed")})
    elif fam == "hirshfeld-table":
        hirshfeld_table_contracts(col, g)
    elif fam == "switch":
        switch_contracts(col, g)
    elif fam == "alpha":
        alpha_contracts(col, g, 12)
    elif fam == "radius":
        radius_contracts(col)
    elif fam == "validation":
        validation_contracts(col)
    elif fam == "high-order":
        high_order_contracts(col, g, int(inp.get("order", 12)), 4)
    elif fam == "empty":
        empty_points_contract(col)
    else:
        out = run("quick", 0)
        col.failures = out["failures"]
    r = _first(col, cid or None)
    if r is None and cid:
        r = _first(col)
    return r or {"failed": False}
