"""Dispatcher of the run-time contract (bounded) layer; runs under /venv/bin/python with PYTHONPATH=/repo/src.

  run.py run <ID> --tier T --seed S      -> last stdout line: JSON {evaluations, distinct_nontrivial, rule, samples, failures}
  run.py replay <ID>   (JSON request on stdin: obligation, model, spec, seed)
                                          -> last stdout line: JSON {failed, input, detail, case_id}
  run.py replay-case <ID> (bounded case JSON on stdin)
"""
import argparse
import importlib
import json
import os
import sys
import warnings

sys.path.insert(0, os.path.dirname(os.path.dirname(os.path.abspath(__file__))))
warnings.simplefilter("ignore")


def main():
    ap = argparse.ArgumentParser()
    ap.add_argument("mode", choices=["run", "replay", "replay-case"])
    ap.add_argument("pid")
    ap.add_argument("--tier", default="quick")
    ap.add_argument("--seed", type=int, default=0)
    a, rest = ap.parse_known_args()
    mod = importlib.import_module(f"rtc.{a.pid}")
    if a.mode == "run":
        out = mod.run(a.tier, a.seed, *rest)
    elif a.mode == "replay":
        req = json.loads(sys.stdin.read())
        out = mod.replay(req)
    else:
        case = json.loads(sys.stdin.read())
        out = mod.replay_case(case)
    print(json.dumps(out, default=str))
    return 0


if __name__ == "__main__":
    sys.exit(main())
