"""Bounded run-time contracts for C15 (linear ODE solvers under coordinate transformations), native NumPy/SciPy.

Oracles (none of them re-types the library's Bell-polynomial formulas):
  * public solvers: *manufactured* problems.  A random smooth y(x) (sine + exponential + cubic, closed-form derivatives) and
    random coefficients a_k(x) (ints, floats, NumPy scalars, callables; leading one of either sign and never zero) give
    f = sum_k a_k y^(k); the callable returned by solve_ode_ivp / solve_ode_bvp must reproduce y, y', y'' *in the original variable*
    for every transform, and agree with the direct (untransformed) solve.
  * internal helpers: 30-digit mpmath differentiation of compositions Y(g(x)) for closed-form maps g defined here:  the j-th new
    coefficient is  b_j = sum_k a_k D_x^k[(g(x)-g(x0))^j / j!](x0)  and the derivative matrix is M_ij = D_x^i[(g(x)-g(x0))^j / j!](x0).
  * derivatives with respect to the new variable (boundary data of transformed BVPs, point-wise residual of the first-order system)
    by the explicit inverse chain rule  Y' = y'/g',  Y'' = (y'' - g''Y')/g'^2,  Y''' = (y''' - 3g'g''Y'' - g'''Y')/g'^3.
  * well-posedness of every generated BVP is established independently (fundamental matrix by scipy's solve_ivp on the x-system,
    condition number of the boundary functional matrix), so that an ill-conditioned draw is never reported as a failure.
Error bounds are noise-aware: factor x (rtol*scale + atol) x max(|g'|, 1/|g'|)^k for the k-th derivative (IVP), factor x tol x scale x
conditioning x max(|g'|, 1/|g'|)^k (BVP); the factors leave a margin of >= 10 over the largest error seen on the unchanged library.
Every evaluation that calls a SciPy solver runs under a 60 s alarm, so that a regression which makes a solver loop is a failure, not a hang.
No defect of the unchanged library is currently recorded for this property (three were found while writing the driver and have been
repaired in /repo: in-place update of f's return value, implicit IVP methods, transforms that rejected scalar points).
"""
import os

for _v in ("OMP_NUM_THREADS", "OPENBLAS_NUM_THREADS", "MKL_NUM_THREADS"):
    os.environ.setdefault(_v, "1")

import math  # noqa: E402
import signal  # noqa: E402
import threading  # noqa: E402

import mpmath as mp  # noqa: E402
import numpy as np  # noqa: E402
from scipy.integrate import solve_ivp as _scipy_ivp  # noqa: E402

from grid import rtransform as rt  # noqa: E402
from grid.ode import solve_ode_bvp, solve_ode_ivp  # noqa: E402
from rtc.common import Collector, rng  # noqa: E402

try:
    from grid import ode as _ode
except ImportError:  # pragma: no cover
    _ode = None


def _helper(name):
    return getattr(_ode, name, None) if _ode is not None else None


STATS = {}          # clause -> largest observed error/bound ratio (calibration aid, in memory only)


def _stat(key, ratio):
    if np.isfinite(ratio):
        STATS[key] = max(STATS.get(key, 0.0), float(ratio))


# ----------------------------------------------------------------------------------------------------------------------
# smooth functions with closed-form derivatives (NumPy and mpmath)
# ----------------------------------------------------------------------------------------------------------------------
class Smooth:
    """A sin(w x + p) + B exp(l x) + c0 + c1 x + c2 x^2 + c3 x^3."""

    def __init__(self, A, w, p, B, l, poly):
        self.A, self.w, self.p, self.B, self.l = float(A), float(w), float(p), float(B), float(l)
        self.poly = [float(c) for c in poly]

    @classmethod
    def random(cls, g):
        sgn = lambda: float(g.choice([-1.0, 1.0]))
        return cls(sgn() * g.uniform(0.5, 1.5), g.uniform(0.8, 2.5), g.uniform(0, 2 * np.pi),
                   sgn() * g.uniform(0.3, 1.0), sgn() * g.uniform(0.3, 1.2), g.uniform(-0.5, 0.5, 4))

    def d(self, n, x):
        """n-th derivative at x (NumPy); always a new float array / float."""
        x = np.asarray(x, dtype=float)
        out = self.A * self.w**n * np.sin(self.w * x + self.p + n * np.pi / 2) + self.B * self.l**n * np.exp(self.l * x)
        for m in range(n, len(self.poly)):
            out = out + self.poly[m] * math.factorial(m) / math.factorial(m - n) * x ** (m - n)
        return out

    def mpd(self, n, x):
        x = mp.mpf(x)
        out = mp.mpf(self.A) * mp.mpf(self.w) ** n * mp.sin(mp.mpf(self.w) * x + mp.mpf(self.p) + n * mp.pi / 2)
        out += mp.mpf(self.B) * mp.mpf(self.l) ** n * mp.e ** (mp.mpf(self.l) * x)
        for m in range(n, len(self.poly)):
            out += mp.mpf(self.poly[m]) * mp.factorial(m) / mp.factorial(m - n) * x ** (m - n)
        return out

    def describe(self):
        return {"A": self.A, "w": self.w, "p": self.p, "B": self.B, "l": self.l, "poly": self.poly}


# ----------------------------------------------------------------------------------------------------------------------
# transforms: the library's classes with random admissible parameters, and closed-form maps defined here
# ----------------------------------------------------------------------------------------------------------------------
class ClosedTransform(rt.BaseTransform):
    """x -> g(x) in closed form with hand-derived derivatives and exact inverse; also evaluable in mpmath."""

    def __init__(self, kind, c):
        self.kind, self.c = kind, float(c)
        self._domain = (-4.0, 4.0)
        self._codomain = (-np.inf, np.inf)

    def transform(self, x):
        c = self.c
        x = np.asarray(x, dtype=float) if not np.isscalar(x) else float(x)
        return {"exp": lambda: np.exp(c * x), "log": lambda: np.log(x + c), "tan": lambda: np.tan(c * x),
                "recip": lambda: 1.0 / (x + c), "cubic": lambda: x + c * x**3}[self.kind]()

    def gmp(self, x):
        c = mp.mpf(self.c)
        return {"exp": lambda: mp.e ** (c * x), "log": lambda: mp.log(x + c), "tan": lambda: mp.tan(c * x),
                "recip": lambda: 1 / (x + c), "cubic": lambda: x + c * x**3}[self.kind]()

    def inverse(self, r):
        c = self.c
        r = np.asarray(r, dtype=float) if not np.isscalar(r) else float(r)
        if self.kind == "exp":
            return np.log(r) / c
        if self.kind == "log":
            return np.exp(r) - c
        if self.kind == "tan":
            return np.arctan(r) / c
        if self.kind == "recip":
            return 1.0 / r - c
        x = r / (1.0 + c * r * r / (1.0 + abs(c) * r * r) ** (2.0 / 3.0))       # any start: Newton on a monotone convex/concave cubic
        for _ in range(60):
            x = x - (x + c * x**3 - r) / (1.0 + 3.0 * c * x * x)
        return x

    def deriv(self, x):
        c, g = self.c, self.transform(x)
        return {"exp": lambda: c * g, "log": lambda: 1.0 / (x + c), "tan": lambda: c * (1 + g * g),
                "recip": lambda: -1.0 / (x + c) ** 2, "cubic": lambda: 1.0 + 3 * c * x * x}[self.kind]()

    def deriv2(self, x):
        c, g = self.c, self.transform(x)
        return {"exp": lambda: c * c * g, "log": lambda: -1.0 / (x + c) ** 2, "tan": lambda: 2 * c * c * g * (1 + g * g),
                "recip": lambda: 2.0 / (x + c) ** 3, "cubic": lambda: 6 * c * x}[self.kind]()

    def deriv3(self, x):
        c, g = self.c, self.transform(x)
        return {"exp": lambda: c**3 * g, "log": lambda: 2.0 / (x + c) ** 3, "tan": lambda: 2 * c**3 * (1 + g * g) * (1 + 3 * g * g),
                "recip": lambda: -6.0 / (x + c) ** 4, "cubic": lambda: 6 * c + 0 * x}[self.kind]()


PM1 = ["BeckeRTransform", "LinearFiniteRTransform", "MultiExpRTransform", "KnowlesRTransform:1", "KnowlesRTransform:2", "KnowlesRTransform:3",
       "KnowlesRTransform:2.5", "HandyRTransform:1", "HandyRTransform:2", "HandyRTransform:3", "HandyRTransform:2.5",
       "HandyModRTransform:1", "HandyModRTransform:2", "HandyModRTransform:3", "HandyModRTransform:2.5"]
POS = ["IdentityRTransform", "LinearInfiniteRTransform", "ExpRTransform", "PowerRTransform", "HyperbolicRTransform"]
INV = ["Inverse(BeckeRTransform)", "Inverse(LinearFiniteRTransform)", "Inverse(ExpRTransform)", "Inverse(KnowlesRTransform)"]
OWN = ["closed:exp", "closed:log", "closed:tan", "closed:recip", "closed:cubic"]
ALL_TF = PM1 + POS + INV + OWN


def make_transform(name, g, at_end=False):
    """Return (transform, (lo, hi)): a window of the original variable on which the map is smooth with moderate derivatives.

    With at_end the window starts (and for linear maps also stops) exactly at an end of the transform's domain.
    """
    base, _, par = name.partition(":")
    u = lambda a, b: float(g.uniform(a, b))
    if base == "BeckeRTransform":
        return rt.BeckeRTransform(u(0, 0.5), u(0.5, 2)), (-0.7, 0.7)
    if base == "LinearFiniteRTransform":
        rmin = u(-1, 0.5)
        return rt.LinearFiniteRTransform(rmin, rmin + u(1, 6)), ((-1.0, 1.0) if at_end else (-0.95, 0.9))
    if base == "MultiExpRTransform":
        return rt.MultiExpRTransform(u(0, 0.5), u(0.5, 2)), (-0.7, 0.7)
    if base in ("KnowlesRTransform", "HandyRTransform", "HandyModRTransform"):
        k = float(par) if "." in par else int(par)
        lo = -0.7 if k == 1 else -0.35
        if base == "KnowlesRTransform":
            return rt.KnowlesRTransform(u(0, 0.5), u(0.5, 2), k), (lo, 0.7)
        if base == "HandyRTransform":
            return rt.HandyRTransform(u(0, 0.5), u(0.5, 2), k), (lo, 0.6)
        rmin = u(0, 0.5)
        return rt.HandyModRTransform(rmin, rmin + 2**k + u(3, 20), k), (lo, 0.6)
    if base == "IdentityRTransform":
        return rt.IdentityRTransform(), ((0.0, 1.6) if at_end else (0.1, 2.0))
    if base in ("LinearInfiniteRTransform", "ExpRTransform", "PowerRTransform"):
        rmin, rmax, b = u(0.05, 0.3), u(8, 20), u(2, 4)
        return getattr(rt, base)(rmin, rmax, b=b), ((0.0, 1.5) if at_end else (0.1, 1.9))
    if base == "HyperbolicRTransform":
        return rt.HyperbolicRTransform(u(0.5, 2), 0.04), ((0.0, 1.5) if at_end else (0.1, 1.9))
    if base == "Inverse(BeckeRTransform)":
        rmin = u(-1.5, 0.3)
        return rt.InverseRTransform(rt.BeckeRTransform(rmin, u(0.5, 2))), ((rmin, rmin + 1.6) if at_end else (rmin + 0.2, rmin + 2.2))
    if base == "Inverse(LinearFiniteRTransform)":
        rmin = u(-1, 0.5)
        rmax = rmin + u(1.2, 2.5)
        return rt.InverseRTransform(rt.LinearFiniteRTransform(rmin, rmax)), ((rmin, rmax) if at_end else (rmin + 0.05, rmax - 0.05))
    if base == "Inverse(ExpRTransform)":
        rmin, rmax, b = u(0.1, 0.5), u(8, 20), u(2, 4)
        return rt.InverseRTransform(rt.ExpRTransform(rmin, rmax, b=b)), ((rmin, rmin + 1.5) if at_end else (rmin + 0.1, rmin + 2.0))
    if base == "Inverse(KnowlesRTransform)":
        rmin = u(-1, 0.3)
        return rt.InverseRTransform(rt.KnowlesRTransform(rmin, u(0.5, 2), int(g.integers(1, 4)))), (rmin + 0.3, rmin + 2.2)
    kind = par
    c = {"exp": lambda: float(g.choice([-1, 1])) * u(0.5, 1.4), "log": lambda: u(1.6, 3.0), "tan": lambda: u(0.4, 0.85),
         "recip": lambda: u(1.6, 3.0), "cubic": lambda: u(0.3, 1.5)}[kind]()
    return ClosedTransform(kind, c), (-0.9, 0.9)


def supports_domain_end(name):
    return name.partition(":")[0] in ("LinearFiniteRTransform", "IdentityRTransform", "ExpRTransform", "PowerRTransform",
                                      "Inverse(BeckeRTransform)", "Inverse(LinearFiniteRTransform)", "Inverse(ExpRTransform)")


def pick_interval(g, window, whole=False):
    lo, hi = window
    if whole:
        return float(lo), float(hi)
    length = min(float(g.uniform(0.6, 1.2)), hi - lo)
    a = float(g.uniform(lo, hi - length)) if hi - lo > length else lo
    return a, a + length


def gderivs(tf, x):
    """g', g'', g''' of a transform on an array of points, as float arrays of the same shape."""
    x = np.asarray(x, dtype=float)
    return [np.broadcast_to(np.asarray(fn(x), dtype=float), x.shape).copy() for fn in (tf.deriv, tf.deriv2, tf.deriv3)]


def r_jets(xjets, g1, g2, g3):
    """Derivatives with respect to r = g(x) from those with respect to x (explicit inverse chain rule)."""
    out = [xjets[0]]
    if len(xjets) > 1:
        out.append(xjets[1] / g1)
    if len(xjets) > 2:
        out.append((xjets[2] - g2 * out[1]) / g1**2)
    if len(xjets) > 3:
        out.append((xjets[3] - 3 * g1 * g2 * out[2] - g3 * out[1]) / g1**3)
    return out


# ----------------------------------------------------------------------------------------------------------------------
# manufactured problems
# ----------------------------------------------------------------------------------------------------------------------
class Coefficient:
    """One coefficient a_k: `value` is what is handed to the library, `fun` evaluates it on arrays for the oracle."""

    def __init__(self, value, fun, text):
        self.value, self.fun, self.text = value, fun, text


def make_coefficient(g, a, b, amp, leading, const_only=False):
    kind = str(g.choice(["int", "float", "npfloat", "trig", "poly", "exp", "constfun", "trig"] if not const_only else ["float", "npfloat", "float"]))
    sgn = float(g.choice([-1.0, 1.0]))
    if kind == "int":
        v = int(g.choice([-2, -1, 1, 2])) if leading else int(g.choice([-1, 0, 0, 1]))
        return Coefficient(v, lambda x, v=v: np.full(np.shape(x), float(v)), f"int {v}")
    if kind in ("float", "npfloat", "constfun"):
        v = sgn * float(g.uniform(0.6, 2.0)) if leading else float(g.uniform(-amp, amp))
        if kind == "constfun":      # a callable that returns a Python scalar whatever the shape of x
            return Coefficient(lambda x, v=v: v, lambda x, v=v: np.full(np.shape(x), v), f"callable returning the scalar {v:.6g}")
        return Coefficient(np.float64(v) if kind == "npfloat" else v, lambda x, v=v: np.full(np.shape(x), v), f"{kind} {v:.6g}")
    w, p, q = float(g.uniform(0.8, 2.5)), float(g.uniform(0, 6.28)), float(g.uniform(-0.8, 0.8))
    c = g.uniform(-1, 1, 3)
    raw = {"trig": lambda x: np.sin(w * x + p), "poly": lambda x: c[0] + c[1] * x + c[2] * x * x, "exp": lambda x: np.exp(q * x) - c[0]}[kind]
    grid = np.linspace(a, b, 41)
    top = float(np.max(np.abs(raw(grid)))) or 1.0
    if leading:
        s = sgn * float(g.uniform(0.6, 2.0))
        fun = lambda x: s * (1.0 + 0.4 * raw(np.asarray(x, dtype=float)) / top)
        return Coefficient(fun, fun, f"{kind} leading, sign {sgn:+.0f}")
    s = float(g.uniform(0.3, 1.0)) * amp * sgn
    fun = lambda x: s * raw(np.asarray(x, dtype=float)) / top
    return Coefficient(fun, fun, f"{kind} amplitude {s:.4g}")


class Problem:
    def __init__(self, g, order, a, b, amp=1.0, container="list"):
        self.order, self.a, self.b = order, a, b
        self.y = Smooth.random(g)
        const_only = container in ("ndarray", "intarray")
        self.cs = [make_coefficient(g, a, b, amp, k == order, const_only) for k in range(order + 1)]
        if container == "ndarray":
            self.coeffs = np.array([float(c.value) for c in self.cs])
        elif container == "intarray":
            vals = [int(g.choice([-1, 0, 1])) for _ in range(order)] + [int(g.choice([-2, -1, 1, 2]))]
            self.cs = [Coefficient(v, lambda x, v=v: np.full(np.shape(x), float(v)), f"int64 {v}") for v in vals]
            self.coeffs = np.array(vals)
        elif container == "tuple":
            self.coeffs = tuple(c.value for c in self.cs)
        else:
            self.coeffs = [c.value for c in self.cs]

    def f(self, x):
        x = np.asarray(x, dtype=float)
        out = np.zeros(x.shape)
        for k, c in enumerate(self.cs):
            out = out + c.fun(x) * self.y.d(k, x)
        return out

    def jets(self, x, n=None):
        return [self.y.d(k, x) for k in range(self.order if n is None else n)]

    def describe(self):
        return {"order": self.order, "interval": [self.a, self.b], "coefficients": [c.text for c in self.cs], "solution": self.y.describe()}

    def fundamental(self, xa, xb):
        """Fundamental matrix Phi(xb) of the homogeneous x-system with Phi(xa) = I (scipy only; used for conditioning)."""
        K = self.order

        def rhs(t, Y):
            Y = Y.reshape(K, K)
            tt = np.array([t])
            a = [c.fun(tt)[0] for c in self.cs]
            last = -sum(a[k] * Y[k] for k in range(K)) / a[K]
            return np.vstack([Y[1:], last[None, :]]).ravel()
        res = _scipy_ivp(rhs, (xa, xb), np.eye(K).ravel(), rtol=1e-8, atol=1e-10)
        return res.y[:, -1].reshape(K, K)


def functional_row(j, K, tf, xe):
    """Row l with  (d^j y / d(new variable)^j)(xe) = l . (y, y', ..., y^(K-1))(xe)."""
    row = np.zeros(K)
    if tf is None or j == 0:
        row[j] = 1.0
        return row
    g1, g2, g3 = [float(v[0]) for v in gderivs(tf, np.array([xe]))]
    basis = np.eye(K)
    jets = r_jets([basis[k] for k in range(K)], g1, g2, g3)
    return jets[j]


# ----------------------------------------------------------------------------------------------------------------------
# guard against runaway solves (a regression may make a SciPy solver loop): every contract evaluation has a time limit
# ----------------------------------------------------------------------------------------------------------------------
class time_limit:
    def __init__(self, seconds):
        self.seconds = seconds

    def _raise(self, signum, frame):
        raise TimeoutError(f"no result within {self.seconds} s (the same call takes well under a second on a correct implementation)")

    def __enter__(self):
        self.usable = hasattr(signal, "setitimer") and threading.current_thread() is threading.main_thread()
        if self.usable:
            self.old = signal.signal(signal.SIGALRM, self._raise)
            signal.setitimer(signal.ITIMER_REAL, self.seconds)
        return self

    def __exit__(self, *exc):
        if self.usable:
            signal.setitimer(signal.ITIMER_REAL, 0)
            signal.signal(signal.SIGALRM, self.old)
        return False


def limited(fn, seconds=60.0):
    def inner():
        with time_limit(seconds):
            return fn()
    return inner


# ----------------------------------------------------------------------------------------------------------------------
# public contracts: initial value problems
# ----------------------------------------------------------------------------------------------------------------------
IVP_TOL = {"DOP853": (1e-10, 1e-12), "RK45": (1e-9, 1e-11), "RK23": (1e-6, 1e-8), "LSODA": (1e-8, 1e-10), "Radau": (1e-8, 1e-10), "BDF": (1e-7, 1e-9)}
IVP_FACTOR = 200.0        # accepted global error = IVP_FACTOR * (rtol*scale + atol) * amplification, see ivp_bound


def map_amplification(tf, xs):
    """max(|g'|, 1/|g'|) over the points: conditioning of the change of variable (1 without a transform)."""
    if tf is None:
        return 1.0
    g1 = np.abs(gderivs(tf, xs)[0])
    return float(max(np.max(g1), 1.0 / np.min(g1)))


def ivp_bound(rtol, atol, exact, k, g1max):
    """Noise-aware bound on the k-th x-derivative: local tolerance times growth and times the conditioning of the map back to x."""
    scale = 1.0 + float(np.max(np.abs(exact)))
    return IVP_FACTOR * (5.0 if rtol == IVP_TOL["BDF"][0] else 1.0) * (rtol * scale + atol) * max(1.0, g1max) ** k


def ivp_case(col, seed, order, tname, method, variant):
    """One manufactured IVP through `tname` (or directly when tname is None) with the given solver method.

    variants: forward | backward (t0 > t1) | default-tol | no-derivs | ndarray | intarray | tuple | domain-end
    """
    key = f"ivp:{order}:{tname}:{method}:{variant}"
    g = rng(seed, key)
    at_end = variant == "domain-end"
    if tname is None:
        tf, window = None, (-1.0, 2.0)
    else:
        tf, window = make_transform(tname, g, at_end)
    a, b = pick_interval(g, window, whole=at_end)
    container = variant if variant in ("ndarray", "intarray", "tuple") else "list"
    prob = Problem(g, order, a, b, amp=1.0, container=container)
    x0, x1 = (b, a) if variant == "backward" else (a, b)
    if at_end and tname.partition(":")[0] not in ("LinearFiniteRTransform", "Inverse(LinearFiniteRTransform)"):
        x1 = a + min(b - a, 1.2)
    lo, hi = min(x0, x1), max(x0, x1)
    y0 = [float(v) for v in prob.jets(x0)]
    y0_arg = np.array(y0) if g.random() < 0.3 else list(y0)
    xs = np.concatenate(([hi, lo], g.uniform(lo, hi, 5)))        # both ends, not sorted
    xs_keep = xs.copy()
    no_der = variant == "no-derivs"
    kw = {}
    if variant == "default-tol":
        rtol, atol = 1e-8, 1e-6
    else:
        rtol, atol = IVP_TOL[method]
        kw = {"rtol": rtol, "atol": atol}
    if method != "DOP853" or g.random() < 0.5:
        kw["method"] = method
    if no_der or g.random() < 0.3:
        kw["no_derivatives"] = no_der
    span = (x0, x1) if g.random() < 0.7 else (np.float64(x0), np.float64(x1))
    inp = {"kind": "ivp", "seed": int(seed), "order": order, "transform": tname, "method": method, "variant": variant,
           "x_span": [x0, x1], "y0": y0, "problem": prob.describe()}
    cid = f"solve_ode_ivp:solution:order{order}:{tname or 'direct'}:{method}:{variant}"
    def chk():
        sol = solve_ode_ivp(span, prob.f, prob.coeffs, y0_arg, tf, **kw) if tf is not None else solve_ode_ivp(span, prob.f, prob.coeffs, y0_arg, **kw)
        out = np.asarray(sol(xs), dtype=float)
        if not np.array_equal(xs, xs_keep):
            return False, "the evaluation points were modified by the returned callable"
        if list(np.asarray(y0_arg, dtype=float)) != y0:
            return False, "the initial data passed by the caller were modified"
        want_shape = (xs.size,) if (no_der and tf is not None) else (order, xs.size)
        if out.shape != want_shape:
            return False, f"returned array of shape {out.shape}, expected {want_shape}"
        rows = out[None, :] if out.ndim == 1 else out
        g1max = map_amplification(tf, xs)
        for k in range(rows.shape[0]):
            exact = prob.y.d(k, xs)
            bound = ivp_bound(rtol, atol, exact, k, g1max)
            err = float(np.max(np.abs(rows[k] - exact)))
            _stat(f"ivp:{method}:{variant}:d{k}", err / bound)
            if not err <= bound:
                i = int(np.argmax(np.abs(rows[k] - exact)))
                where = "at the initial point" if xs[i] == x0 else f"at x = {xs[i]:.6g}"
                return False, (f"d^{k}y/dx^{k} {where}: returned {rows[k][i]!r}, exact solution of the stated problem {exact[i]!r} "
                               f"(error {err:.3g} > {bound:.3g})")
        # the returned callable is a function of its argument: a second array with the same length and the same first and last entries
        xs2 = xs.copy()
        xs2[1:-1] = g.uniform(lo, hi, xs.size - 2)
        xs2[-1] = xs[-1]
        out2 = np.asarray(sol(xs2), dtype=float)
        rows2 = out2[None, :] if out2.ndim == 1 else out2
        g1max2 = map_amplification(tf, xs2)
        for k in range(rows2.shape[0]):
            exact = prob.y.d(k, xs2)
            bound = ivp_bound(rtol, atol, exact, k, g1max2)
            err = float(np.max(np.abs(rows2[k] - exact)))
            if not err <= bound:
                i = int(np.argmax(np.abs(rows2[k] - exact)))
                return False, (f"second evaluation of the returned callable (other points, same length and end entries): d^{k}y/dx^{k} at x = {xs2[i]:.6g}: "
                               f"returned {rows2[k][i]!r}, exact {exact[i]!r} (error {err:.3g} > {bound:.3g})")
        again = np.asarray(sol(xs), dtype=float)
        if not np.array_equal(again, out, equal_nan=True):
            return False, "evaluating the returned callable again on the first array gives different values"
        return True, None
    col.check(cid, limited(chk), inputs=inp, sample={"order": order, "transform": tname, "method": method, "variant": variant, "x_span": [x0, x1]})


def ivp_cross_case(col, seed, order, tname, variant="forward"):
    """Transformed and direct solutions of the same IVP are the same function of the original variable."""
    key = f"ivpx:{order}:{tname}:{variant}"
    g = rng(seed, key)
    tf, window = make_transform(tname, g)
    a, b = pick_interval(g, window)
    prob = Problem(g, order, a, b)
    x0, x1 = (b, a) if variant == "backward" else (a, b)
    y0 = [float(v) for v in prob.jets(x0)]
    # deliberately *not* the initial data of the manufactured solution: a different member of the solution family
    y0 = [v + float(g.uniform(-1, 1)) for v in y0]
    if variant.startswith("integer-y0"):
        # initial values given as integers (a list of ints or an integer array): the same numbers as floats must give the same solution
        y0 = [int(np.sign(v) or 1) * int(g.integers(1, 5)) for v in y0]
        if variant.endswith("array"):
            y0 = np.array(y0, dtype=int)
    xs = np.concatenate(([a, b], g.uniform(a, b, 6)))
    rtol, atol = IVP_TOL["DOP853"]
    inp = {"kind": "ivpx", "seed": int(seed), "order": order, "transform": tname, "variant": variant, "x_span": [x0, x1], "y0": [float(v) for v in y0],
           "problem": prob.describe()}

    def chk():
        y0_t = y0.copy() if isinstance(y0, np.ndarray) else list(y0)
        st = solve_ode_ivp((x0, x1), prob.f, prob.coeffs, y0_t, tf, rtol=rtol, atol=atol)
        sd = solve_ode_ivp((x0, x1), prob.f, prob.coeffs, [float(v) for v in y0], rtol=rtol, atol=atol)
        ot, od = np.asarray(st(xs), dtype=float), np.asarray(sd(xs), dtype=float)
        if ot.shape != od.shape:
            return False, f"shapes differ: transformed {ot.shape}, direct {od.shape}"
        g1 = map_amplification(tf, xs)
        for k in range(order):
            bound = 2 * ivp_bound(rtol, atol, od[k], k, g1)
            err = float(np.max(np.abs(ot[k] - od[k])))
            _stat(f"ivpx:d{k}", err / bound)
            if not err <= bound:
                i = int(np.argmax(np.abs(ot[k] - od[k])))
                return False, f"d^{k}y/dx^{k} at x = {xs[i]:.6g}: through the transform {ot[k][i]!r}, direct {od[k][i]!r}"
        return True, None
    col.check(f"solve_ode_ivp:transformed-vs-direct:order{order}:{tname}:{variant}", limited(chk), inputs=inp,
              sample={"order": order, "transform": tname, "variant": variant})


# ----------------------------------------------------------------------------------------------------------------------
# public contracts: boundary value problems
# ----------------------------------------------------------------------------------------------------------------------
BVP_CONDS = {1: [[(0, 0)], [(1, 0)]],
             2: [[(0, 0), (1, 0)], [(1, 0), (0, 1)], [(0, 0), (1, 1)], [(0, 1), (0, 0)], [(1, 1), (1, 0)]],
             3: [[(0, 0), (0, 1), (1, 0)], [(1, 1), (0, 0), (1, 0)], [(0, 0), (0, 2), (1, 0)], [(0, 2), (0, 1), (0, 0)],
                 [(1, 0), (1, 2), (0, 0)], [(0, 0), (1, 1), (1, 2)], [(1, 0), (1, 1), (1, 2)]]}
BVP_FACTOR = 200.0


def bvp_case(col, seed, order, tname, cond_index, variant="derivs"):
    """One manufactured BVP; with a transform, derivative conditions are stated in the new variable (as documented).

    variants: derivs (no_derivatives=False) | no-derivs | default-guess (initial_guess_y=None) | tuple | ndarray
    """
    key = f"bvp:{order}:{tname}:{cond_index}:{variant}"
    g = rng(seed, key)
    conds = BVP_CONDS[order][cond_index % len(BVP_CONDS[order])]
    tol = 1e-7
    for _attempt in range(30):
        if tname is None:
            tf, window = None, (-1.0, 2.0)
        else:
            tf, window = make_transform(tname, g, at_end=False)
        a, b = pick_interval(g, window)
        container = variant if variant in ("ndarray", "tuple") else "list"
        prob = Problem(g, order, a, b, amp=0.6, container=container)
        n = int(g.integers(9, 22))
        x = np.linspace(a, b, n)
        x[1:-1] += g.uniform(-0.3, 0.3, n - 2) * (b - a) / (n - 1)       # non-uniform mesh
        if tf is not None and float(gderivs(tf, np.array([0.5 * (a + b)]))[0][0]) < 0:
            x = x[::-1].copy()                                            # the solver needs an increasing *new* variable
        ends = (float(x[0]), float(x[-1]))
        # independent well-posedness test
        phi = prob.fundamental(ends[0], ends[1])
        rows = []
        for i, j in conds:
            row = functional_row(j, order, tf, ends[i])
            rows.append(row if i == 0 else row @ phi)
        bmat = np.array(rows)
        bmat = bmat / np.linalg.norm(bmat, axis=1, keepdims=True)
        cond = float(np.linalg.cond(bmat))
        if cond < 25.0:
            break
    else:
        return
    bd = []
    for i, j in conds:
        xe = np.array([ends[i]])
        xj = prob.jets(xe, n=order)
        if tf is None:
            val = float(xj[j][0])
        else:
            g1, g2, g3 = gderivs(tf, xe)
            val = float(r_jets(xj, g1, g2, g3)[j][0])
        bd.append([i, j, val] if g.random() < 0.5 else (i, j, val))
    no_der = variant == "no-derivs"
    kw = {"tol": tol, "max_nodes": 50000}
    if variant != "default-guess":
        kw["initial_guess_y"] = np.zeros((order, n))
    if tf is not None or g.random() < 0.5:
        kw["no_derivatives"] = no_der
    lo, hi = min(ends), max(ends)
    xs = np.concatenate(([hi, lo], g.uniform(lo, hi, 5)))
    x_keep, xs_keep, bd_keep = x.copy(), xs.copy(), [tuple(c) for c in bd]
    inp = {"kind": "bvp", "seed": int(seed), "order": order, "transform": tname, "cond_index": cond_index, "variant": variant,
           "mesh": x.tolist(), "bd_cond": [list(c) for c in bd], "conditioning": cond, "problem": prob.describe()}
    cid = f"solve_ode_bvp:solution:order{order}:{tname or 'direct'}:bc{'-'.join(f'{i}{j}' for i, j in conds)}:{variant}"

    def chk():
        if variant == "default-guess":
            np.random.seed(int(seed) % 2**31 + 17)
        sol = solve_ode_bvp(x, prob.f, prob.coeffs, bd, tf, **kw) if tf is not None else solve_ode_bvp(x, prob.f, prob.coeffs, bd, **kw)
        out = np.asarray(sol(xs), dtype=float)
        if not np.array_equal(x, x_keep):
            return False, "the mesh passed by the caller was modified"
        if not np.array_equal(xs, xs_keep) or [tuple(c) for c in bd] != bd_keep:
            return False, "evaluation points or boundary conditions were modified"
        want_shape = (xs.size,) if (no_der and tf is not None) else (order, xs.size)
        if out.shape != want_shape:
            return False, f"returned array of shape {out.shape}, expected {want_shape}"
        rows_out = out[None, :] if out.ndim == 1 else out
        g1 = map_amplification(tf, xs)
        for k in range(rows_out.shape[0]):
            exact = prob.y.d(k, xs)
            bound = BVP_FACTOR * tol * (1.0 + float(np.max(np.abs(exact)))) * max(1.0, cond) * max(1.0, g1) ** k
            err = float(np.max(np.abs(rows_out[k] - exact)))
            _stat(f"bvp:order{order}:d{k}", err / bound)
            if not err <= bound:
                i = int(np.argmax(np.abs(rows_out[k] - exact)))
                where = "at a boundary point" if xs[i] in ends else f"at x = {xs[i]:.6g}"
                return False, (f"d^{k}y/dx^{k} {where}: returned {rows_out[k][i]!r}, exact solution of the stated problem {exact[i]!r} "
                               f"(error {err:.3g} > {bound:.3g})")
        # the returned callable is a function of its argument: other interior points, same length and end entries
        if xs.size >= 3:
            xs2 = xs.copy()
            lo2, hi2 = float(np.min(xs)), float(np.max(xs))
            xs2[1:-1] = lo2 + (hi2 - lo2) * np.modf(np.abs(np.sin(1000.0 * (xs[1:-1] + 1.2345))) * 7.0)[0]
            out2 = np.asarray(sol(xs2), dtype=float)
            rows2 = out2[None, :] if out2.ndim == 1 else out2
            g2 = map_amplification(tf, xs2)
            for k in range(rows2.shape[0]):
                exact = prob.y.d(k, xs2)
                bound = BVP_FACTOR * tol * (1.0 + float(np.max(np.abs(exact)))) * max(1.0, cond) * max(1.0, g2) ** k
                err = float(np.max(np.abs(rows2[k] - exact)))
                if not err <= bound:
                    i = int(np.argmax(np.abs(rows2[k] - exact)))
                    return False, (f"second evaluation of the returned callable (other points, same length and end entries): d^{k}y/dx^{k} at x = {xs2[i]:.6g}: "
                                   f"returned {rows2[k][i]!r}, exact {exact[i]!r} (error {err:.3g} > {bound:.3g})")
        return True, None
    col.check(cid, limited(chk), inputs=inp, sample={"order": order, "transform": tname, "bd_cond": [list(c) for c in bd], "variant": variant})


# ----------------------------------------------------------------------------------------------------------------------
# public contracts: argument checking, admissible end points, recorded defects
# ----------------------------------------------------------------------------------------------------------------------
def validation_contracts(col, seed):
    g = rng(seed, "validation")
    prob3 = Problem(g, 3, -0.5, 0.5)
    prob4 = Problem(g, 4, -0.5, 0.5)
    becke = rt.BeckeRTransform(0.1, 1.2)

    def expect(exc, fn, what):
        try:
            fn()
        except exc:
            return None
        except Exception as e:  # noqa: BLE001
            return f"{what}: raised {type(e).__name__} instead of {exc.__name__}"
        return f"{what}: accepted"

    lin = rt.LinearFiniteRTransform(0.5, 3.0)       # linear: leaving its domain [-1, 1] is numerically harmless, only the documented check can object

    def ivp_args():
        y3 = [float(v) for v in prob3.jets(-0.5)]
        y4 = [float(v) for v in prob4.jets(-0.5)]
        for msg in (expect(ValueError, lambda: solve_ode_ivp((-0.5, 0.5), prob3.f, prob3.coeffs, y3[:2]), "two initial values for order 3"),
                    expect(ValueError, lambda: solve_ode_ivp((-0.5, 0.5), prob3.f, prob3.coeffs, y3 + [0.0]), "four initial values for order 3"),
                    expect(ValueError, lambda: solve_ode_ivp((-0.5, 0.5), prob3.f, prob3.coeffs, y3[:2], becke), "two initial values for order 3 (transform)"),
                    expect(ValueError, lambda: solve_ode_ivp((-0.5, 0.5), prob3.f, prob3.coeffs, y3 + [0.0], becke), "four initial values for order 3 (transform)"),
                    expect(NotImplementedError, lambda: solve_ode_ivp((-0.5, 0.5), prob4.f, prob4.coeffs, y4, becke), "order 4 with a transform"),
                    expect(ValueError, lambda: solve_ode_ivp((-1.2, 0.5), prob3.f, prob3.coeffs, y3, lin), "x_span starting below the transform's domain"),
                    expect(ValueError, lambda: solve_ode_ivp((0.5, -1.01), prob3.f, prob3.coeffs, y3, lin), "backward x_span ending below the domain"),
                    expect(ValueError, lambda: solve_ode_ivp((-0.5, 1.01), prob3.f, prob3.coeffs, y3, lin), "x_span ending above the transform's domain"),
                    expect(ValueError, lambda: solve_ode_ivp((1.3, 0.5), prob3.f, prob3.coeffs, y3, lin), "backward x_span starting above the domain"),
                    expect(ValueError, lambda: solve_ode_ivp((-1.2, 0.5), prob3.f, prob3.coeffs, y3, becke), "x_span starting below the domain (Becke)")):
            if msg:
                return False, msg
        return True, None
    col.check("solve_ode_ivp:argument-validation", limited(ivp_args))

    def bvp_args():
        x = np.linspace(-0.5, 0.5, 11)
        three = [(0, 0, 1.0), (0, 1, 0.5), (1, 0, 1.0)]
        for msg in (expect(ValueError, lambda: solve_ode_bvp(x, prob3.f, prob3.coeffs, three[:2], initial_guess_y=np.zeros((3, 11))), "two conditions for order 3"),
                    expect(ValueError, lambda: solve_ode_bvp(x, prob3.f, prob3.coeffs, three + [(1, 1, 0.0)], initial_guess_y=np.zeros((3, 11))), "four conditions for order 3"),
                    expect(ValueError, lambda: solve_ode_bvp(x, prob3.f, prob3.coeffs, three[:2], becke), "two conditions for order 3 (transform)"),
                    expect(ValueError, lambda: solve_ode_bvp(x, prob3.f, prob3.coeffs, three + [(1, 1, 0.0)], becke), "four conditions for order 3 (transform)"),
                    expect(NotImplementedError, lambda: solve_ode_bvp(x, prob4.f, prob4.coeffs, [(0, k, 0.0) for k in range(4)], becke), "order 4 with a transform")):
            if msg:
                return False, msg
        return True, None
    col.check("solve_ode_bvp:argument-validation", limited(bvp_args))

    def not_converged():
        p = Problem(rng(seed, "nonconv"), 2, 0.0, 1.0, amp=0.5)
        x = np.linspace(0.0, 1.0, 6)
        bd = [(0, 0, float(p.y.d(0, 0.0))), (1, 0, float(p.y.d(0, 1.0)))]
        for tf in (None, rt.BeckeRTransform(0.1, 1.2)):
            xx = x if tf is None else np.linspace(-0.5, 0.5, 6)
            msg = expect(ValueError, lambda: solve_ode_bvp(xx, p.f, p.coeffs, bd, tf, tol=1e-11, max_nodes=7, initial_guess_y=np.zeros((2, 6))),
                         "a solve that ran out of mesh nodes before reaching the tolerance")
            if msg:
                return False, msg
        return True, None
    col.check("solve_ode_bvp:non-convergence-is-reported", limited(not_converged))


def integer_mesh_contracts(col, seed):
    """'for every mesh': an index grid given as integers (np.arange(n), the natural argument of the b-scaled maps) is the same mesh as its
    float copy - with and without a transform the two solutions agree."""
    g = rng(seed, "C15-integer-mesh")
    n = 7
    x_int = np.arange(n)
    tfs = {"direct": None, "ExpRTransform": rt.ExpRTransform(1.5, 6.5, b=n - 1), "LinearInfiniteRTransform": rt.LinearInfiniteRTransform(0.5, 7.3, b=n - 1),
           "PowerRTransform": rt.PowerRTransform(1.2, 9.7, b=n - 1)}
    c0, c1 = float(g.uniform(-2.0, -0.5)), float(g.uniform(0.2, 0.8))
    fx = lambda x: np.sin(x) + 0.3 * x          # noqa: E731
    bd = [(0, 0, float(g.uniform(0.1, 0.6))), (1, 0, float(g.uniform(-0.5, -0.1)))]
    xs = np.linspace(0.0, n - 1.0, 9)
    for tname, tf in tfs.items():
        def chk(tf=tf):
            keep = x_int.copy()
            args = ([c0, c1, 1.0], [tuple(c) for c in bd])
            kw = {"tol": 1e-8, "max_nodes": 20000, "initial_guess_y": np.zeros((2, n)), "no_derivatives": True}
            si = solve_ode_bvp(x_int, fx, args[0], args[1], tf, **kw)
            sf = solve_ode_bvp(x_int.astype(float), fx, args[0], args[1], tf, **kw)
            a_, b_ = np.asarray(si(xs), dtype=float), np.asarray(sf(xs), dtype=float)
            a_, b_ = (a_[0] if a_.ndim == 2 else a_), (b_[0] if b_.ndim == 2 else b_)
            if not np.array_equal(x_int, keep) or x_int.dtype != keep.dtype:
                return False, "the integer mesh of the caller was modified"
            if not np.allclose(a_, b_, rtol=1e-6, atol=1e-7):
                return False, f"integer and float copies of the same mesh give different solutions (max difference {float(np.max(np.abs(a_ - b_))):.3e})"
            return True, None
        col.check(f"solve_ode_bvp:integer-mesh:{tname}", limited(chk), inputs={"kind": "integer-mesh", "seed": int(seed), "transform": tname},
                  sample={"transform": tname, "mesh": "np.arange(7)"})


def rhs_alias_contracts(col, seed):
    """The right-hand side may be any function of x: `lambda x: x` (returns its argument), a constant written as a Python scalar,
    an integer array, an array the caller keeps (cache).  q y'' + y = p(x) has the solution p(x) + sin(w (x - a)), w = 1/sqrt(q), for p in {x, c}."""
    g = rng(seed, "rhs-alias")
    q = float(g.uniform(0.8, 2.5))
    cst = float(g.uniform(0.5, 2.0))
    w = 1.0 / math.sqrt(q)
    cache = {}

    def cached(t):
        key = np.asarray(t).shape
        if key not in cache:
            cache[key] = np.full(key, cst)
        return cache[key]

    kinds = [("returns-argument", lambda t: t, lambda t: t), ("fresh-array", lambda t: t * 1.0, lambda t: t),
             ("python-scalar", lambda t: cst, lambda t: cst + 0 * t), ("integer-array", lambda t: np.ones(np.shape(t), dtype=int), lambda t: 1.0 + 0 * t),
             ("cached-array", cached, lambda t: cst + 0 * t)]
    for label, tf, a in (("direct", None, 0.0), ("IdentityRTransform", rt.IdentityRTransform(), 0.2), ("ExpRTransform", rt.ExpRTransform(0.1, 10.0, b=3.0), 0.2)):
        b = a + 1.0
        for how, fx, part in kinds:
            exact = lambda t, part=part: part(t) + np.sin(w * (t - a))
            dexact = lambda t, part=part, how=how: (1.0 if how in ("returns-argument", "fresh-array") else 0.0) + w * np.cos(w * (t - a))
            coeffs = [1.0, 0.0, q]

            def chk_bvp(fx=fx, tf=tf, a=a, b=b, coeffs=coeffs, exact=exact):
                bd = [(0, 0, float(exact(a))), (1, 0, float(exact(b)))]
                x = np.linspace(a, b, 12)
                keep = x.copy()
                kw = {"tol": 1e-7, "initial_guess_y": np.zeros((2, 12))}
                sol = solve_ode_bvp(x, fx, coeffs, bd, tf, **kw) if tf is not None else solve_ode_bvp(x, fx, coeffs, bd, **kw)
                if not np.array_equal(x, keep):
                    return False, "the caller's mesh array was overwritten"
                xs = np.linspace(a, b, 9)
                out = np.asarray(sol(xs), dtype=float)
                got = out if out.ndim == 1 else out[0]
                err = float(np.max(np.abs(got - exact(xs))))
                return err <= 1e-4, f"y differs from the exact solution p(x) + sin(w(x-a)) by {err:.3g}"

            def chk_ivp(fx=fx, tf=tf, a=a, b=b, coeffs=coeffs, exact=exact, dexact=dexact):
                y0 = [float(exact(a)), float(dexact(a))]
                sol = solve_ode_ivp((a, b), fx, coeffs, y0, tf) if tf is not None else solve_ode_ivp((a, b), fx, coeffs, y0)
                xs = np.linspace(a, b, 9)
                out = np.asarray(sol(xs), dtype=float)
                err = max(float(np.max(np.abs(out[0] - exact(xs)))), float(np.max(np.abs(out[1] - dexact(xs)))))
                return err <= 1e-4, f"y or y' differs from the exact solution p(x) + sin(w(x-a)) by {err:.3g}"
            for solver, chk in (("solve_ode_bvp", chk_bvp), ("solve_ode_ivp", chk_ivp)):
                cache.clear()
                ok = col.check(f"{solver}:rhs-{how}:{label}", limited(chk), inputs={"kind": "rhs-alias", "seed": int(seed), "q": q, "c": cst, "transform": label, "rhs": how})
                if ok and how == "cached-array" and any(not np.all(v == cst) for v in cache.values()):
                    col.check(f"{solver}:rhs-{how}:{label}", lambda: (False, "the array returned by f (kept by the caller) was modified"),
                              inputs={"kind": "rhs-alias", "seed": int(seed), "transform": label, "rhs": how})


# ----------------------------------------------------------------------------------------------------------------------
# contracts on the internal helpers (skipped when a helper is absent)
# ----------------------------------------------------------------------------------------------------------------------
def mp_basis_derivative(tf, x0, j, k):
    """D_x^k [ (g(x) - g(x0))^j / j! ] at x0, 30 digits."""
    if k == 0:
        return mp.mpf(1) if j == 0 else mp.mpf(0)
    x0 = mp.mpf(float(x0))
    g0 = tf.gmp(x0)
    return mp.diff(lambda t: (tf.gmp(t) - g0) ** j / mp.factorial(j), x0, k)


def helper_contracts(col, seed, reps):
    mp.mp.dps = 30
    ev = _helper("_evaluate_coeffs_on_points")
    rearr = _helper("_rearrange_to_explicit_ode")
    tod = _helper("_transform_ode_from_derivs")
    tor = _helper("_transform_ode_from_rtransform")
    tre = _helper("_transform_and_rearrange_to_explicit_ode")
    dtm = _helper("_derivative_transformation_matrix")
    tso = _helper("_transform_solution_to_original_domain")

    for rep in range(reps):
        for K in (0, 1, 2, 3, 4):
            g = rng(seed, f"helpers:{rep}:{K}")
            n = int(g.choice([1, 2, 5, 8]))
            x = np.sort(g.uniform(-0.8, 0.8, n))
            prob = Problem(g, K, -0.9, 0.9) if K > 0 else None
            cs = prob.cs if K > 0 else [make_coefficient(g, -0.9, 0.9, 1.0, True)]
            values = [c.value for c in cs]

            if ev is not None:
                def c_eval():
                    keep = x.copy()
                    got = ev(x, values)
                    if not isinstance(got, np.ndarray) or got.shape != (K + 1, n) or got.dtype != float:
                        return False, f"result of shape {getattr(got, 'shape', None)}, expected {(K + 1, n)} floats"
                    for k, c in enumerate(cs):
                        for i in range(n):
                            want = float(c.fun(np.array([x[i]]))[0])
                            if not abs(got[k, i] - want) <= 1e-14 * (1 + abs(want)):
                                return False, f"entry ({k},{i}) = {got[k, i]!r}, a_{k}(x_{i}) = {want!r}"
                    if not np.array_equal(x, keep):
                        return False, "points modified"
                    for bad in ("1.0", None, [1.0]):
                        try:
                            ev(x, values[:-1] + [bad])
                            return False, f"coefficient {bad!r} accepted"
                        except TypeError:
                            pass
                    return True, None
                col.check(f"_evaluate_coeffs_on_points:order{K}", c_eval, inputs={"kind": "helpers", "seed": int(seed), "rep": rep, "K": K})

            if rearr is not None and K > 0:
                def c_rearr():
                    m = int(g.choice([1, 3, 6]))
                    yy = g.normal(size=(K, m))
                    bb = g.normal(size=(K + 1, m))
                    bb[-1] = np.where(np.abs(bb[-1]) < 0.2, 0.7, bb[-1]) * float(g.choice([-1, 1]))
                    # tiny but non-zero leading coefficient (e.g. a_K g'^K for a flat map, or an equation written in small units): any magnitude
                    bb[-1, 0] *= 10.0 ** float(g.uniform(-9, -4) if g.random() < 0.5 else g.uniform(-150, -9))
                    if m >= 3:
                        bb[-1, 1] *= 10.0 ** float(g.uniform(4, 150))
                    ff = g.normal(size=m)
                    yk, bk, fk = yy.copy(), bb.copy(), ff.copy()
                    got = np.asarray(rearr(yy, bb, ff), dtype=float)
                    if got.shape != (m,):
                        return False, f"shape {got.shape}, expected {(m,)}"
                    for i in range(m):
                        want = (fk[i] - math.fsum(bk[k, i] * yk[k, i] for k in range(K))) / bk[K, i]
                        if not abs(got[i] - want) <= 1e-12 * (1 + abs(want)):
                            return False, f"point {i}: {got[i]!r}, (f - sum_(k<K) b_k y_k)/b_K = {want!r}"
                    if not (np.array_equal(yy, yk) and np.array_equal(bb, bk)):
                        return False, "y or the coefficient matrix was modified"
                    if not np.array_equal(ff, fk):
                        return False, "the right-hand-side values (the array returned by the user's f) were modified"
                    ones = np.ones(m, dtype=int)                 # f(x) = 1 written with integers
                    got1 = np.asarray(rearr(yy, bb, ones), dtype=float)
                    if not np.allclose(got1 - got, (1 - fk) / bk[K], rtol=1e-12, atol=1e-12):
                        return False, "an integer right-hand side is not treated like the same floats"
                    return True, None
                col.check(f"_rearrange_to_explicit_ode:order{K}", c_rearr, inputs={"kind": "helpers", "seed": int(seed), "rep": rep, "K": K})

        # Faa di Bruno clauses with closed-form maps and 30-digit differentiation
        for name in OWN:
            g = rng(seed, f"helpers-fdb:{rep}:{name}")
            tf, window = make_transform(name, g)
            for K in (0, 1, 2, 3):
                n = int(g.choice([1, 3, 4]))
                x = g.uniform(window[0], window[1], n)
                prob = Problem(g, max(K, 1), window[0], window[1])
                cs = prob.cs[: K + 1]
                values = [c.value for c in cs]
                inp = {"kind": "helpers", "seed": int(seed), "rep": rep, "map": name, "c": tf.c, "K": K, "x": x.tolist()}

                def want_b(i, j):
                    return math.fsum(float(mp.mpf(float(cs[k].fun(np.array([x[i]]))[0])) * mp_basis_derivative(tf, x[i], j, k)) for k in range(j, K + 1)) \
                        if j > 0 else float(cs[0].fun(np.array([x[i]]))[0])

                def c_coeff(fn_name):
                    def inner():
                        if fn_name == "derivs":
                            got = tod(values, [tf.deriv, tf.deriv2, tf.deriv3], x)
                        else:
                            got = tor(values, tf, x)
                        got = np.asarray(got, dtype=float)
                        if got.shape != (K + 1, n):
                            return False, f"shape {got.shape}, expected {(K + 1, n)}"
                        for i in range(n):
                            scale = 1 + max(abs(want_b(i, jj)) for jj in range(K + 1))
                            for j in range(K + 1):
                                w_ = want_b(i, j)
                                if not abs(got[j, i] - w_) <= 1e-11 * scale:
                                    return False, (f"b_{j} at x = {x[i]:.6g}: {got[j, i]!r}; sum_k a_k D^k[(g-g0)^{j}/{j}!] = {w_!r} "
                                                   f"(coefficient of d^{j}Y/dr^{j} after the change of variable)")
                        return True, None
                    return inner
                if tod is not None:
                    col.check(f"_transform_ode_from_derivs:order{K}:{name}", c_coeff("derivs"), inputs=inp)
                if tor is not None:
                    col.check(f"_transform_ode_from_rtransform:order{K}:{name}", c_coeff("rtransform"), inputs=inp)

                if dtm is not None:
                    def c_dtm():
                        x0 = float(x[0])
                        pt = x0 if K % 2 else np.float64(x0)
                        got = np.asarray(dtm([tf.deriv, tf.deriv2, tf.deriv3], pt, K), dtype=float)
                        if got.shape != (K, K):
                            return False, f"shape {got.shape}, expected {(K, K)}"
                        want = np.array([[float(mp_basis_derivative(tf, x0, j + 1, i + 1)) for j in range(K)] for i in range(K)]).reshape(K, K)
                        if not np.allclose(got, want, rtol=1e-11, atol=1e-11 * (1 + np.max(np.abs(want), initial=0.0))):
                            i, j = np.unravel_index(int(np.argmax(np.abs(got - want))), got.shape)
                            return False, f"M[{i},{j}] = {got[i, j]!r}, D_x^{i + 1}[(g-g0)^{j + 1}/{j + 1}!] = {want[i, j]!r}"
                        try:
                            dtm([tf.deriv, tf.deriv2], x0, 3)
                            return False, "order 3 accepted with two derivative functions"
                        except ValueError:
                            pass
                        for bad in (np.array([x0]), "0.3", 1j):
                            try:
                                dtm([tf.deriv, tf.deriv2, tf.deriv3], bad, 1)
                                return False, f"point {bad!r} accepted"
                            except TypeError:
                                pass
                        return True, None
                    col.check(f"_derivative_transformation_matrix:order{K}:{name}", c_dtm, inputs=inp)

                if tso is not None and K >= 1:
                    Y = Smooth.random(g)

                    class FakeResult:
                        @staticmethod
                        def sol(r):
                            r = np.asarray(r, dtype=float)
                            return np.array([Y.d(k, r) for k in range(K)])

                    def c_tso():
                        pts = x.copy()
                        fn_d = tso(FakeResult, tf, False, K)
                        fn_n = tso(FakeResult, tf, True, K)
                        got = np.asarray(fn_d(pts), dtype=float)
                        only = np.asarray(fn_n(pts), dtype=float)
                        if got.shape != (K, n) or only.shape != (n,):
                            return False, f"shapes {got.shape} / {only.shape}, expected {(K, n)} / {(n,)}"
                        if not np.array_equal(pts, x):
                            return False, "points modified"
                        for i in range(n):
                            for k in range(K):
                                xi = mp.mpf(float(x[i]))
                                w_ = float(Y.mpd(0, tf.gmp(xi))) if k == 0 else float(mp.diff(lambda t: Y.mpd(0, tf.gmp(t)), xi, k))
                                if not abs(got[k, i] - w_) <= 1e-10 * (1 + abs(w_)):
                                    return False, f"d^{k}/dx^{k} Y(g(x)) at x = {x[i]:.6g}: {got[k, i]!r}, by differentiation {w_!r}"
                            if not abs(only[i] - got[0, i]) <= 1e-14 * (1 + abs(got[0, i])):
                                return False, "no_derivs=True does not return the function values"
                        return True, None
                    col.check(f"_transform_solution_to_original_domain:order{K}:{name}", c_tso, inputs=inp)

        # point-wise first-order system through every transform: exact jets in, exact highest derivative out
        if tre is not None:
            for name in ALL_TF:
                for K in (1, 2, 3):
                    g = rng(seed, f"helpers-system:{rep}:{name}:{K}")
                    tf, window = make_transform(name, g)
                    a, b = pick_interval(g, window)
                    prob = Problem(g, K, a, b)
                    n = 3 if name.startswith("Hyperbolic") else int(g.choice([1, 4, 7]))
                    x = g.uniform(a, b, n)

                    def c_sys():
                        xj = prob.jets(x, n=K + 1)
                        g1, g2, g3 = gderivs(tf, x)
                        rj = r_jets(xj, g1, g2, g3)
                        yin = np.array(rj[:K])
                        keep_y, keep_x = yin.copy(), x.copy()
                        got = np.asarray(tre(x, yin, prob.coeffs, tf, prob.f), dtype=float)
                        if got.shape != (n,):
                            return False, f"shape {got.shape}, expected {(n,)}"
                        if not (np.array_equal(yin, keep_y) and np.array_equal(x, keep_x)):
                            return False, "points or y were modified"
                        scale = 1.0 + np.abs(rj[K]) + sum(np.abs(rj[k]) * np.abs(g1) ** (k - K) for k in range(K))
                        err = np.abs(got - rj[K]) / scale
                        _stat("system", float(np.max(err)) / 1e-10)
                        if not np.all(err <= 1e-10):
                            i = int(np.argmax(err))
                            return False, (f"at x = {x[i]:.6g} the explicit system returns d^{K}Y/dr^{K} = {got[i]!r} for the exact lower derivatives; "
                                           f"the exact solution has {rj[K][i]!r}")
                        return True, None
                    col.check(f"_transform_and_rearrange_to_explicit_ode:order{K}:{name}", c_sys,
                              inputs={"kind": "helpers", "seed": int(seed), "rep": rep, "transform": name, "K": K, "x": x.tolist(), "problem": prob.describe()})


# ----------------------------------------------------------------------------------------------------------------------
# families
# ----------------------------------------------------------------------------------------------------------------------
METHODS = ["RK45", "RK23", "LSODA", "Radau", "BDF"]
IVP_VARIANTS = ["backward", "default-tol", "no-derivs", "ndarray", "intarray", "tuple"]
BVP_VARIANTS = ["derivs", "no-derivs", "default-guess", "tuple", "ndarray"]


def public_family(col, seed, tier, only=None):
    """only: None | 'ivp' | 'bvp'."""
    thorough = tier != "quick"
    tfs = ALL_TF
    if only in (None, "ivp"):
        for t, tname in enumerate(tfs):
            for order in (1, 2, 3):
                idx = t * 3 + order
                ivp_case(col, seed, order, tname, "DOP853", "forward")
                ivp_case(col, seed, order, tname, "DOP853", IVP_VARIANTS[idx % len(IVP_VARIANTS)] if not thorough else "backward")
                if thorough:
                    for v in IVP_VARIANTS[1:]:
                        ivp_case(col, seed, order, tname, "DOP853", v)
                if thorough or idx % 2 == 1:
                    ivp_case(col, seed, order, tname, METHODS[(idx // 2) % len(METHODS)], "forward")
                if thorough or idx % 3 == 2:
                    ivp_cross_case(col, seed, order, tname, "backward" if idx % 2 else "forward")
                if order >= 2 and (thorough or idx % 2 == 0):
                    ivp_cross_case(col, seed, order, tname, "integer-y0-array" if idx % 4 == 0 else "integer-y0-list")
                if supports_domain_end(tname) and (thorough or order == 1 + t % 3):
                    ivp_case(col, seed, order, tname, "DOP853", "domain-end")
        for order in (1, 2, 3):
            ivp_case(col, seed, order, None, "DOP853", "forward")
            ivp_case(col, seed, order, None, "DOP853", "backward")
            ivp_case(col, seed, order, None, "DOP853", "default-tol")
            for m in METHODS:
                ivp_case(col, seed, order, None, m, "forward")
        if thorough:
            for order in (1, 2, 3):
                for m in METHODS:
                    for tname in ("BeckeRTransform", "KnowlesRTransform:2.5", "Inverse(BeckeRTransform)", "closed:tan", "MultiExpRTransform"):
                        ivp_case(col, seed, order, tname, m, "backward")
    if only in (None, "bvp"):
        for t, tname in enumerate(tfs):
            if tname.startswith("Hyperbolic"):
                continue        # only defined for meshes with b (N-1) < 1: the adaptive mesh of the BVP solver leaves its domain
            for order in (1, 2, 3):
                idx = t * 3 + order
                nc = len(BVP_CONDS[order])
                sets = range(nc) if thorough else [idx % nc]
                for ci in sets:
                    bvp_case(col, seed, order, tname, ci, "derivs")
                if thorough or idx % 3 == 1:
                    bvp_case(col, seed, order, tname, (idx + 1) % nc, BVP_VARIANTS[1 + (idx // 3) % (len(BVP_VARIANTS) - 1)])
        for order in (1, 2, 3):
            for ci in range(len(BVP_CONDS[order])):
                bvp_case(col, seed, order, None, ci, BVP_VARIANTS[ci % len(BVP_VARIANTS)])


def run(tier, seed, *rest):
    col = Collector("real solve_ode_ivp/solve_ode_bvp on manufactured linear problems of order 1-3 (random smooth solution; int/float/NumPy/callable "
                    "coefficients, leading coefficient of either sign) through 29 transforms (all library transforms with k,m in {1,2,3,2.5}, inverses, "
                    "5 closed-form maps incl. decreasing ones), forward/backward spans, spans starting at a domain end, all six IVP methods, 2-7 boundary "
                    "condition sets per order (BVPs pre-screened for well-posedness): y, y', y'' in the original variable against the exact solution and "
                    "against the direct solve; argument validation; internal helpers against 30-digit differentiation of compositions and the inverse chain "
                    "rule; distinct = (function, clause, order, transform, method/variant)")
    seed = int(seed)
    helper_contracts(col, seed, reps=1 if tier == "quick" else 4)
    validation_contracts(col, seed)
    rhs_alias_contracts(col, seed)
    integer_mesh_contracts(col, seed)
    public_family(col, seed, tier)
    if tier != "quick":
        public_family(col, seed + 7919, tier)        # a second, independent draw of every problem and transform parameter
    return col.result()


def _first_failure(col, prefer=None):
    fails = col.failures
    if not fails:
        return None
    order = sorted(fails, key=lambda f: (":known-" in f["case_id"], 0 if (prefer and prefer in f["case_id"]) else 1))
    return order[0]


HELPER_NAMES = ("_transform_ode_from_derivs", "_transform_ode_from_rtransform", "_transform_and_rearrange_to_explicit_ode",
                "_rearrange_to_explicit_ode", "_evaluate_coeffs_on_points", "_derivative_transformation_matrix",
                "_transform_solution_to_original_domain")


def replay(req):
    """Search natively for an input violating the named obligation: helpers first, then the public family (IVP and/or BVP)."""
    name = str(req.get("obligation") or "")
    seed = int(req.get("seed", 0) or 0)
    col = Collector("replay")
    prefer = next((h for h in HELPER_NAMES + ("solve_ode_ivp", "solve_ode_bvp") if h in name), None)
    what = str((req.get("spec") or {}).get("what") or "")
    helper_contracts(col, seed, reps=3)
    validation_contracts(col, seed)
    new = lambda: [f for f in col.failures if ":known-" not in f["case_id"]]
    helpers_only = what in ("coeffs", "explicit", "matrix", "solution") or (not what and prefer is not None and prefer.startswith("_"))
    if not new() and not helpers_only:
        low = name.lower()
        only = "bvp" if ("bvp" in low or "/bc" in low) else ("ivp" if ("ivp" in low or what == "ivp") else None)
        rhs_alias_contracts(col, seed)
        integer_mesh_contracts(col, seed)
        if not new():
            public_family(col, seed, "quick", only=only)
    f = _first_failure(col, prefer)
    if f is not None and ":known-" not in f["case_id"]:
        return {"failed": True, "case_id": f["case_id"], "detail": f["detail"], "input": f["input"]}
    return {"failed": False, "detail": f"{col.evaluations} native contract evaluations passed (recorded findings excluded)"}


def replay_case(case):
    inp = case.get("input") or {}
    kind = inp.get("kind")
    seed = int(inp.get("seed", 0) or 0)
    col = Collector("replay-case")
    if kind == "ivp":
        ivp_case(col, seed, inp["order"], inp["transform"], inp["method"], inp["variant"])
    elif kind == "ivpx":
        ivp_cross_case(col, seed, inp["order"], inp["transform"], inp["variant"])
    elif kind == "bvp":
        bvp_case(col, seed, inp["order"], inp["transform"], inp["cond_index"], inp["variant"])
    elif kind == "rhs-alias":
        rhs_alias_contracts(col, seed)
    elif kind == "integer-mesh":
        integer_mesh_contracts(col, seed)
    elif kind == "helpers":
        helper_contracts(col, seed, reps=int(inp.get("rep", 0)) + 1)
    else:
        validation_contracts(col, seed)
    want = str(case.get("case_id") or "").split(":known-")[0]
    fails = [f for f in col.failures if f["case_id"].split(":known-")[0] == want] or col.failures
    if fails:
        f = fails[0]
        return {"failed": True, "case_id": f["case_id"], "detail": f["detail"], "input": f["input"]}
    return {"failed": False}
