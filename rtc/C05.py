"""Bounded run-time contracts for C05 (atomic grid = radial grid x per-shell spheres; presets), native NumPy.

Oracles (none of them re-types the construction under test):
  * unit angular grids (A_i, a_i) are taken from the AngularGrid contract (C02/C12) *before* any atomic grid is built and are
    compared with the cache again at the end (stale/aliased cache);
  * "supported degree" = brute-force minimum over the public degree/size tables;
  * the orthogonal map of every shell is *recovered* from the points by least squares (or from the Gram matrix for degenerate
    shells) and tested for orthogonality - the SciPy rotation formula is not repeated;
  * factorised integrals use SciPy's complex spherical harmonics and the radial sum computed from the radial grid alone;
  * sector -> degree by explicit counting with Python floats; preset tables are read from the .npz files directly.
"""
import os

os.environ.setdefault("OMP_NUM_THREADS", "1")
os.environ.setdefault("OPENBLAS_NUM_THREADS", "1")
os.environ.setdefault("MKL_NUM_THREADS", "1")

import glob  # noqa: E402
import warnings  # noqa: E402

import numpy as np  # noqa: E402

import grid as _grid_pkg  # noqa: E402
from grid import angular as ang  # noqa: E402
from grid.angular import AngularGrid  # noqa: E402
from grid.atomgrid import AtomGrid  # noqa: E402
from grid.basegrid import OneDGrid  # noqa: E402
from rtc.common import Collector, rng  # noqa: E402

try:  # SciPy >= 1.15
    from scipy.special import sph_harm_y as _sph_y

    def _cplx_y(l, m, pol, az):
        return _sph_y(l, m, pol, az)
except ImportError:  # pragma: no cover
    from scipy.special import sph_harm as _sph_old

    def _cplx_y(l, m, pol, az):
        return _sph_old(m, l, az, pol)

try:
    from grid.atomgrid import _get_rgrid_size
except ImportError:  # a refactoring may remove the helper: its contracts are then skipped
    _get_rgrid_size = None

warnings.simplefilter("ignore")

METHODS = ["lebedev", "spherical", "maxdet", "ahrens_beylkin"]
NPTS = {"lebedev": ang.LEBEDEV_NPOINTS, "spherical": ang.SPHERICAL_NPOINTS, "maxdet": ang.MAX_DET_NPOINTS,
        "ahrens_beylkin": ang.AHRENS_BEYLKIN_NPOINTS}                      # size -> degree
DEGS = {m: {int(d): int(s) for s, d in t.items()} for m, t in NPTS.items()}   # degree -> size
# shipped Ahrens-Beylkin files that are not exact to their advertised degree (recorded under C02): kept out of the integral family
AB_INEXACT = {39, 127}
FAMILY_INDEX = {"grid": 1, "pruned": 2, "integral": 3, "preset": 4, "edge": 5, "seedfn": 6}


def case_rng(seed, family, k):
    """Independent, reproducible stream for case k of a family (the salt sum is unique per (family, k))."""
    return rng(seed, "C05" + chr(4096 * FAMILY_INDEX[family] + int(k) % 4096))


# ------------------------------------------------------------------------------------------------ oracles

def supported_degree(method, degree):
    return min(d for d in DEGS[method] if d >= degree)


def supported_from_size(method, size):
    s = min(s for s in NPTS[method] if s >= size)
    return int(NPTS[method][s]), int(s)


_UNIT = {}


def unit(method, degree):
    key = (method, int(degree))
    if key not in _UNIT:
        a = AngularGrid(degree=int(degree), method=method)
        _UNIT[key] = (np.array(a.points, dtype=float, copy=True), np.array(a.weights, dtype=float, copy=True))
    return _UNIT[key]


def prewarm(max_degree=47):
    for m in METHODS:
        for d in sorted(DEGS[m]):
            if d <= max_degree:
                unit(m, d)


def real_y(l, m, pol, az):
    y = _cplx_y(l, abs(m), pol, az)
    if m == 0:
        return np.real(y)
    if m > 0:
        return np.sqrt(2.0) * (-1) ** m * np.real(y)
    return np.sqrt(2.0) * (-1) ** m * np.imag(y)


def first_diff(a, b):
    for i, (x, y) in enumerate(zip(a, b)):
        if x != y:
            return i
    return min(len(a), len(b))


def verify_grid(grid, r, w, exp_degs, method, center, rotate):
    """Clause (a)+(b): shell index table, degrees, points = centre + r_i * orthogonal image of A_i, weights = a_i w_i r_i^2.

    Returns (ok, detail, Qs) where Qs[i] is the recovered 3x3 map of shell i (None when it is not determined).
    """
    n = len(r)
    c = np.zeros(3) if center is None else np.asarray(center, dtype=float)
    cmax = float(np.max(np.abs(c)))
    degs = [int(d) for d in grid.degrees]
    exp = [int(d) for d in exp_degs]
    if degs != exp:
        i = first_diff(degs, exp)
        return False, (f"degrees differ at shell {i}: grid has {degs[i] if i < len(degs) else None}, smallest supported degree not below "
                       f"the request is {exp[i] if i < len(exp) else None} ({len(degs)} vs {len(exp)} shells)"), None
    if int(grid.n_shells) != n:
        return False, f"n_shells = {grid.n_shells} for {n} radial points", None
    idx = np.asarray(grid.indices)
    if idx.shape != (n + 1,) or int(idx[0]) != 0:
        return False, f"index table has shape {idx.shape} and starts at {idx[0] if idx.size else None}", None
    sizes = np.array([unit(method, d)[0].shape[0] for d in degs], dtype=int)
    if not np.array_equal(np.diff(idx), sizes):
        i = int(np.argmax(np.diff(idx) != sizes))
        return False, f"shell {i}: index table gives {int(idx[i + 1] - idx[i])} points, the angular grid of degree {degs[i]} has {int(sizes[i])}", None
    pts = np.asarray(grid.points)
    wts = np.asarray(grid.weights)
    tot = int(idx[-1])
    if pts.shape != (tot, 3) or wts.shape != (tot,) or int(grid.size) != tot:
        return False, f"points {pts.shape}, weights {wts.shape}, size {grid.size}; index table ends at {tot}", None
    if not np.array_equal(np.asarray(grid.center, dtype=float), c):
        return False, f"center attribute {grid.center} differs from the given centre {c}", None
    qs = []
    eye = np.eye(3)
    for i in range(n):
        A, a = unit(method, degs[i])
        s, e = int(idx[i]), int(idx[i + 1])
        ri, wi = float(r[i]), float(w[i])
        want_w = a * wi * ri**2
        W = wts[s:e]
        if not np.allclose(W, want_w, rtol=1e-13, atol=1e-290):
            j = int(np.argmax(np.abs(W - want_w)))
            return False, (f"shell {i} (r={ri!r}, w={wi!r}, degree {degs[i]}): weight {j} is {W[j]!r}, "
                           f"angular weight * w_i * r_i^2 = {want_w[j]!r}"), None
        P = pts[s:e] - c
        atol = 2e-15 * (ri + cmax) + 1e-300
        if ri == 0.0:
            if np.max(np.abs(P)) > atol:
                return False, f"shell {i} has r = 0 but a point {np.max(np.abs(P)):.3g} away from the centre", None
            qs.append(None)
            continue
        if rotate == 0:
            if not np.allclose(P, ri * A, rtol=0, atol=atol + 4e-16 * ri):
                j = int(np.argmax(np.max(np.abs(P - ri * A), axis=1)))
                return False, f"shell {i} (r={ri!r}): point {j} minus centre is {P[j]}, r_i * unit node = {ri * A[j]} (no rotation requested)", None
            qs.append(eye)
            continue
        U = P / ri
        tol_u = 1e-12 + 8 * atol / ri
        if A.shape[0] < 6 or np.linalg.matrix_rank(A) < 3:
            # degenerate configuration: an orthogonal map exists iff the Gram matrices agree
            if not np.allclose(U @ U.T, A @ A.T, rtol=0, atol=10 * tol_u):
                return False, f"shell {i} (r={ri!r}): the points are not an isometric image of the unit grid (Gram matrices differ)", None
            qs.append(None)
            continue
        Q = np.linalg.lstsq(A, U, rcond=None)[0]
        resid = float(np.max(np.abs(A @ Q - U)))
        if resid > 10 * tol_u:
            return False, f"shell {i} (r={ri!r}): (points - centre)/r_i is not a linear image of the unit grid (residual {resid:.3g})", None
        orth = float(np.max(np.abs(Q.T @ Q - eye)))
        if orth > 1e-11 + 40 * tol_u:
            return False, f"shell {i} (r={ri!r}): the map from the unit grid is not orthogonal (|Q^T Q - 1| = {orth:.3g})", None
        if tol_u < 1e-9 and float(np.max(np.abs(Q - eye))) < 1e-6:
            return False, f"shell {i}: rotation seed {rotate} given but the shell is not rotated", None
        qs.append(Q if tol_u < 1e-9 else None)
    return True, None, qs


def same_as_direct(grid, r, w, exp_degs, method, center, rotate):
    """A grid made by an alternative constructor equals the plain constructor's grid for the same degrees, centre and seed
    (the rotation is a function of the seed only, so the seed has to be passed on unchanged)."""
    ref = AtomGrid(OneDGrid(np.array(r), np.array(w), (0, np.inf)), degrees=[int(d) for d in exp_degs],
                   center=None if center is None else np.array(center), rotate=rotate, method=method)
    if int(grid.rotate) != int(rotate):
        return False, f"grid.rotate = {grid.rotate}, seed given {rotate}"
    if ref.points.shape != grid.points.shape or not np.allclose(grid.points, ref.points, rtol=1e-14, atol=1e-300):
        return False, f"points differ from AtomGrid(rgrid, degrees, center, rotate={rotate}) built directly with the same per-shell degrees"
    if not np.allclose(grid.weights, ref.weights, rtol=1e-14, atol=1e-300):
        return False, "weights differ from the grid built directly with the same per-shell degrees"
    return True, None


# ------------------------------------------------------------------------------------------------ input families

RKINDS = ["generic", "with-zero", "unsorted", "single", "wide-range"]
DEGKINDS = ["constant", "sequence", "sizes", "sizes-constant"]
DEG_POOL = {"lebedev": 45, "spherical": 37, "maxdet": 30, "ahrens_beylkin": 47}
SIZE_POOL = {"lebedev": 700, "spherical": 700, "maxdet": 900, "ahrens_beylkin": 900}


def make_radial(g, rkind, tier):
    big = tier != "quick"
    if rkind == "single":
        n = 1
        r = np.array([float(g.uniform(0.2, 3.0))])
    elif rkind == "wide-range":
        n = int(g.integers(3, 8 if not big else 14))
        r = 10.0 ** np.sort(g.uniform(-9, 4, n))
    else:
        n = int(g.integers(2, 9 if not big else 20))
        r = np.sort(g.uniform(0.05, 6.0, n))
        if rkind == "with-zero":
            r[0] = 0.0
        if rkind == "unsorted":
            if n > 2:
                r[1] = r[2]                      # duplicate radius
            r[int(g.integers(0, n))] = 0.0
            r = r[g.permutation(n)]
    w = g.uniform(0.1, 1.5, n)
    if rkind in ("generic", "unsorted") and g.random() < 0.4:
        w[int(g.integers(0, n))] *= -1.0         # signed radial weights are legal
    domain = (0.0, np.inf) if g.random() < 0.6 else None
    return r, w, domain


def make_degrees(g, method, degkind, n, tier):
    """Returns (constructor keywords, expected actual degree per shell, description)."""
    dmax = DEG_POOL[method]
    if tier != "quick" and g.random() < 0.15:
        dmax = {"lebedev": 131, "spherical": 80, "maxdet": 60, "ahrens_beylkin": 70}[method]
    if degkind == "constant":
        d = int(g.integers(0, dmax + 1))
        arg = [d] if g.random() < 0.5 else np.array([d])
        return {"degrees": arg}, [supported_degree(method, d)] * n, {"degrees": [d]}
    if degkind == "sequence":
        ds = [int(x) for x in g.integers(0, dmax + 1, n)]
        arg = list(ds) if g.random() < 0.5 else np.array(ds)
        return {"degrees": arg}, [supported_degree(method, d) for d in ds], {"degrees": ds}
    smax = SIZE_POOL[method]
    if degkind == "sizes":
        ss = [int(x) for x in g.integers(1, smax + 1, n)]
        kw = {"sizes": list(ss) if g.random() < 0.5 else np.array(ss), "degrees": [7] if g.random() < 0.5 else None}
        return kw, [supported_from_size(method, s)[0] for s in ss], {"sizes": ss}
    s = int(g.integers(1, smax + 1))
    return {"sizes": [s], "degrees": None}, [supported_from_size(method, s)[0]] * n, {"sizes": [s]}


def make_center(g, k):
    kind = k % 4
    if kind == 0:
        return None
    if kind == 1:
        return g.normal(size=3) * 2.0
    if kind == 2:
        return np.array([3.0, -2.0, 0.5])
    return g.normal(size=3) * 1e3


def make_seed(g, k, n):
    top = 2**32 - n - 1
    choice = k % 4
    if choice == 0:
        return 1
    if choice == 1:
        return int(top)                         # largest admissible seed: the last shell uses 2^32 - 2
    return int(g.integers(2, top))


def snapshot(*arrs):
    return [None if a is None else np.array(a, copy=True) for a in arrs]


def same(snap, *arrs):
    return all((s is None and a is None) or (s is not None and np.array_equal(s, np.asarray(a))) for s, a in zip(snap, arrs))


# ------------------------------------------------------------------------------------------------ contracts

def shell_contract(grid, r, w, degs, method, center):
    """Clause (c): get_shell_grid(i) = shell i's weights (with/without r^2) and its points relative to the centre."""
    c = np.zeros(3) if center is None else np.asarray(center, dtype=float)
    cmax = float(np.max(np.abs(c)))
    n = len(r)
    idx = np.asarray(grid.indices)
    pts0 = np.array(grid.points, copy=True)
    wts0 = np.array(grid.weights, copy=True)
    for i in range(n):
        key = i if i % 2 else np.int64(i)
        s, e = int(idx[i]), int(idx[i + 1])
        sg = grid.get_shell_grid(key)
        if not isinstance(sg, AngularGrid):
            return False, f"get_shell_grid({i}) returns {type(sg).__name__}"
        if int(sg.degree) != int(degs[i]):
            return False, f"get_shell_grid({i}).degree = {sg.degree}, shell degree {degs[i]}"
        ri, wi = float(r[i]), float(w[i])
        A, a = unit(method, degs[i])
        if sg.points.shape != (e - s, 3) or sg.weights.shape != (e - s,):
            return False, f"get_shell_grid({i}): {sg.points.shape[0]} points, the shell has {e - s}"
        want_p = pts0[s:e] - c
        if not np.allclose(sg.points, want_p, rtol=0, atol=2e-15 * (ri + cmax) + 1e-300):
            j = int(np.argmax(np.max(np.abs(sg.points - want_p), axis=1)))
            return False, f"get_shell_grid({i}): point {j} is {sg.points[j]}, atomic grid point minus centre is {want_p[j]}"
        if not np.allclose(sg.weights, wts0[s:e], rtol=1e-13, atol=1e-290):
            j = int(np.argmax(np.abs(sg.weights - wts0[s:e])))
            return False, f"get_shell_grid({i}): weight {j} is {sg.weights[j]!r}, atomic grid weight {wts0[s:e][j]!r}"
        sg2 = grid.get_shell_grid(key, r_sq=False)
        want = a * wi
        if not np.allclose(sg2.weights, want, rtol=1e-13, atol=1e-290):
            j = int(np.argmax(np.abs(sg2.weights - want)))
            return False, f"get_shell_grid({i}, r_sq=False): weight {j} is {sg2.weights[j]!r}, angular weight * w_i = {want[j]!r} (r_i={ri!r})"
        if not np.allclose(sg2.points, want_p, rtol=0, atol=2e-15 * (ri + cmax) + 1e-300):
            return False, f"get_shell_grid({i}, r_sq=False): points differ from the shell's points relative to the centre"
    for bad in (n, n + 3):
        try:
            grid.get_shell_grid(bad)
            return False, f"get_shell_grid({bad}) accepted for {n} shells"
        except (ValueError, IndexError):
            pass
    if not (np.array_equal(grid.points, pts0) and np.array_equal(grid.weights, wts0)):
        return False, "extracting shells changed the atomic grid"
    return True, None


def grid_case(col, seed, k, tier):
    g = case_rng(seed, "grid", k)
    method = METHODS[k % 4]
    degkind = DEGKINDS[(k // 4) % 4]
    rkind = RKINDS[(k // 16) % 5]
    rotated = bool((k // 80) % 2) if k < 160 else bool(g.integers(0, 2))
    r, w, domain = make_radial(g, rkind, tier)
    n = len(r)
    kw, exp_degs, ddesc = make_degrees(g, method, degkind, n, tier)
    center = make_center(g, k // 4 + k)
    rotate = make_seed(g, k // 16 + k, n) if rotated else 0
    rot = "rot" if rotated else "norot"
    inp = {"family": "grid", "seed": seed, "k": k, "tier": tier, "method": method, "r": r.tolist(), "w": w.tolist(), "domain": str(domain),
           "center": None if center is None else center.tolist(), "rotate": rotate, **ddesc}
    sample = {"method": method, "shells": n, "rotate": rotate, **ddesc}
    state = {}

    def build(center=center, rotate=rotate, method=method, kw=kw):
        rg = OneDGrid(r.copy(), w.copy(), domain)
        return AtomGrid(rg, kw.get("degrees"), sizes=kw.get("sizes"), center=None if center is None else center.copy(),
                        rotate=rotate, method=method)

    def structure():
        snap = snapshot(r, w, center, kw.get("degrees"), kw.get("sizes"))
        rg = OneDGrid(r, w, domain)
        grid = AtomGrid(rg, kw.get("degrees"), sizes=kw.get("sizes"), center=center, rotate=rotate, method=method)
        ok, detail, qs = verify_grid(grid, r, w, exp_degs, method, center, rotate)
        if not ok:
            return False, detail
        if not same(snap, r, w, center, kw.get("degrees"), kw.get("sizes")):
            return False, "an argument (radial nodes/weights, centre, degrees or sizes) was modified"
        if not (np.array_equal(grid.rgrid.points, r) and np.array_equal(grid.rgrid.weights, w)) or int(grid.rotate) != rotate:
            return False, f"attributes rgrid/rotate do not echo the arguments (rotate = {grid.rotate})"
        state["grid"], state["qs"] = grid, qs
        return True, None
    if not col.check(f"structure:{method}:{degkind}:{rkind}:{rot}", structure, inputs=inp, sample=sample):
        return
    grid = state["grid"]

    def shells():
        return shell_contract(grid, r, w, exp_degs, method, center)
    col.check(f"shell-grid:{method}:{rkind}:{rot}", shells, inputs=inp)

    if center is not None:
        def centre():
            g0 = build(center=None)
            want = np.asarray(g0.points) + center
            if not np.allclose(grid.points, want, rtol=4e-16, atol=0):
                j = int(np.argmax(np.max(np.abs(grid.points - want), axis=1)))
                return False, f"point {j}: {grid.points[j]} with the centre, {g0.points[j]} + centre = {want[j]} without"
            if not (np.array_equal(grid.weights, g0.weights) and np.array_equal(grid.indices, g0.indices)
                    and list(grid.degrees) == list(g0.degrees)):
                return False, "moving the centre changed weights, index table or degrees"
            if np.any(np.asarray(g0.center) != 0.0):
                return False, f"default centre is {g0.center}"
            return True, None
        col.check(f"centre-translation:{method}:{rot}", centre, inputs=inp)

    if rotated:
        def rotation():
            g00 = build(rotate=0)
            if not np.array_equal(grid.weights, g00.weights) or not np.array_equal(grid.indices, g00.indices):
                return False, "rotation changed weights or the index table"
            c = np.zeros(3) if center is None else center
            rad_rot = np.linalg.norm(np.asarray(grid.points) - c, axis=1)
            rad_0 = np.linalg.norm(np.asarray(g00.points) - c, axis=1)
            cmax = float(np.max(np.abs(c)))
            if not np.allclose(rad_rot, rad_0, rtol=1e-12, atol=1e-14 * cmax + 1e-300):
                j = int(np.argmax(np.abs(rad_rot - rad_0)))
                return False, f"rotation changed the radius of point {j}: {rad_rot[j]!r} vs {rad_0[j]!r}"
            again = build()
            if not np.array_equal(again.points, grid.points):
                return False, "two grids built with the same seed differ"
            other_seed = rotate - 1 if rotate > 1 else rotate + 1
            other = build(rotate=other_seed)
            ok2, detail2, qs2 = verify_grid(other, r, w, exp_degs, method, center, other_seed)
            if not ok2:
                return False, f"seed {other_seed}: {detail2}"
            q_a, q_b = state["qs"][0], qs2[0]
            if q_a is not None and q_b is not None and np.max(np.abs(q_a - q_b)) < 1e-6:
                return False, f"seeds {rotate} and {other_seed} rotate the first shell identically"
            return True, None
        col.check(f"rotation:{method}:{rkind}", rotation, inputs=inp)


def seed_function_case(col, seed, k, tier):
    """The orthogonal map of shell i depends on the seed (and i) only: not on method, degrees, radii or centre."""
    g = case_rng(seed, "seedfn", k)
    n = int(g.integers(2, 6))
    rotate = make_seed(g, k + 2, n)
    m1, m2 = METHODS[k % 4], METHODS[(k + 1 + k // 4) % 4]
    inp = {"family": "seedfn", "seed": seed, "k": k, "tier": tier, "rotate": rotate, "methods": [m1, m2], "shells": n}

    def chk():
        out = []
        for m in (m1, m2):
            r = np.sort(g.uniform(0.3, 5.0, n))
            w = g.uniform(0.2, 1.0, n)
            ds = [int(x) for x in g.integers(4, DEG_POOL[m] + 1, n)]
            c = g.normal(size=3)
            grid = AtomGrid(OneDGrid(r, w, (0, np.inf)), ds, center=c, rotate=rotate, method=m)
            ok, detail, qs = verify_grid(grid, r, w, [supported_degree(m, d) for d in ds], m, c, rotate)
            if not ok:
                return False, f"{m}: {detail}"
            out.append(qs)
        for i, (qa, qb) in enumerate(zip(*out)):
            if qa is not None and qb is not None and np.max(np.abs(qa - qb)) > 1e-9:
                return False, f"shell {i}: seed {rotate} gives different rotations for {m1} and {m2} grids (max diff {np.max(np.abs(qa - qb)):.3g})"
        return True, None
    col.check(f"rotation-function-of-seed:{m1}+{m2}", chk, inputs=inp, sample={"rotate": rotate, "methods": [m1, m2]})


def integral_case(col, seed, k, tier):
    """int g(r) Y_lm [Y_l'm'] = (sum_i w_i r_i^2 g(r_i)) * exact angular integral, for l (+ l') <= smallest shell degree."""
    g = case_rng(seed, "integral", k)
    method = METHODS[k % 4]
    n = int(g.integers(2, 8 if tier == "quick" else 14))
    r = np.sort(g.uniform(0.05, 5.0, n))
    zero = (k // 4) % 3 == 0
    if zero:
        r[0] = 0.0
    w = g.uniform(0.1, 1.2, n)
    pool = [d for d in sorted(DEGS[method]) if d <= (35 if tier == "quick" else 60) and not (method == "ahrens_beylkin" and d in AB_INEXACT)]
    lo = int(g.integers(0, max(1, len(pool) - 3)))
    picks = [pool[int(x)] for x in g.integers(lo, len(pool), n)]
    picks[int(g.integers(0, n))] = pool[lo]
    # ask for the supported degree or one below it (matched upward), never a request that lands on an excluded file
    asked = []
    for d in picks:
        q = d - 1 if (g.random() < 0.4 and d - 1 >= 0 and supported_degree(method, d - 1) == d) else d
        asked.append(int(q))
    exp_degs = [supported_degree(method, d) for d in asked]
    L = min(exp_degs)
    rotated = bool((k // 2) % 2)
    rotate = make_seed(g, k, n) if rotated else 0
    center = None if k % 5 == 0 else g.normal(size=3) * 1.5
    inp = {"family": "integral", "seed": seed, "k": k, "tier": tier, "method": method, "r": r.tolist(), "w": w.tolist(), "degrees": asked,
           "rotate": rotate, "center": None if center is None else center.tolist()}
    radial_fns = [("exp(-r^2)(1+r)", lambda x: np.exp(-x * x) * (1 + x)), ("r^2 exp(-0.7 r)", lambda x: x * x * np.exp(-0.7 * x)),
                  ("cos(r)/(1+r^2)", lambda x: np.cos(x) / (1 + x * x))]

    def chk():
        grid = AtomGrid(OneDGrid(r, w, (0, np.inf)), asked, center=center, rotate=rotate, method=method)
        c = np.zeros(3) if center is None else center
        P = np.asarray(grid.points) - c
        rad = np.linalg.norm(P, axis=1)
        pol = np.arctan2(np.hypot(P[:, 0], P[:, 1]), P[:, 2])
        az = np.arctan2(P[:, 1], P[:, 0])
        lms = [(l, m) for l in range(0, min(L, 4) + 1) for m in range(-l, l + 1)]
        for _ in range(6):
            l = int(g.integers(0, L + 1))
            lms.append((l, int(g.integers(-l, l + 1))))
        lms.append((L, int(g.integers(-L, L + 1))))
        pairs = [((0, 0), (0, 0))]
        for _ in range(10):
            l1 = int(g.integers(0, L + 1))
            l2 = int(g.integers(0, L - l1 + 1))
            pairs.append(((l1, int(g.integers(-l1, l1 + 1))), (l2, int(g.integers(-l2, l2 + 1)))))
        h = L // 2
        pairs += [((h, h), (h, h)), ((h, -h), (h, -h)), ((h, 0), (L - h, 0)), ((h, h), (h, -h))]
        ycache = {}

        def Y(lm):
            if lm not in ycache:
                ycache[lm] = real_y(lm[0], lm[1], pol, az)
            return ycache[lm]
        for name, fn in radial_fns:
            gv = fn(rad)
            radial = float(np.sum(w * r**2 * fn(r)))
            s_abs = float(np.sum(np.abs(w) * r**2 * np.abs(fn(r)))) + 1e-300
            for (l, m) in lms:
                got = float(grid.integrate(gv * Y((l, m))))
                want = np.sqrt(4 * np.pi) * radial if l == 0 else 0.0
                if not abs(got - want) <= 1e-10 * s_abs * (2 + l):
                    return False, (f"int {name} Y_({l},{m}) = {got!r}; radial sum {radial!r} times the exact angular integral gives {want!r} "
                                   f"(smallest shell degree {L})")
            for (a, b) in pairs:
                got = float(grid.integrate(gv * Y(a) * Y(b)))
                want = radial if a == b else 0.0
                if not abs(got - want) <= 1e-10 * s_abs * (2 + a[0] + b[0]):
                    return False, (f"int {name} Y_{a} Y_{b} = {got!r}; radial sum times the Kronecker delta gives {want!r} "
                                   f"(l + l' = {a[0] + b[0]} <= smallest shell degree {L})")
        return True, None
    col.check(f"factorised-integral:{method}:{'rot' if rotated else 'norot'}:{'r0' if zero else 'r>0'}", chk, inputs=inp,
              sample={"method": method, "degrees": asked, "rotate": rotate})


PRUNED_KINDS = ["generic", "sizes", "tie", "no-sectors", "unsorted", "extremes"]


def sector_position(rv, bounds):
    return sum(1 for b in bounds if rv > b)


def pruned_case(col, seed, k, tier):
    """Clause (d): degree of shell i = supported(d_sectors[#{s : r_i > R a_s}]); from_pruned builds the product grid with it."""
    g = case_rng(seed, "pruned", k)
    method = METHODS[k % 4]
    kind = PRUNED_KINDS[(k // 4) % len(PRUNED_KINDS)]
    n = int(g.integers(3, 10))
    use_sizes = kind == "sizes"
    if kind == "tie":
        radius = float(g.choice([0.5, 2.0, 4.0]))
        r = np.sort(g.choice(np.arange(1, 40), n, replace=False)) * 0.25
        if g.random() < 0.5:
            r[0] = 0.0
        S = int(g.integers(1, min(4, n) + 1))
        sectors = np.sort(g.choice(r, S, replace=False)) / radius       # R * a_s == r_j exactly (dyadic values)
    else:
        radius = float(g.uniform(0.4, 3.0))
        r = np.sort(g.uniform(0.02, 8.0, n))
        if g.random() < 0.3:
            r[0] = 0.0
        if kind == "no-sectors":
            S = 0
            sectors = np.array([])
        else:
            S = int(g.integers(1, 6))
            sectors = np.sort(g.uniform(0.05, 8.0 / radius, S))
            if kind == "unsorted":
                S = max(S, 3)
                sectors = g.uniform(0.05, 8.0 / radius, S)
                sectors[0], sectors[-1] = max(sectors), min(sectors)
            if kind == "extremes":
                # every bound above all radial nodes (first entry for all) / below all positive nodes (last entry, r = 0 keeps the first)
                sectors = sectors + 9.0 / radius if (k // 24) % 2 == 0 else sectors * 1e-4
    w = g.uniform(0.1, 1.0, n)
    if use_sizes:
        ssec = [int(x) for x in g.integers(1, SIZE_POOL[method] + 1, S + 1)]
        req = [supported_from_size(method, s)[0] for s in ssec]
        dsec = [int(x) for x in g.integers(0, 20, S + 1)] if g.random() < 0.5 else None
    else:
        ssec = None
        dsec = [int(x) for x in g.integers(0, DEG_POOL[method] + 1, S + 1)]
        req = [supported_degree(method, d) for d in dsec]
    bounds = [float(a) * radius for a in sectors]
    positions = [sector_position(float(x), bounds) for x in r]
    exp_degs0 = [req[p] for p in positions]
    exp_degs = list(exp_degs0)
    center = make_center(g, k)
    rotate = make_seed(g, k // 3, n) if k % 3 == 1 else 0
    as_list = bool(k % 2)
    r_arg = [float(x) for x in sectors] if as_list else np.array(sectors, dtype=float)
    d_arg = None if dsec is None else (list(dsec) if as_list else np.array(dsec))
    s_arg = None if ssec is None else (list(ssec) if as_list else np.array(ssec))
    inp = {"family": "pruned", "seed": seed, "k": k, "tier": tier, "method": method, "r": r.tolist(), "radius": radius,
           "r_sectors": [float(x) for x in sectors], "d_sectors": dsec, "s_sectors": ssec, "rotate": rotate,
           "center": None if center is None else center.tolist()}

    def admissible(got):
        exp = list(exp_degs0)
        for i in range(min(len(got), len(exp))):
            if kind == "unsorted":
                if got[i] in req:
                    exp[i] = got[i]
            elif any(float(r[i]) == b for b in bounds):
                lo = sum(1 for b in bounds if float(r[i]) > b)
                hi = sum(1 for b in bounds if float(r[i]) >= b)
                if got[i] in {req[q] for q in range(lo, hi + 1)}:
                    exp[i] = got[i]
        return exp

    def chk():
        snap = snapshot(r, w, np.asarray(sectors), d_arg, s_arg)
        rg = OneDGrid(r, w, (0, np.inf))
        grid = AtomGrid.from_pruned(rg, radius, r_arg, d_arg, s_sectors=s_arg, center=center, rotate=rotate, method=method)
        got = [int(d) for d in grid.degrees]
        # the property fixes the degree of a radius strictly inside a sector of ascending bounds; exactly on a bound either neighbouring
        # sector is admissible (the documentation is inconsistent about the closed side), and unsorted bounds are outside the documented domain
        exp_degs = admissible(got)
        if got != exp_degs:
            i = first_diff(got, exp_degs)
            return False, (f"shell {i} (r={r[i]!r}): degree {got[i]}, but r exceeds {positions[i]} of the bounds {bounds} "
                           f"so the sector entry {positions[i]} -> degree {exp_degs[i]} applies")
        ok, detail, _ = verify_grid(grid, r, w, exp_degs, method, center, rotate)
        if not ok:
            return False, detail
        ok, detail = same_as_direct(grid, r, w, exp_degs, method, center, rotate)
        if not ok:
            return False, detail
        if not same(snap, r, w, np.asarray(r_arg, dtype=float), d_arg, s_arg):
            return False, "an argument of from_pruned was modified"
        return True, None
    col.check(f"from_pruned:{kind}:{method}", chk, inputs=inp, sample={"kind": kind, "method": method, "sectors": S, "radius": radius})

    helper = getattr(AtomGrid, "_generate_degree_from_radius", None)
    if helper is not None and not use_sizes:
        def chk_h():
            out = helper(OneDGrid(r, w, (0, np.inf)), radius, r_arg, d_arg, method)
            got = [int(d) for d in np.asarray(out)]
            exp_degs = admissible(got)
            if got != exp_degs:
                i = first_diff(got, exp_degs)
                return False, f"radial point {i} (r={r[i]!r}, bounds {bounds}): degree {got[i] if i < len(got) else None}, expected {exp_degs[i]}"
            return True, None
        col.check(f"_generate_degree_from_radius:{kind}:{method}", chk_h, inputs=inp)
    helper2 = getattr(AtomGrid, "_find_degrees_for_radial_points", None)
    if helper2 is not None:
        def chk_f():
            out = helper2(np.array(r), np.array(bounds, dtype=float), np.array(req))
            got = [int(d) for d in np.asarray(out)]
            exp_degs = admissible(got)
            if got != exp_degs:
                i = first_diff(got, exp_degs)
                return False, f"radial point {i} (r={r[i]!r}, bounds {bounds}): entry {got[i] if i < len(got) else None}, expected {exp_degs[i]}"
            return True, None
        col.check(f"_find_degrees_for_radial_points:{kind}", chk_f, inputs=inp)


# ------------------------------------------------------------------------------------------------ presets

def preset_dir():
    return os.path.join(os.path.dirname(os.path.abspath(_grid_pkg.__file__)), "data", "prune_grid")


def preset_names():
    return sorted(os.path.basename(f)[len("prune_grid_"):-len(".npz")] for f in glob.glob(os.path.join(preset_dir(), "prune_grid_*.npz")))


_PRESET_DATA = {}


def preset_table(name):
    if name not in _PRESET_DATA:
        with np.load(os.path.join(preset_dir(), f"prune_grid_{name}.npz")) as d:
            _PRESET_DATA[name] = {k: np.array(d[k]) for k in d.keys()}
    return _PRESET_DATA[name]


def preset_elements(name):
    d = preset_table(name)
    return sorted(int(k[:-4]) for k in d if k.endswith("_rad") and k[:-4].isdigit())


def preset_rgrid(n, g, rmax=80.0):
    """Radial grid of n nodes from 1e-3 to rmax bohr (beyond every tabulated sector radius), slightly jittered."""
    t = (np.arange(n) + g.uniform(0.3, 0.7)) / n
    r = 1e-3 * (rmax / 1e-3) ** t
    w = r * np.log(rmax / 1e-3) / n
    return r, w


QUICK_Z = [1, 6, 7, 8, 14, 15, 17, 18, 19, 20, 26, 36, 54, 57, 72, 84, 86]


def preset_case(col, seed, name, z, variant, tier):
    """Every preset x element: builds, per-shell structure, no shell coarser than tabulated (sizes = next supported size)."""
    names = preset_names()
    g = case_rng(seed, "preset", (names.index(name) * 100 + z) * 4 + variant)
    data = preset_table(name)
    rad, npt = data[f"{z}_rad"], data[f"{z}_npt"]
    counts = rad.dtype.kind in "iu"
    method = "lebedev" if variant == 0 else METHODS[(z + variant) % 4]
    if counts:
        n = int(rad.sum())
    elif "r_points" in data:
        n = int(np.asarray(data["r_points"]).ravel()[0])
    else:
        n = 45
    r, w = preset_rgrid(n, g)
    tab = None
    if counts and len(npt) >= len(rad):
        tab = np.repeat(npt[:len(rad)], rad)
    elif not counts and len(npt) == len(rad) + 1:
        tab = np.array([npt[sector_position(float(x), [float(b) for b in rad])] for x in r])
    sel = (z + names.index(name) + variant) % 3
    center = None if sel == 0 else g.normal(size=3) * 3.0
    rotate = 0 if sel != 2 else make_seed(g, z, n)
    inp = {"family": "preset", "seed": seed, "preset": name, "atnum": z, "variant": variant, "tier": tier, "method": method,
           "rgrid_size": n, "format": "shell counts" if counts else "sector radii", "rotate": rotate,
           "center": None if center is None else center.tolist()}
    cid = f"preset:{name}:Z{z}" + ("" if variant == 0 else f":{method}")

    def chk():
        if tab is None:
            AtomGrid.from_preset(z, name, OneDGrid(r, w, (0, np.inf)), center=center, rotate=rotate, method=method)
            return False, f"tabulated data are inconsistent ({len(rad)} {'shell counts' if counts else 'sector radii'}, {len(npt)} sizes) but a grid was built"
        grid = AtomGrid.from_preset(z, name, OneDGrid(r, w, (0, np.inf)), center=center, rotate=rotate, method=method)
        exp = [supported_from_size(method, int(s)) for s in tab]
        exp_degs = [e[0] for e in exp]
        ok, detail, _ = verify_grid(grid, r, w, exp_degs, method, center, rotate)
        if not ok:
            return False, detail
        if rotate != 0:
            ok, detail = same_as_direct(grid, r, w, exp_degs, method, center, rotate)
            if not ok:
                return False, detail
        sizes = np.diff(np.asarray(grid.indices))
        if np.any(sizes < tab):
            i = int(np.argmax(sizes < tab))
            return False, f"shell {i} has {int(sizes[i])} points, the preset tabulates {int(tab[i])}"
        return True, None
    ok = col.check(cid, chk, inputs=inp, sample={"preset": name, "atnum": z, "method": method, "rgrid_size": n})
    if ok or col.last_failure is None:
        return
    d = col.last_failure["detail"] or ""
    if name == "sg_3" and z == 14 and counts and len(rad) == len(npt) + 1 and d.startswith(f"IndexError: index {len(npt)} is out of bounds"):
        col.last_failure["case_id"] = cid + ":known-sg3-silicon-six-counts-five-sizes"


def rgrid_size_contract(col, name, zs):
    if _get_rgrid_size is None:
        return
    data = preset_table(name)
    count_fmt = all(data[f"{z}_rad"].dtype.kind in "iu" for z in zs)
    inp = {"family": "rgrid-size", "preset": name}

    def chk():
        if not count_fmt and "r_points" not in data:
            try:
                _get_rgrid_size(name, zs[0])
                return False, f"{name} tabulates sector radii (no radial size) but a size was returned"
            except ValueError:
                return True, None
        for z in zs:
            rad = data[f"{z}_rad"]
            want = int(np.asarray(data["r_points"]).ravel()[0]) if "r_points" in data else int(rad.sum())
            if rad.dtype.kind in "iu" and int(rad.sum()) != want:
                return False, f"data: Z={z} has {int(rad.sum())} shells, the file prescribes {want}"
            got = _get_rgrid_size(name, int(z))
            if len(got) != 1 or int(got[0]) != want:
                return False, f"_get_rgrid_size({name!r}, {z}) = {got}, the table prescribes {want} radial nodes"
        got = _get_rgrid_size(name, [int(z) for z in zs[:5]])
        want = [int(np.asarray(data["r_points"]).ravel()[0]) if "r_points" in data else int(data[f"{z}_rad"].sum()) for z in zs[:5]]
        if [int(x) for x in got] != want:
            return False, f"_get_rgrid_size({name!r}, {list(zs[:5])}) = {got}, expected {want}"
        try:
            _get_rgrid_size(name, None)
            return False, "no atomic number accepted"
        except ValueError:
            pass
        return True, None
    col.check(f"_get_rgrid_size:{name}", chk, inputs=inp)


def default_rgrid_case(col, name, z):
    """from_preset with the default radial grid (sector-radius presets only): structure relative to the grid's own radial grid."""
    data = preset_table(name)
    rad, npt = data[f"{z}_rad"], data[f"{z}_npt"]
    inp = {"family": "preset-default", "preset": name, "atnum": z}

    def chk():
        grid = AtomGrid.from_preset(z, name)
        r, w = np.asarray(grid.rgrid.points), np.asarray(grid.rgrid.weights)
        if np.any(r < 0) or r.size < 2:
            return False, "default radial grid is not a grid on [0, inf)"
        tab = [int(npt[sector_position(float(x), [float(b) for b in rad])]) for x in r]
        exp_degs = [supported_from_size("lebedev", s)[0] for s in tab]
        ok, detail, _ = verify_grid(grid, r, w, exp_degs, "lebedev", None, 0)
        return ok, detail
    col.check(f"preset-default-rgrid:{name}", chk, inputs=inp)


# ------------------------------------------------------------------------------------------------ edges

def edge_cases(col, seed):
    g = case_rng(seed, "edge", 0)
    r = np.array([0.0, 0.4, 1.1, 2.5])
    w = np.array([0.3, 0.5, 0.7, 0.2])
    inp = {"family": "edge", "seed": seed}

    def np_seed():
        rot = np.int64(int(g.integers(2, 10**6)))
        grid = AtomGrid(OneDGrid(r, w, (0, np.inf)), [7], rotate=rot)
        ok, detail, _ = verify_grid(grid, r, w, [7] * 4, "lebedev", None, int(rot))
        if not ok:
            return False, detail
        ref = AtomGrid(OneDGrid(r, w, (0, np.inf)), [7], rotate=int(rot))
        return bool(np.array_equal(ref.points, grid.points)), "NumPy-integer seed and the equal Python integer give different grids"
    ok = col.check("structure:numpy-integer-seed", np_seed, inputs=inp)
    if not ok and col.last_failure is not None and (col.last_failure["detail"] or "").startswith("ValueError: Argument rotate should be an integer"):
        # signature: the constructor's own type check admits numpy integers, the generator then rejects them; Python ints work
        try:
            AtomGrid(OneDGrid(r, w, (0, np.inf)), [7], rotate=5)
            col.last_failure["case_id"] += ":known-numpy-integer-seed-rejected-by-generator"
        except Exception:  # noqa: BLE001
            pass

    def mismatch():
        for kw in ({"degrees": [3, 5]}, {"degrees": [3, 5, 7, 9, 11]}, {"degrees": None, "sizes": [6, 14, 26]}):
            try:
                AtomGrid(OneDGrid(r, w, (0, np.inf)), kw.get("degrees"), sizes=kw.get("sizes"))
                return False, f"{kw} accepted for 4 radial nodes"
            except Exception:  # noqa: BLE001
                pass
        try:
            AtomGrid.from_pruned(OneDGrid(r, w, (0, np.inf)), 1.0, [0.5, 1.0], [3, 5])
            return False, "2 sector bounds with 2 sector degrees accepted"
        except Exception:  # noqa: BLE001
            pass
        return True, None
    col.check("degree-list-length-mismatch-rejected", mismatch, inputs=inp)

    def same_object_degrees():
        # the same degree array used for two grids and a constant list reused: no stale state between constructions
        ds = np.array([3, 9, 5, 11])
        g1 = AtomGrid(OneDGrid(r, w, (0, np.inf)), ds, rotate=3)
        g2 = AtomGrid(OneDGrid(r[::-1].copy(), w[::-1].copy(), (0, np.inf)), ds, rotate=0, method="spherical")
        g3 = AtomGrid(OneDGrid(r, w, (0, np.inf)), ds, rotate=3)
        for gr, rr, ww, m, rot in ((g1, r, w, "lebedev", 3), (g2, r[::-1], w[::-1], "spherical", 0), (g3, r, w, "lebedev", 3)):
            ok, detail, _ = verify_grid(gr, rr, ww, [supported_degree(m, int(d)) for d in ds], m, None, rot)
            if not ok:
                return False, detail
        return bool(np.array_equal(g1.points, g3.points) and np.array_equal(g1.weights, g3.weights)), "interleaved constructions changed a grid"
    col.check("structure:interleaved-constructions", same_object_degrees, inputs=inp)


def cache_contract(col):
    def chk():
        for (m, d), (A, a) in sorted(_UNIT.items()):
            fresh = AngularGrid(degree=d, method=m)
            if not (np.array_equal(fresh.points, A) and np.array_equal(fresh.weights, a)):
                return False, f"the unit {m} grid of degree {d} changed while atomic grids were built (shared cache modified)"
        return True, None
    col.check("angular-cache-intact", chk, inputs={"family": "cache"})


# ------------------------------------------------------------------------------------------------ drivers

def run_presets(col, seed, tier, only=None, only_z=None):
    for pi, name in enumerate(preset_names()):
        if only is not None and name != only:
            continue
        zs = preset_elements(name)
        chosen = zs if tier != "quick" else [z for z in QUICK_Z if z in zs]
        if only_z is not None:
            chosen = [z for z in zs if z == only_z]
        for z in chosen:
            preset_case(col, seed, name, z, 0, tier)
        extra = [z for z in chosen if (z + pi) % (6 if tier == "quick" else 3) == 0]
        for j, z in enumerate(extra):
            preset_case(col, seed, name, z, 1 + j % 3, tier)
        if only_z is None:
            rgrid_size_contract(col, name, chosen if tier == "quick" else zs)
            if preset_table(name)[f"{zs[0]}_rad"].dtype.kind == "f" and "r_points" not in preset_table(name):
                with_default = [z for z in (1, 6, 8, 14, 17, 18, 26, 54, 72) if z in zs]     # elements that have a default radial grid
                default_rgrid_case(col, name, with_default[(seed + pi) % len(with_default)])


def run(tier, seed, *rest):
    col = Collector("real AtomGrid (constructor, from_pruned, from_preset, points, get_shell_grid) on generated radial grids (r=0 nodes, "
                    "unsorted/duplicate radii, single node, 1e-9..1e4) x degree input (constant, sequence, sizes, constant size; unsupported "
                    "values) x 4 angular methods x centres x rotation seeds (0, 1, largest, random): shell index table, per-shell "
                    "least-squares recovery of the orthogonal map, weights a_j w_i r_i^2, translation, seed reproducibility, shell "
                    "extraction, sector counting incl. ties/no sectors/unsorted bounds, factorised integrals of g(r) Y_lm [Y_l'm'] up to the "
                    "smallest shell degree, and every preset file x tabulated element (quick: 17 elements per preset) with a radial grid of "
                    "the prescribed size; distinct = (clause, method, input kinds) or (preset, element)")
    seed = int(seed)
    prewarm()
    n_grid = 160 if tier == "quick" else 1600
    for k in range(n_grid):
        grid_case(col, seed, k, tier)
    for k in range(8 if tier == "quick" else 48):
        seed_function_case(col, seed, k, tier)
    for k in range(48 if tier == "quick" else 720):
        pruned_case(col, seed, k, tier)
    for k in range(24 if tier == "quick" else 360):
        integral_case(col, seed, k, tier)
    edge_cases(col, seed)
    run_presets(col, seed, tier)
    cache_contract(col)
    if tier != "quick":
        col.exhaustive = False
    return col.result()


def _pick(col):
    fails = col.failures
    if not fails:
        return None
    for f in fails:
        if ":known-" not in f["case_id"]:
            return f
    return fails[0]


def replay(req):
    spec = req.get("spec") or {}
    seed = int(req.get("seed", 0) or 0)
    name = str(req.get("obligation", "")).lower()
    what = str(spec.get("what") or spec.get("family") or "").lower()
    col = Collector("replay")
    prewarm(23)
    text = what + " " + name
    did = False
    if "preset" in text or "rgrid_size" in text:
        run_presets(col, seed, "quick", only=spec.get("preset"), only_z=spec.get("atnum"))
        did = True
    if any(t in text for t in ("sector", "pruned", "degree_from_radius", "find_degrees")):
        for k in range(96):
            pruned_case(col, seed, k, "quick")
        did = True
    if "integral" in text or "factoris" in text:
        for k in range(32):
            integral_case(col, seed, k, "quick")
        did = True
    if not did or any(t in text for t in ("generate_atomic_grid", "shell", "points", "centre", "center", "rotat", "structure", "__init__")):
        for k in range(160):
            grid_case(col, seed, k, "quick")
        for k in range(8):
            seed_function_case(col, seed, k, "quick")
        edge_cases(col, seed)
        cache_contract(col)
    f = _pick(col)
    # recorded findings are only reported when the request is aimed at them (a preset/element was named)
    if f is not None and (":known-" not in f["case_id"] or spec.get("preset") is not None or spec.get("include_known")):
        return {"failed": True, "case_id": f["case_id"], "detail": f["detail"], "input": f["input"]}
    return {"failed": False, "detail": f"{col.evaluations} native contract evaluations passed"}


def replay_case(case):
    inp = case.get("input") or {}
    cid = str(case.get("case_id", ""))
    base = cid.split(":known-")[0]
    fam = inp.get("family")
    seed = int(inp.get("seed", 0) or 0)
    tier = inp.get("tier", "quick")
    col = Collector("replay-case")
    prewarm(23)
    if fam == "grid":
        grid_case(col, seed, int(inp["k"]), tier)
    elif fam == "seedfn":
        seed_function_case(col, seed, int(inp["k"]), tier)
    elif fam == "pruned":
        pruned_case(col, seed, int(inp["k"]), tier)
    elif fam == "integral":
        integral_case(col, seed, int(inp["k"]), tier)
    elif fam == "preset":
        preset_case(col, seed, inp["preset"], int(inp["atnum"]), int(inp.get("variant", 0)), tier)
    elif fam == "rgrid-size":
        rgrid_size_contract(col, inp["preset"], preset_elements(inp["preset"]))
    elif fam == "preset-default":
        default_rgrid_case(col, inp["preset"], int(inp["atnum"]))
    elif fam == "edge":
        edge_cases(col, seed)
    else:
        out = run("quick", seed)
        col.failures = out["failures"]
    exact = [f for f in col.failures if f["case_id"].split(":known-")[0] == base]
    other = [f for f in col.failures if ":known-" not in f["case_id"]]
    for f in exact + other:
        return {"failed": True, "case_id": f["case_id"], "detail": f["detail"], "input": f["input"]}
    return {"failed": False}
