"""Bounded run-time contracts for C01 (1-D quadrature rules) on the real classes, native NumPy."""
import math

import numpy as np
from scipy.special import gamma

from grid import onedgrid as og
from rtc.common import Collector, rng


def exact_monomial(k):
    return 0.0 if k % 2 else 2.0 / (k + 1)


def cheb1_moment(k):      # int_{-1}^{1} x^k / sqrt(1-x^2) dx
    if k % 2:
        return 0.0
    r = math.pi
    for j in range(1, k // 2 + 1):
        r *= (2 * j - 1) / (2 * j)
    return r


def cheb2_moment(k):      # int_{-1}^{1} x^k sqrt(1-x^2) dx
    return cheb1_moment(k) - cheb1_moment(k + 2)


def basic(col, name, grid, lo, hi, inputs):
    def chk():
        p, w = grid.points, grid.weights
        n = len(p)
        if p.shape != (n,) or w.shape != (n,):
            return False, f"shapes {p.shape} {w.shape}"
        if not np.all(np.diff(p) > 0):
            return False, f"nodes are not strictly ascending (first violation at index {int(np.argmin(np.diff(p)))})"
        if p.min() < lo - 1e-12 or p.max() > hi + 1e-12:
            return False, f"node outside the declared domain [{lo}, {hi}]"
        d = grid.domain
        if not (d[0] == lo and (d[1] == hi or (np.isinf(hi) and np.isinf(d[1])))):
            return False, f"declared domain {d}"
        return True, None
    col.check(f"{name}:structure", chk, inputs=inputs)


def exactness(col, name, grid, degree, moment, inputs, weightfun=None, suffix=""):
    def chk():
        p, w = grid.points, grid.weights
        ww = w if weightfun is None else w * weightfun(p)
        scale = np.sum(np.abs(ww))
        for k in sorted(set(list(range(0, min(degree, 12) + 1)) + [degree - 1, degree])):
            if k < 0:
                continue
            got = float(np.sum(ww * p**k))
            want = moment(k)
            tol = 2e-12 * max(scale, 1.0) * max(1.0, float(np.max(np.abs(p))) ** k) + 1e-9 * abs(want)
            if not abs(got - want) <= tol:
                return False, f"monomial degree {k}: rule gives {got!r}, exact {want!r}"
        return True, None
    return col.check(f"{name}:exactness{suffix}", chk, inputs=inputs, sample=inputs)


def fejer2_reference(n, truncated):
    theta = np.pi * (np.arange(n) + 1) / (n + 1)
    top = (n + 1) // 2 - (1 if truncated else 0)
    j = np.arange(1, top + 1)
    s = (np.sin(np.outer(2 * j - 1, theta)) / (2 * j - 1)[:, None]).sum(axis=0) if top >= 1 else np.zeros(n)
    return (4 * np.sin(theta) * s / (n + 1))[::-1]


def subst_contract(col, cname, n, step, kw):
    """weights = step * d(node map)/dt at the nodes: the node map is sampled on a 64-times finer grid of the same class."""
    inputs = {"cls": cname, "n": n, **kw}

    def chk():
        C = getattr(og, cname)
        key = "delta" if cname == "TanhSinh" else "h"
        g = C(n, **{key: step})
        K = 64
        m = (n - 1) // 2
        fine = C(2 * (m * K + 2) + 1, **{key: step / K})
        mid = (len(fine.points) - 1) // 2
        hh = step / K
        x = fine.points
        for i in range(n):
            c = mid + (i - m) * K
            d = (x[c - 2] - 8 * x[c - 1] + 8 * x[c + 1] - x[c + 2]) / (12 * hh)
            if abs(x[c] - g.points[i]) > 1e-13 * (1 + abs(x[c])):
                return False, f"node {i} is not the node map at t_i"
            if not abs(g.weights[i] - step * d) <= 5e-5 * abs(step * d) + 1e-300:
                return False, f"weight {i}: {g.weights[i]!r}, step * d(node map)/dt = {step * d!r}"
        return True, None
    col.check(f"{cname}:weights-step-times-derivative", chk, inputs=inputs, sample=inputs)


def run(tier, seed, *rest):
    col = Collector("real rule classes for n = 2..24 (thorough: 2..64, 101, 200), parameters alpha in {-0.5,0,0.5,2.5}, step in {0.05,0.1,0.5}, d in {1,5,9}, "
                    "rho in {1.1,1.4,2}: ascending nodes inside the declared domain; monomial exactness up to the nominal degree (Gauss-Legendre 2n-1, "
                    "CC/Fejer n-1, Simpson 3, trapezoid/midpoint 1; weight-function moments for the Chebyshev and Laguerre rules); variable-substitution "
                    "weights against a finite-difference derivative of the node map; Trefethen weights = map derivative x base weights; distinct = (rule, contract, n parity)")
    g = rng(seed, "C01")
    ns = list(range(2, 25)) if tier == "quick" else list(range(2, 65)) + [101, 200]
    for n in ns:
        par = "odd" if n % 2 else "even"
        inp = {"n": n}
        G = og.GaussLegendre(n)
        basic(col, f"GaussLegendre:{par}", G, -1, 1, inp)
        exactness(col, f"GaussLegendre:{par}", G, 2 * n - 1, exact_monomial, inp)
        for cname, deg in (("ClenshawCurtis", n - 1), ("FejerFirst", n - 1), ("FejerSecond", n - 1), ("Trapezoidal", 1), ("MidPoint", 1)):
            gr = getattr(og, cname)(n)
            basic(col, f"{cname}:{par}", gr, -1, 1, dict(inp, cls=cname))
            ok = exactness(col, f"{cname}:{par}", gr, deg, exact_monomial, dict(inp, cls=cname))
            if not ok and cname == "FejerSecond" and np.allclose(gr.weights, fejer2_reference(n, True), rtol=1e-12, atol=1e-15) \
                    and not np.allclose(gr.weights, fejer2_reference(n, False), rtol=1e-9, atol=1e-12):
                col.last_failure["case_id"] += ":known-series-one-term-short"
        if n % 2:
            S = og.Simpson(n)
            basic(col, "Simpson", S, -1, 1, inp)
            exactness(col, "Simpson", S, 3, exact_monomial, inp)
        C1 = og.GaussChebyshev(n)
        basic(col, f"GaussChebyshev:{par}", C1, -1, 1, inp)
        exactness(col, f"GaussChebyshev:{par}", C1, 2 * n - 1, cheb1_moment, inp, weightfun=lambda x: 1 / np.sqrt(1 - x * x))
        C2 = og.GaussChebyshevType2(n)
        basic(col, f"GaussChebyshevType2:{par}", C2, -1, 1, inp)
        exactness(col, f"GaussChebyshevType2:{par}", C2, 2 * n - 1, cheb2_moment, inp, weightfun=lambda x: np.sqrt(1 - x * x))
        L = og.GaussChebyshevLobatto(n)
        basic(col, f"GaussChebyshevLobatto:{par}", L, -1, 1, inp)
        R = og.RectangleRuleSineEndPoints(n)
        basic(col, f"RectangleRuleSineEndPoints:{par}", R, -1, 1, inp)
        if n <= 40:
            for alpha in (-0.5, 0.0, 0.5, 2.5):
                La = og.GaussLaguerre(n, alpha)
                ia = dict(inp, alpha=alpha)
                basic(col, f"GaussLaguerre:alpha={alpha}", La, 0, np.inf, ia)
                exactness(col, f"GaussLaguerre:alpha={alpha}:{par}", La, min(2 * n - 1, 14), lambda k, a=alpha: float(gamma(k + a + 1)), ia,
                          weightfun=lambda x, a=alpha: x**a * np.exp(-x))
        U = og.UniformInteger(n)
        basic(col, "UniformInteger", U, 0, np.inf, inp)
        col.check("UniformInteger:values", lambda U=U, n=n: (np.array_equal(U.points, np.arange(n)) and np.array_equal(U.weights, np.ones(n)), "nodes/weights"), inputs=inp)
        # Trefethen maps: nodes g(x_i), weights g'(x_i) w_i with g' from central differences of the library's own map
        for cname, base, mk in (("TrefethenCC", og.ClenshawCurtis, lambda d: og.TrefethenCC(n, d)), ("TrefethenGC2", og.GaussChebyshevType2, lambda d: og.TrefethenGC2(n, d)),
                                ("TrefethenGeneral", og.GaussLegendre, lambda d: og.TrefethenGeneral(n, og.GaussLegendre, d))):
            for d in (1, 5, 9):
                def chk(cname=cname, base=base, mk=mk, d=d):
                    t = mk(d)
                    b = base(n)
                    gm = {1: (lambda x: x), 5: og._g2, 9: og._g3}[d]
                    hstep = 1e-5
                    dg = (gm(b.points - 2 * hstep) - 8 * gm(b.points - hstep) + 8 * gm(b.points + hstep) - gm(b.points + 2 * hstep)) / (12 * hstep)
                    if not np.allclose(t.points, gm(b.points), rtol=1e-14, atol=1e-15):
                        return False, "nodes are not the mapped base nodes"
                    if not np.allclose(t.weights, dg * b.weights, rtol=1e-8, atol=1e-14):
                        return False, "weights are not map derivative times base weights"
                    if not (np.all(np.diff(t.points) > 0) and abs(t.points).max() <= 1 + 1e-12):
                        return False, "nodes not ascending inside [-1, 1]"
                    return True, None
                col.check(f"{cname}:d={d}", chk, inputs=dict(inp, d=d))
        for rho in (1.1, 1.4, 2.0):
            for cname, base, mk in (("TrefethenStripCC", og.ClenshawCurtis, lambda: og.TrefethenStripCC(n, rho)),
                                    ("TrefethenStripGC2", og.GaussChebyshevType2, lambda: og.TrefethenStripGC2(n, rho)),
                                    ("TrefethenStripGeneral", og.GaussLegendre, lambda: og.TrefethenStripGeneral(n, og.GaussLegendre, rho))):
                def chk(cname=cname, base=base, mk=mk, rho=rho):
                    t = mk()
                    b = base(n)
                    if not np.allclose(t.points, og._gstrip(rho, b.points), rtol=1e-13, atol=1e-14):
                        return False, "nodes are not the strip-mapped base nodes"
                    inner = np.abs(b.points) < 1 - 1e-6
                    hs = 1e-6 * (1 - np.abs(b.points[inner]))
                    x = b.points[inner]
                    dg = (og._gstrip(rho, x - 2 * hs) - 8 * og._gstrip(rho, x - hs) + 8 * og._gstrip(rho, x + hs) - og._gstrip(rho, x + 2 * hs)) / (12 * hs)
                    if not np.allclose(t.weights[inner], dg * b.weights[inner], rtol=2e-6, atol=1e-13):
                        k = int(np.argmax(np.abs(t.weights[inner] - dg * b.weights[inner]) / (np.abs(dg * b.weights[inner]) + 1e-300)))
                        return False, f"weight at base node {x[k]!r}: {t.weights[inner][k]!r} vs map derivative x base weight {(dg * b.weights[inner])[k]!r}"
                    if abs(og._gstrip(rho, np.array([1.0]))[0] - 1) > 1e-12 or abs(og._gstrip(rho, np.array([-1.0]))[0] + 1) > 1e-12:
                        return False, "strip map does not fix the end points"
                    return True, None
                col.check(f"{cname}:rho={rho}", chk, inputs=dict(inp, rho=rho))
    big = [704, 900] if tier == "quick" else [704, 900, 1500]
    for n in big:      # interior nodes very close to +-1: the end-point branch of the strip-map derivative must not swallow them
        def chk(n=n):
            t = og.TrefethenStripCC(n, 1.1)
            b = og.ClenshawCurtis(n)
            inner = (np.abs(b.points) < 1 - 1e-9) & (np.abs(b.points) > 1 - 1e-4)
            x = b.points[inner]
            hs = 1e-3 * (1 - np.abs(x))
            dg = (og._gstrip(1.1, x - 2 * hs) - 8 * og._gstrip(1.1, x - hs) + 8 * og._gstrip(1.1, x + hs) - og._gstrip(1.1, x + 2 * hs)) / (12 * hs)
            bad = np.abs(t.weights[inner] - dg * b.weights[inner]) > 1e-4 * np.abs(dg * b.weights[inner])
            if np.any(bad):
                k = int(np.argmax(bad))
                return False, f"n={n}: weight at base node {x[k]!r} is {t.weights[inner][k]!r}, map derivative x base weight is {(dg * b.weights[inner])[k]!r}"
            return True, None
        col.check("TrefethenStripCC:near-end-nodes", chk, inputs={"n": n})
    steps = (0.05, 0.1, 0.5)
    for cname in ("TanhSinh", "ExpSinh", "LogExpSinh", "ExpExp", "SingleTanh", "SingleExp", "SingleArcSinhExp"):
        for n in ((3, 7, 11) if tier == "quick" else (1, 3, 5, 7, 11, 21, 41)):
            if cname == "TanhSinh" and n < 3:
                continue
            for step in steps:
                if step * (n - 1) / 2 > 2.6 or (cname in ("ExpSinh", "LogExpSinh") and step * n > 4):
                    continue        # beyond this the double-exponential node maps saturate in float64 (rounding, not a defect)
                gr = getattr(og, cname)(n, **{"delta" if cname == "TanhSinh" else "h": step})
                lo, hi = (-1, 1) if cname in ("TanhSinh", "SingleTanh") else (0, np.inf)
                basic(col, f"{cname}", gr, lo, hi, {"n": n, "step": step})
                subst_contract(col, cname, n, step, {"step": step})

    def guards():
        for cname, bad in (("GaussLegendre", 1), ("ClenshawCurtis", 1), ("Simpson", 4), ("TanhSinh", 4), ("FejerFirst", 1), ("MidPoint", 0)):
            try:
                getattr(og, cname)(bad)
                return False, f"{cname}({bad}) accepted"
            except ValueError:
                pass
        try:
            og.GaussLaguerre(5, -1.0)
            return False, "alpha = -1 accepted"
        except ValueError:
            pass
        return True, None
    col.check("argument-validation", guards)
    return col.result()


def replay(req):
    out = run("quick", req.get("seed", 0))
    spec = req.get("spec") or {}
    cls = spec.get("cls")
    fails = [f for f in out["failures"] if "known" not in f["case_id"]]
    pref = [f for f in fails if cls and f["case_id"].startswith(cls)]
    for f in pref or fails:
        return {"failed": True, "case_id": f["case_id"], "detail": f["detail"], "input": f["input"]}
    return {"failed": False, "detail": f"{out['evaluations']} native evaluations passed"}


def replay_case(case):
    return replay({"seed": 0, "spec": {"cls": (case.get("case_id") or "").split(":")[0]}})
