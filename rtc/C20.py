"""Bounded run-time contracts for C20 (library calls never modify the caller's arrays, dictionaries or callback results).

A snapshot monitor (byte-wise snapshot + SHA-256 of every ndarray / list / dict / grid-object argument and of every
callback return value, taken before and compared after each public call) is wrapped around a broad set of public calls
of the ten anchored modules (ode, poisson, basegrid, atomgrid, molgrid, rtransform, cubic, periodicgrid, becke,
robust_poisson) plus MultiDomainGrid / HirshfeldWeights / coulomb / utils.  Every scenario is run twice on identical
inputs: with writable arrays ("plain") and with every caller array and callback result write-protected ("readonly");
the two runs must have the same outcome and the second must not raise a read-only error.  Dedicated aliasing scenarios:
the same array passed twice, callbacks returning their argument or a cached array (result must equal the run with
copying callbacks), option dictionaries reused across calls.

The oracle is the byte-wise identity of the caller's data and differential runs of the same call with independent copies:
nothing of the library is re-typed.
"""
import os

for _v in ("OMP_NUM_THREADS", "OPENBLAS_NUM_THREADS", "MKL_NUM_THREADS"):
    os.environ.setdefault(_v, "1")

import contextlib  # noqa: E402
import hashlib  # noqa: E402
import signal  # noqa: E402
import threading  # noqa: E402
import tempfile  # noqa: E402
import warnings  # noqa: E402

import numpy as np  # noqa: E402

from grid.angular import AngularGrid  # noqa: E402
from grid.atomgrid import AtomGrid  # noqa: E402
from grid.basegrid import Grid, LocalGrid, OneDGrid  # noqa: E402
from grid.becke import BeckeWeights  # noqa: E402
from grid.cubic import Tensor1DGrids, UniformGrid  # noqa: E402
from grid.hirshfeld import HirshfeldWeights  # noqa: E402
from grid.molgrid import MolGrid  # noqa: E402
from grid.ngrid import MultiDomainGrid  # noqa: E402
from grid.ode import solve_ode_bvp, solve_ode_ivp  # noqa: E402
from grid.onedgrid import GaussChebyshev, GaussLegendre, UniformInteger  # noqa: E402
from grid.periodicgrid import PeriodicGrid  # noqa: E402
from grid.poisson import interpolate_laplacian, solve_poisson_bvp, solve_poisson_ivp  # noqa: E402
from grid import rtransform as rt  # noqa: E402
from grid.rtransform import BaseTransform  # noqa: E402
from rtc.common import Collector, rng  # noqa: E402

try:  # newer module; the driver must survive its absence
    from grid.robust_poisson import solve_poisson_robust
except ImportError:  # pragma: no cover
    solve_poisson_robust = None

TRACKED = (Grid, BaseTransform, BeckeWeights, HirshfeldWeights)


# ------------------------------------------------------------------------------------------------ snapshots
def snap(o, depth=0):
    """Byte-wise structural snapshot of caller data."""
    if isinstance(o, np.ndarray):
        data = repr(o.tolist()).encode() if o.dtype.hasobject else np.ascontiguousarray(o).tobytes()
        return ("nd", o.dtype.str, tuple(o.shape), data)
    if depth > 6:
        return ("deep",)
    if isinstance(o, (list, tuple)):
        return (type(o).__name__, tuple(snap(e, depth + 1) for e in o))
    if isinstance(o, dict):
        return ("dict", tuple((repr(k), snap(v, depth + 1)) for k, v in sorted(o.items(), key=lambda kv: repr(kv[0]))))
    if isinstance(o, TRACKED):
        if depth > 3:
            return ("obj", type(o).__name__, ())
        items = []
        for k, v in sorted(vars(o).items()):
            if isinstance(v, (np.ndarray, list, dict, tuple) + TRACKED):
                items.append((k, snap(v, depth + 1)))
        return ("obj", type(o).__name__, tuple(items))
    if callable(o):
        return ("callable",)
    if isinstance(o, (bool, int, float, complex, str, bytes, type(None), np.generic)):
        return ("val", type(o).__name__, repr(o))
    return ("other", type(o).__name__)


def sha(s):
    return hashlib.sha256(repr(s).encode() if not (isinstance(s, tuple) and s and s[0] == "nd") else s[3]).hexdigest()[:12]


def _describe_nd(a, b):
    if a[1] != b[1] or a[2] != b[2]:
        return f"array changed from dtype {a[1]} shape {a[2]} to dtype {b[1]} shape {b[2]}"
    try:
        dt = np.dtype(a[1])
        if dt.hasobject:
            return "object array changed"
        x = np.frombuffer(a[3], dtype=dt)
        y = np.frombuffer(b[3], dtype=dt)
        bx = np.frombuffer(a[3], dtype=np.uint8).reshape(x.size, dt.itemsize)
        by = np.frombuffer(b[3], dtype=np.uint8).reshape(x.size, dt.itemsize)
        bad = np.nonzero(np.any(bx != by, axis=1))[0]
        k = int(bad[0])
        idx = tuple(int(i) for i in np.unravel_index(k, a[2])) if a[2] else ()
        return (f"{bad.size} of {x.size} elements changed; first at index {idx}: {x[k]!r} -> {y[k]!r} "
                f"(sha256 {sha(a)} -> {sha(b)})")
    except Exception:  # noqa: BLE001
        return f"bytes changed (sha256 {sha(a)} -> {sha(b)})"


def diff(a, b, path=""):
    """First difference between two snapshots (None when equal).  For objects only what was tracked before is compared."""
    if a == b:
        return None
    if a[0] != b[0]:
        return f"{path or 'value'}: {a[0]} became {b[0]}"
    kind = a[0]
    if kind == "nd":
        return f"{path + ': ' if path else ''}{_describe_nd(a, b)}"
    if kind in ("list", "tuple"):
        if len(a[1]) != len(b[1]):
            return f"{path or kind}: length {len(a[1])} -> {len(b[1])}"
        for i, (x, y) in enumerate(zip(a[1], b[1])):
            d = diff(x, y, f"{path}[{i}]")
            if d:
                return d
        return None
    if kind == "dict":
        ka, kb = dict(a[1]), dict(b[1])
        added = sorted(set(kb) - set(ka))
        removed = sorted(set(ka) - set(kb))
        if added or removed:
            return f"{path or 'dict'}: keys added {added} removed {removed}"
        for k in ka:
            d = diff(ka[k], kb[k], f"{path}[{k}]")
            if d:
                return d
        return None
    if kind == "obj":
        if a[1] != b[1]:
            return f"{path or 'object'}: type {a[1]} -> {b[1]}"
        kb = dict(b[2])
        for k, s in a[2]:
            if k not in kb:
                return f"{path}.{k}: attribute no longer holds an array/list/dict"
            d = diff(s, kb[k], f"{path}.{k}")
            if d:
                return d
        return None
    return f"{path or 'value'}: {a} -> {b}"


def protect(o, depth=0):
    """Write-protect every ndarray reachable from caller data."""
    if isinstance(o, np.ndarray):
        o.setflags(write=False)
    elif depth > 4:
        return
    elif isinstance(o, (list, tuple)):
        for e in o:
            protect(e, depth + 1)
    elif isinstance(o, dict):
        for e in o.values():
            protect(e, depth + 1)
    elif isinstance(o, TRACKED):
        for v in vars(o).values():
            if isinstance(v, (np.ndarray, list, tuple, dict) + TRACKED):
                protect(v, depth + 1)


def canon(v, depth=0):
    """Comparable form of a call outcome."""
    if v is None:
        return [("none",)]
    if isinstance(v, (bool, int, float, np.integer, np.floating, np.bool_)):
        return [np.asarray(v, dtype=float)]
    if isinstance(v, np.ndarray):
        if v.dtype.hasobject or v.dtype.kind in "USV":
            return [("repr", repr(v.tolist()))]
        return [np.array(v, dtype=complex if v.dtype.kind == "c" else float)]
    if isinstance(v, str):
        return [("str", v)]
    if depth > 4:
        return [("deep",)]
    if isinstance(v, Grid):
        out = [("grid", type(v).__name__)]
        if isinstance(v.points, np.ndarray) and isinstance(v.weights, np.ndarray):      # MultiDomainGrid hands out generators
            out += canon(v.points, depth + 1) + canon(v.weights, depth + 1)
        if isinstance(v, LocalGrid) and v.indices is not None:
            out += canon(np.asarray(v.indices), depth + 1)
        return out
    if isinstance(v, (list, tuple)):
        out = [("seq", len(v))]
        for e in v:
            out += canon(e, depth + 1)
        return out
    if isinstance(v, dict):
        out = [("dict", tuple(sorted(map(repr, v))))]
        for k in sorted(v, key=repr):
            out += canon(v[k], depth + 1)
        return out
    return [("type", type(v).__name__)]


def same_canon(a, b, rtol=1e-9, atol=1e-11):
    if len(a) != len(b):
        return False, f"outcomes have different structure ({len(a)} vs {len(b)} parts)"
    for i, (x, y) in enumerate(zip(a, b)):
        if isinstance(x, np.ndarray) and isinstance(y, np.ndarray):
            if x.shape != y.shape:
                return False, f"part {i}: shape {x.shape} vs {y.shape}"
            if not np.allclose(x, y, rtol=rtol, atol=atol, equal_nan=True):
                with np.errstate(all="ignore"):
                    k = int(np.nanargmax(np.abs(np.where(np.isfinite(x - y), x - y, np.inf)).ravel())) if x.size else 0
                return False, f"part {i}: values differ, e.g. flat index {k}: {x.ravel()[k]!r} vs {y.ravel()[k]!r}"
        elif isinstance(x, np.ndarray) or isinstance(y, np.ndarray) or x != y:
            return False, f"part {i}: {str(x)[:80]} vs {str(y)[:80]}"
    return True, None


class CallTimeout(Exception):
    """A library call exceeded the watchdog limit (e.g. a solver fed with corrupted callback results never terminates)."""


_LIMIT = {"first": 25.0, "later": 4.0, "hit": False}


@contextlib.contextmanager
def time_limit():
    """Watchdog around every library call: the driver stays bounded whatever the library does."""
    usable = hasattr(signal, "setitimer") and threading.current_thread() is threading.main_thread()
    if not usable:
        yield
        return
    seconds = _LIMIT["later"] if _LIMIT["hit"] else _LIMIT["first"]

    def handler(signum, frame):
        _LIMIT["hit"] = True
        raise CallTimeout(f"no result after {seconds:.0f} s")
    prev = signal.signal(signal.SIGALRM, handler)
    signal.setitimer(signal.ITIMER_REAL, seconds, 1.0)      # repeats: a library-level "except Exception" cannot swallow it for good
    try:
        yield
    finally:
        signal.setitimer(signal.ITIMER_REAL, 0)
        signal.signal(signal.SIGALRM, prev)


class _Abort(Exception):
    """A monitored call raised: the rest of the scenario cannot continue (the outcome is already recorded)."""


# ------------------------------------------------------------------------------------------------ the monitor
class Mon:
    def __init__(self, col, scen, variant, g, tier, tmp):
        self.col, self.scen, self.variant, self.g, self.tier, self.tmp = col, scen, variant, g, tier, tmp
        self.readonly = variant == "readonly"
        self.objs = []          # [name, obj]
        self.cbrecs = []        # (callback name, call number, returned object, snapshot at return time)
        self.outcomes = {}      # label -> canon outcome
        self.states = {}        # label -> raw state of the last call
        self.failed = {}        # case id -> collector record
        self.raised = []
        self._labels = set()
        self._late = []
        self._in_call = False

    # ---- caller data
    def own(self, name, obj):
        if self.readonly:
            protect(obj)
        for e in self.objs:
            if e[1] is obj:
                return obj
        self.objs.append([name, obj])
        if self._in_call:       # registered while the arguments of a monitored call are being evaluated
            self._late.append((self.objs[-1], snap(obj)))
        return obj

    def arr(self, name, a, dtype=None):
        return self.own(name, np.array(a, dtype=dtype))

    def _auto(self, name, a):
        if isinstance(a, (np.ndarray, list, dict) + TRACKED):
            self.own(name, a)
        elif isinstance(a, tuple) and any(isinstance(e, (np.ndarray, list, dict, tuple) + TRACKED) for e in a):
            self.own(name, a)

    # ---- callbacks
    def cb(self, name, fn, mode="fresh", role="other"):
        """Caller callback.  mode: 'fresh' (new array each call), 'arg' (returns its first argument itself),
        'cached' (returns one cached array per argument shape; only for argument-independent functions)."""
        cache = {}
        count = [0]

        def wrapped(*args):
            if mode == "arg":
                out = args[0]
            elif mode == "cached":
                key = np.shape(args[0])
                if key not in cache:
                    arr = np.array(fn(*args), dtype=float)
                    if self.readonly:
                        arr.setflags(write=False)
                    cache[key] = arr
                    self.objs.append([f"{name}.cached{key}", arr])
                    self._late.append((self.objs[-1], snap(arr)))
                out = cache[key]
            else:
                out = fn(*args)
                if self.readonly and isinstance(out, np.ndarray):
                    out.setflags(write=False)
            count[0] += 1
            if isinstance(out, (np.ndarray, list)) and len(self.cbrecs) < 20000:
                self.cbrecs.append((name, count[0], out, snap(out)))
            return out
        wrapped.__name__ = name
        return wrapped

    # ---- monitored public call
    def call(self, label, fn, *args, may_raise=False, **kw):
        assert label not in self._labels, label
        self._labels.add(label)
        cid = f"{self.scen}:{label}:{self.variant}"
        for i, a in enumerate(args):
            self._auto(f"{label}.arg{i}", a)
        for k, a in kw.items():
            self._auto(f"{label}.{k}", a)
        before = [(e, snap(e[1])) for e in self.objs]
        self._late = []
        nrec0 = len(self.cbrecs)
        st = {"value": None, "exc": None, "viol": [], "before": before}

        def chk():
            self._in_call = True
            try:
                with warnings.catch_warnings(), np.errstate(all="ignore"), time_limit():
                    warnings.simplefilter("ignore")
                    st["value"] = fn(*args, **kw)
            except Exception as e:  # noqa: BLE001
                st["exc"] = e
            finally:
                self._in_call = False
            viol = []
            for e, s in before + self._late:
                d = diff(s, snap(e[1]))
                if d:
                    viol.append((e[0], d, e[1], s))
            for nm, k, out, s in self.cbrecs[nrec0:]:
                d = diff(s, snap(out))
                if d:
                    viol.append((f"return value #{k} of callback {nm}", d, out, s))
            st["viol"] = viol
            if viol:
                more = f" (+{len(viol) - 1} more)" if len(viol) > 1 else ""
                how = f" [the call raised {type(st['exc']).__name__}]" if st["exc"] is not None else ""
                return False, f"caller data modified: {viol[0][0]}: {viol[0][1]}{more}{how}"
            if st["exc"] is not None and "read-only" in str(st["exc"]):
                return False, f"raised {type(st['exc']).__name__}: {st['exc']}"
            return True, None
        inputs = {"scenario": self.scen, "call": label, "variant": self.variant, "objects": [e[0] for e in self.objs][:30]}
        ok = self.col.check(cid, chk, inputs=inputs, sample={"scenario": self.scen, "call": label, "variant": self.variant})
        self.states[label] = st
        self.outcomes[label] = [("exc", type(st["exc"]).__name__)] if st["exc"] is not None else canon(st["value"])
        if not ok and self.col.last_failure is not None:
            self.failed[cid] = self.col.last_failure
        if st["exc"] is not None:
            if not may_raise:
                self.raised.append(f"{cid}: {type(st['exc']).__name__}: {str(st['exc'])[:100]}")
                raise _Abort(label)
            return None
        return st["value"]

    def same(self, label, got, want, what, rtol=1e-9, atol=1e-11):
        """Differential contract: outcome `got` (aliased / shared inputs) equals outcome `want` (independent copies)."""
        assert label not in self._labels, label
        self._labels.add(label)
        cid = f"{self.scen}:{label}:{self.variant}"
        a = self.outcomes[got] if isinstance(got, str) else got
        b = self.outcomes[want] if isinstance(want, str) else want

        def chk():
            ok, d = same_canon(a, b, rtol, atol)
            return ok, None if ok else f"{what}: {d}"
        ok = self.col.check(cid, chk, inputs={"scenario": self.scen, "contract": label, "variant": self.variant})
        if not ok and self.col.last_failure is not None:
            self.failed[cid] = self.col.last_failure
        return ok


# ------------------------------------------------------------------------------------------------ scenario runner
SCENARIOS = []      # (name, function, library names exercised)


def scenario(name, *funcs):
    def deco(fn):
        SCENARIOS.append((name, fn, funcs))
        return fn
    return deco


def _run_variant(col, name, fn, variant, seed, tier, rep, tmp):
    m = Mon(col, name, variant, rng(seed, f"C20:{name}:{rep}"), tier, tmp)
    m.rep = rep
    np.random.seed((int(seed) * 7919 + rep * 104729 + sum(map(ord, name))) % (2**32))   # the library draws BVP start values from the global generator
    err = None
    try:
        fn(m)
    except _Abort:
        pass
    except Exception as e:  # noqa: BLE001   (scenario code stumbled, e.g. over a changed API: decides nothing)
        err = f"{name}:{variant}: {type(e).__name__}: {str(e)[:120]}"
    return m, err


def run_scenario(col, name, fn, seed, tier, rep, notes):
    with tempfile.TemporaryDirectory() as tmp:
        mons = {}
        for variant in ("plain", "readonly"):
            m, err = _run_variant(col, name, fn, variant, seed, tier, rep, tmp)
            mons[variant] = m
            if err:
                notes.append(err)
            notes.extend(m.raised)
        # read-only inputs must not change the outcome of any call
        mp, mr = mons["plain"], mons["readonly"]
        for label, want in mp.outcomes.items():
            if label not in mr.outcomes:
                continue
            got = mr.outcomes[label]
            cid = f"{name}:{label}:readonly-same-outcome"

            def chk(got=got, want=want, label=label):
                ok, d = same_canon(got, want)
                if ok:
                    return True, None
                exc = mr.states[label]["exc"]
                extra = f" (read-only run raised {type(exc).__name__}: {str(exc)[:120]})" if exc is not None else ""
                return False, f"outcome with write-protected inputs differs from the outcome with writable inputs: {d}{extra}"
            ok = col.check(cid, chk, inputs={"scenario": name, "call": label, "variant": "readonly-same-outcome"})
            if not ok and col.last_failure is not None:
                mr.failed[cid] = col.last_failure
    return mons


# ------------------------------------------------------------------------------------------------ scenarios: grids
def _big(m):
    return m.tier != "quick"


@scenario("basegrid-3d", "Grid", "integrate", "get_localgrid", "moments", "__getitem__", "save")
def sc_basegrid(m):
    g = m.g
    n = 40 if _big(m) else 17
    pts = m.arr("points", g.normal(size=(n, 3)))
    wts = m.arr("weights", g.uniform(0.1, 1.0, n))
    grid = m.call("Grid", Grid, pts, wts)
    v = m.arr("values", g.normal(size=n))
    v2 = m.arr("values2", g.normal(size=n))
    m.call("integrate-1", grid.integrate, v)
    m.call("integrate-2", grid.integrate, v, v2)
    m.call("integrate-same-array-twice", grid.integrate, v, v)
    m.same("integrate-same-array-twice-result", "integrate-same-array-twice", canon(float(np.sum(wts * v * v))),
           "integrate(v, v) differs from integrate(v, copy of v)", rtol=1e-12)
    m.call("integrate-own-weights", grid.integrate, wts)
    m.call("integrate-wrong-shape", grid.integrate, m.arr("short", g.normal(size=n - 1)), may_raise=True)
    c_list = m.own("center-list", [0.1, -0.2, 0.3])
    c_arr = m.arr("center-array", [0.2, 0.1, -0.1])
    m.call("get_localgrid-list-center", grid.get_localgrid, c_list, 1.3)
    loc = m.call("get_localgrid-array-center", grid.get_localgrid, c_arr, 1.1)
    m.call("get_localgrid-inf", grid.get_localgrid, c_arr, np.inf)
    m.call("get_localgrid-empty", grid.get_localgrid, m.arr("far", [50.0, 50.0, 50.0]), 0.5)
    m.call("get_localgrid-point-of-grid", grid.get_localgrid, pts[3], 0.9)
    m.call("get_localgrid-negative-radius", grid.get_localgrid, c_arr, -1.0, may_raise=True)
    m.call("localgrid-integrate", loc.integrate, m.arr("locvals", g.normal(size=loc.size)))
    m.call("getitem-int", grid.__getitem__, 2)
    m.call("getitem-slice", grid.__getitem__, slice(1, n, 3))
    m.call("getitem-index-array", grid.__getitem__, m.arr("idx", [0, 5, 5, 2]))
    m.call("getitem-mask", grid.__getitem__, m.arr("mask", g.random(n) < 0.5))
    cen = m.arr("centers", g.normal(size=(2, 3)))
    for tm in ("cartesian", "radial", "pure", "pure-radial"):
        m.call(f"moments-{tm}", grid.moments, 2, cen, v, tm, True)
    m.call("moments-centers-are-points", grid.moments, 1, pts[:2], wts, "cartesian")
    m.call("moments-bad-centers", grid.moments, 1, cen[0], v, may_raise=True)
    m.call("save", grid.save, os.path.join(m.tmp, f"g-{m.variant}.npz"))
    # replace the stored arrays by other caller arrays: the old and the new ones stay untouched
    newp = m.arr("new-points", g.normal(size=(n, 3)))
    m.call("points-setter", lambda a: setattr(grid, "points", a), newp)
    m.call("weights-setter", lambda a: setattr(grid, "weights", a), m.arr("new-weights", g.uniform(0.1, 1, n)))
    m.call("get_localgrid-after-setter", grid.get_localgrid, c_arr, 1.1)
    m.call("integrate-after-setter", grid.integrate, v)


@scenario("basegrid-1d", "Grid", "OneDGrid", "LocalGrid", "get_localgrid")
def sc_basegrid1d(m):
    g = m.g
    n = 12
    a = m.arr("shared", np.sort(g.uniform(0.1, 2.0, n)))
    grid = m.call("Grid-points-is-weights", Grid, a, a)
    m.call("integrate-shared", grid.integrate, a, a)
    m.same("integrate-shared-result", "integrate-shared", canon(float(np.sum(a * a * a))), "points, weights and values share one array", rtol=1e-12)
    m.call("get_localgrid-scalar-center", grid.get_localgrid, 1.0, 0.6)
    m.call("get_localgrid-0d-array-center", grid.get_localgrid, m.arr("c0", 0.8), 0.5)
    dom = m.own("domain-list", [0.0, 3.0])
    og = m.call("OneDGrid-list-domain", OneDGrid, a, m.arr("w", g.uniform(0.1, 1, n)), dom)
    m.call("OneDGrid-shared", OneDGrid, a, a, (0, 5))
    m.call("OneDGrid-bad-domain", OneDGrid, a, a, m.own("bad-domain", [3.0, 0.0]), may_raise=True)
    m.call("OneDGrid-below-domain", OneDGrid, a, a, (1.0, 5.0), may_raise=True)
    m.call("onedgrid-getitem-int", og.__getitem__, 0)
    m.call("onedgrid-getitem-slice", og.__getitem__, slice(2, 9, 2))
    m.call("onedgrid-getitem-array", og.__getitem__, m.arr("idx", [3, 1, 1]))
    p3 = m.arr("lpoints", g.normal(size=(6, 3)))
    lw = m.arr("lweights", g.uniform(0.1, 1, 6))
    lg = m.call("LocalGrid-center-is-row-of-points", LocalGrid, p3, lw, p3[2], m.arr("lindices", np.arange(6)))
    m.call("localgrid-save", lg.save, os.path.join(m.tmp, f"l-{m.variant}.npz"))
    m.call("localgrid-getlocal", lg.get_localgrid, p3[2], 1.0, may_raise=True)
    m.call("LocalGrid-bad-indices", LocalGrid, p3, lw, p3[2], m.arr("short-idx", np.arange(5)), may_raise=True)


def _pm1_nodes(m, n):
    x = np.sort(m.g.uniform(-0.98, 0.98, n))
    x[0], x[-1] = -1.0, 1.0           # both ends: the map to infinity and the trimmed values are exercised
    return x


def _transform_table(g):
    rmin = float(g.uniform(0.0, 0.3))
    mm = int(g.integers(1, 4))
    return [
        ("Becke", "pm1", lambda: rt.BeckeRTransform(rmin, 1.3)),
        ("BeckeNoTrim", "pm1", lambda: rt.BeckeRTransform(rmin, 0.8, trim_inf=False)),
        ("LinearFinite", "pm1", lambda: rt.LinearFiniteRTransform(rmin, rmin + 4.0)),
        ("MultiExp", "pm1", lambda: rt.MultiExpRTransform(rmin, 1.1)),
        ("Knowles", "pm1", lambda: rt.KnowlesRTransform(rmin, 1.2, 2)),
        ("Handy", "pm1", lambda: rt.HandyRTransform(rmin, 0.9, mm)),
        ("HandyMod", "pm1", lambda: rt.HandyModRTransform(rmin, rmin + 2**mm + 5.0, mm)),
        ("Identity", "pos", lambda: rt.IdentityRTransform()),
        ("LinearInfinite", "pos", lambda: rt.LinearInfiniteRTransform(rmin + 0.01, rmin + 10)),
        ("Exp", "pos", lambda: rt.ExpRTransform(rmin + 0.01, rmin + 10)),
        ("Power", "pos", lambda: rt.PowerRTransform(rmin + 0.01, rmin + 10)),
        ("Hyperbolic", "pos", lambda: rt.HyperbolicRTransform(1.2, 0.04)),
        ("InverseBecke", "inv", lambda: rt.InverseRTransform(rt.BeckeRTransform(rmin, 1.3))),
    ]


def _make_transform_scenario(tname):
    @scenario(f"rtransform-{tname}", f"{tname}RTransform", "transform", "inverse", "deriv", "deriv2", "deriv3", "transform_1d_grid", "_convert_inf")
    def sc(m):
        g = m.g
        _, kind, make = next(t for t in _transform_table(g) if t[0] == tname)
        tf = make()
        n = 9 if not _big(m) else 24
        if kind == "pm1":
            x = _pm1_nodes(m, n)
            dom = (-1, 1)
        elif kind == "pos":
            x = np.arange(n, dtype=float)
            dom = (0, np.inf)
        else:
            x = np.sort(g.uniform(0.4, 30.0, n))
            dom = None
        x = m.arr("x", x)
        r = None
        for meth in ("transform", "deriv", "deriv2", "deriv3"):
            out = m.call(meth, getattr(tf, meth), x, may_raise=True)
            if meth == "transform":
                r = out
        m.call("transform-scalar", tf.transform, float(x[n // 2]), may_raise=True)
        if r is not None:
            rr = m.arr("r", np.array(r, dtype=float)[1:-1])
            for meth in ("inverse", "deriv_inverse", "deriv2_inverse", "deriv3_inverse"):
                m.call(meth, getattr(tf, meth), rr, may_raise=True)
        if dom is not None:
            w = m.arr("w", g.uniform(0.1, 1.0, n))
            og = m.call("OneDGrid", OneDGrid, x, w, dom)
            new = m.call("transform_1d_grid", tf.transform_1d_grid, og, may_raise=True)
            if new is not None:
                m.call("transformed-integrate", new.integrate, m.arr("vals", g.normal(size=n)))
            lib = GaussLegendre(n) if kind == "pm1" else UniformInteger(n)
            m.call("transform_1d_grid-library-grid", tf.transform_1d_grid, lib, may_raise=True)
            m.call("transform_1d_grid-not-a-grid", tf.transform_1d_grid, x, may_raise=True)
        if tname == "Becke":
            m.call("find_parameter-odd", rt.BeckeRTransform.find_parameter, x, 0.1, 1.2)
            m.call("find_parameter-even", rt.BeckeRTransform.find_parameter, x[:-1], 0.1, 1.2)
        if tname == "InverseBecke":
            m.call("InverseRTransform-of-inverse", lambda: rt.InverseRTransform(tf).transform(np.array([-0.5, 0.0, 0.5])))
    return sc


for _t in ("Becke", "BeckeNoTrim", "LinearFinite", "MultiExp", "Knowles", "Handy", "HandyMod", "Identity", "LinearInfinite", "Exp", "Power",
           "Hyperbolic", "InverseBecke"):
    _make_transform_scenario(_t)


# ------------------------------------------------------------------------------------------------ scenarios: atomic / molecular grids
def _radial(m, n, name="rgrid", r0=False, rmax=5.0):
    pts = np.sort(m.g.uniform(0.05, rmax, n))
    if r0:
        pts[0] = 0.0
    p = m.arr(f"{name}.points", pts)
    w = m.arr(f"{name}.weights", m.g.uniform(0.05, 0.6, n))
    return m.call(f"OneDGrid-{name}", OneDGrid, p, w, (0, np.inf))


def _atom_methods(m, ag, tag, interp=True):
    g = m.g
    f = m.arr(f"{tag}.f", np.exp(-0.5 * np.sum((np.asarray(ag.points) - ag.center) ** 2, axis=1)) * (1 + 0.3 * np.asarray(ag.points)[:, 0]))
    f2 = m.arr(f"{tag}.F", g.normal(size=(2, ag.size)))
    m.call(f"{tag}-integrate", ag.integrate, f)
    m.call(f"{tag}-integrate-twice", ag.integrate, f, f)
    m.call(f"{tag}-integrate_angular_coordinates-1d", ag.integrate_angular_coordinates, f)
    m.call(f"{tag}-integrate_angular_coordinates-2d", ag.integrate_angular_coordinates, f2)
    m.call(f"{tag}-spherical_average", lambda v: ag.spherical_average(v)(np.array([0.3, 1.0])), f)
    m.call(f"{tag}-radial_component_splines", lambda v: [s(np.array([0.3, 1.0])) for s in ag.radial_component_splines(v)], f)
    m.call(f"{tag}-radial_component_splines-again", lambda v: [s(np.array([0.3, 1.0])) for s in ag.radial_component_splines(v)], f)
    q = m.arr(f"{tag}.q", g.normal(size=(5, 3)) + ag.center)
    m.call(f"{tag}-convert_cartesian_to_spherical-grid", ag.convert_cartesian_to_spherical)
    m.call(f"{tag}-convert_cartesian_to_spherical-points", ag.convert_cartesian_to_spherical, q)
    m.call(f"{tag}-convert_cartesian_to_spherical-1d-point", ag.convert_cartesian_to_spherical, m.arr(f"{tag}.q1", [0.3, -0.2, 0.9]))
    m.call(f"{tag}-convert_cartesian_to_spherical-center", ag.convert_cartesian_to_spherical, q, m.arr(f"{tag}.c2", [0.5, 0.25, -1.0]))
    m.call(f"{tag}-convert_cartesian_to_spherical-center-is-point", ag.convert_cartesian_to_spherical, q, q[1])
    if interp:
        fn = m.call(f"{tag}-interpolate", ag.interpolate, f)
        m.call(f"{tag}-interp-values", fn, q)
        m.call(f"{tag}-interp-deriv1", fn, q, 1)
        m.call(f"{tag}-interp-deriv1-spherical", fn, q, 1, True)
        m.call(f"{tag}-interp-deriv2-radial", fn, q, 2, False, True)
        m.call(f"{tag}-interp-deriv2-not-radial", fn, q, 2, may_raise=True)
    m.call(f"{tag}-get_shell_grid", ag.get_shell_grid, 1)
    m.call(f"{tag}-get_shell_grid-no-r2", ag.get_shell_grid, 0, False)
    m.call(f"{tag}-get_localgrid", ag.get_localgrid, m.arr(f"{tag}.lc", ag.center + 0.3), 1.5)
    m.call(f"{tag}-moments-pure", ag.moments, 1, m.arr(f"{tag}.mc", np.array([ag.center, ag.center + 0.5])), f, "pure")
    m.call(f"{tag}-save", ag.save, os.path.join(m.tmp, f"{tag}-{m.variant}.npz"))


@scenario("atomgrid", "AtomGrid", "from_pruned", "from_preset", "integrate_angular_coordinates", "spherical_average", "radial_component_splines",
          "interpolate", "convert_cartesian_to_spherical", "get_shell_grid", "_generate_atomic_grid")
def sc_atomgrid(m):
    g = m.g
    n = 7 if not _big(m) else 12
    rgrid = _radial(m, n, r0=True)
    center = m.arr("center", [0.3, -0.4, 0.2])
    degs = m.own("degrees-list", [int(d) for d in g.choice([3, 5, 7], n)])
    ag = m.call("AtomGrid-degree-list", lambda: AtomGrid(rgrid, degs, center=center, rotate=0))
    _atom_methods(m, ag, "ag")
    degs_a = m.arr("degrees-array", g.choice([3, 5, 6], n))      # 6 is not a Lebedev degree: the next one is used
    ag2 = m.call("AtomGrid-degree-array-rotated", lambda: AtomGrid(rgrid, degs_a, center=center, rotate=7))
    _atom_methods(m, ag2, "agrot", interp=False)
    m.call("AtomGrid-one-degree", lambda: AtomGrid(rgrid, m.own("one-degree", [5]), center=m.own("center-list", [0.0, 0.0, 1.0])))
    m.call("AtomGrid-sizes-list", lambda: AtomGrid(rgrid, None, sizes=m.own("sizes-list", [6, 14, 26, 6, 14, 26, 38][:n] + [6] * max(0, n - 7)), center=center))
    m.call("AtomGrid-sizes-array", lambda: AtomGrid(rgrid, None, sizes=m.arr("sizes-array", [14]), center=center, rotate=3))
    m.call("AtomGrid-wrong-number-of-degrees", lambda: AtomGrid(rgrid, m.own("short-degrees", [3, 5]), center=center), may_raise=True)
    m.call("AtomGrid-bad-center", lambda: AtomGrid(rgrid, degs, center=m.arr("bad-center", [0.0, 1.0])), may_raise=True)
    rs = m.own("r_sectors-list", [0.5, 1.0, 1.5])
    ds = m.own("d_sectors-list", [3, 7, 5, 3])
    agp = m.call("from_pruned-lists", lambda: AtomGrid.from_pruned(rgrid, 1.1, r_sectors=rs, d_sectors=ds, center=center))
    m.call("from_pruned-arrays", lambda: AtomGrid.from_pruned(rgrid, 0.9, r_sectors=m.arr("r_sectors-array", [0.4, 2.0]),
                                                             d_sectors=m.arr("d_sectors-array", [5, 3, 7]), center=center, rotate=2))
    m.call("from_pruned-sizes", lambda: AtomGrid.from_pruned(rgrid, 1.0, r_sectors=rs, d_sectors=None, s_sectors=m.own("s_sectors", [6, 26, 14, 6]), center=center))
    m.call("from_pruned-mismatch", lambda: AtomGrid.from_pruned(rgrid, 1.0, r_sectors=rs, d_sectors=m.own("d3", [3, 5, 7]), center=center), may_raise=True)
    m.call("pruned-integrate", agp.integrate, m.arr("pf", g.normal(size=agp.size)))
    lib = GaussChebyshev(10)
    libr = m.own("library-rgrid", rt.BeckeRTransform(0.0, 1.2).transform_1d_grid(lib))
    for preset, z in (("coarse", 1), ("sg_0", 6), ("sg_1", 8), ("sg_1", 26)):
        m.call(f"from_preset-{preset}-{z}", lambda p=preset, z=z: AtomGrid.from_preset(z, p, rgrid=libr if p != "coarse" else rgrid, center=center), may_raise=True)
    m.call("from_preset-default-rgrid", lambda: AtomGrid.from_preset(1, "coarse", center=center, rotate=1))
    m.call("AtomGrid-same-rgrid-again", lambda: AtomGrid(rgrid, degs, center=center, rotate=0).integrate(np.ones(ag.size)))


def _molecule(m, natom):
    g = m.g
    zs = [1, 8, 6, 17, 7][:natom]
    atnums = m.arr("atnums", zs, dtype=int)
    coords = g.normal(size=(natom, 3)) * 0.4 + np.arange(natom)[:, None] * np.array([1.4, 0.3, -0.2])
    atcoords = m.arr("atcoords", coords)
    return atnums, atcoords


@scenario("molgrid", "MolGrid", "from_size", "from_preset", "from_pruned", "get_atomic_grid", "interpolate", "__getitem__")
def sc_molgrid(m):
    g = m.g
    natom = 2 if not _big(m) else 3
    atnums, atcoords = _molecule(m, natom)
    rgrid = _radial(m, 6)
    becke = m.own("becke", BeckeWeights(m.own("radii", {1: 0.8, 8: 1.3}), order=3))
    atgrids = m.own("atgrids", [AtomGrid(rgrid, [5, 3, 5, 7, 3, 5], center=atcoords[i], rotate=0) for i in range(natom)])
    mg = m.call("MolGrid-becke-store", MolGrid, atnums, atgrids, becke, store=True)
    f = m.arr("f", g.normal(size=mg.size))
    m.call("integrate", mg.integrate, f)
    m.call("integrate-aim-weights", mg.integrate, mg.aim_weights)
    m.call("get_atomic_grid", mg.get_atomic_grid, 1)
    m.call("getitem-stored", mg.__getitem__, 0)
    q = m.arr("q", g.normal(size=(4, 3)) + atcoords[0])
    fn = m.call("interpolate", mg.interpolate, f)
    m.call("interp-values", fn, q)
    m.call("interp-deriv1", fn, q, 1)
    m.call("moments", mg.moments, 1, atcoords, f, "radial")
    m.call("moments-centers-is-atcoords-result", lambda: mg.moments(1, atcoords.copy(), f.copy(), "radial"))
    m.same("moments-shared-centers", "moments", "moments-centers-is-atcoords-result", "moments with the grid's own centre array vs copies")
    m.call("get_localgrid", mg.get_localgrid, atcoords[1], 1.2)
    m.call("save", mg.save, os.path.join(m.tmp, f"mg-{m.variant}.npz"))
    aw = m.arr("aim-array", g.uniform(0.1, 1.0, mg.size))
    mg2 = m.call("MolGrid-array-weights", MolGrid, atnums, atgrids, aw, store=False)
    m.call("getitem-not-stored", mg2.__getitem__, 1)
    m.call("get_atomic_grid-not-stored", mg2.get_atomic_grid, 0)
    m.call("interpolate-not-stored", mg2.interpolate, f, may_raise=True)
    m.call("MolGrid-wrong-size-weights", MolGrid, atnums, atgrids, m.arr("aim-short", np.ones(3)), may_raise=True)
    m.call("MolGrid-same-atgrid-twice", MolGrid, m.arr("atnums2", [1, 1], dtype=int), m.own("twice", [atgrids[0], atgrids[0]]), becke)
    # user weight callables: fresh result, cached result, result = one of the arguments' own arrays
    for mode in ("fresh", "cached"):
        cbk = m.cb(f"aim-{mode}", lambda pts, atc, nums, ind: np.full(len(pts), 0.5), mode=mode)
        mgc = m.call(f"MolGrid-callable-{mode}", MolGrid, atnums, atgrids, cbk, store=True)
        m.call(f"callable-{mode}-integrate", mgc.integrate, f)
    m.call("MolGrid-hirshfeld", MolGrid, atnums, atgrids, HirshfeldWeights())
    m.call("from_size", lambda: MolGrid.from_size(atnums, atcoords, 14, rgrid=rgrid, aim_weights=becke, rotate=0, store=True))
    m.call("from_size-default-weights", lambda: MolGrid.from_size(atnums, atcoords, 6, rgrid=rgrid, rotate=5))
    presets_l = m.own("preset-list", ["coarse", "medium", "coarse"][:natom])
    presets_d = m.own("preset-dict", {1: "coarse", 8: "coarse", 6: "medium"})
    rg_l = m.own("rgrid-list", [rgrid] * natom)
    rg_d = m.own("rgrid-dict", {1: rgrid, 8: rgrid, 6: rgrid})
    m.call("from_preset-str", lambda: MolGrid.from_preset(atnums, atcoords, "coarse", rgrid, aim_weights=becke, rotate=0))
    m.call("from_preset-list", lambda: MolGrid.from_preset(atnums, atcoords, presets_l, rg_l, rotate=0, store=True))
    m.call("from_preset-dict", lambda: MolGrid.from_preset(atnums, atcoords, presets_d, rg_d, aim_weights=aw if False else becke))
    m.call("from_preset-bad-coords", lambda: MolGrid.from_preset(atnums, atcoords[0], "coarse", rgrid), may_raise=True)
    r_sec = m.own("r_sectors", [[0.5, 1.0], [0.7, 1.4], [0.6]][:natom])
    d_sec = m.own("d_sectors", [[3, 5, 7], [5, 3, 5], [3, 5]][:natom])
    s_sec = m.own("s_sectors", [[6, 14, 26], [14, 6, 14], [6, 14]][:natom])
    radii = m.own("radius-list", [0.9, 1.2, 1.0][:natom])
    m.call("from_pruned-float-radius", lambda: MolGrid.from_pruned(atnums, atcoords, 1.0, r_sec, d_sec, rgrid=rgrid, aim_weights=becke, rotate=0))
    m.call("from_pruned-list-radius", lambda: MolGrid.from_pruned(atnums, atcoords, radii, r_sec, d_sec, rgrid=rg_l, rotate=3, store=True))
    m.call("from_pruned-sizes", lambda: MolGrid.from_pruned(atnums, atcoords, radii, r_sec, s_sectors=s_sec, rgrid=rg_d, rotate=0))
    m.call("from_pruned-mismatch", lambda: MolGrid.from_pruned(atnums, atcoords, 1.0, r_sec[:1], d_sec, rgrid=rgrid), may_raise=True)


@scenario("becke", "BeckeWeights", "generate_weights", "compute_weights", "compute_atom_weight", "__call__", "_calculate_alpha")
def sc_becke(m):
    g = m.g
    natom = 3 if not _big(m) else 5
    atnums, atcoords = _molecule(m, natom)
    npt = 4 * natom + 3
    pts = m.arr("points", g.normal(size=(npt, 3)) * 1.5 + atcoords.mean(axis=0))
    radii = m.own("radii", {1: 0.6, 6: 1.4})
    b = m.call("BeckeWeights", BeckeWeights, radii, 3)
    m.call("BeckeWeights-bad-keys", BeckeWeights, m.own("bad-radii", {"H": 0.5}), may_raise=True)
    ind = m.arr("indices", np.round(np.linspace(0, npt, natom + 1)).astype(int))
    m.call("call", b, pts, atcoords, atnums, ind)                 # chunk size (10 npt) // natom^2 < npt: several chunks
    m.call("call-list-indices-as-array", b, pts, atcoords, atnums, ind)
    m.call("generate_weights-all", lambda: b.generate_weights(pts, atcoords, atnums, pt_ind=ind))
    sel = m.own("select-list", [natom - 1, 0])
    pi = m.own("pt_ind-list", [0, 5, npt])
    m.call("generate_weights-select-list", lambda: b.generate_weights(pts, atcoords, atnums, select=sel, pt_ind=pi))
    m.call("generate_weights-select-int", lambda: b.generate_weights(pts, atcoords, atnums, select=1))
    m.call("generate_weights-np-int", lambda: b.generate_weights(pts, atcoords, atnums, select=np.int64(0)))
    m.call("generate_weights-bad-pt_ind", lambda: b.generate_weights(pts, atcoords, atnums, select=1, pt_ind=m.own("one", [0])), may_raise=True)
    m.call("compute_weights-select-list", lambda: b.compute_weights(pts, atcoords, atnums, select=sel, pt_ind=pi))
    m.call("compute_weights-select-array", lambda: b.compute_weights(pts, atcoords, atnums, select=m.arr("select-array", [1, 0, 1]), pt_ind=m.arr("pt_ind-array", [0, 2, 6, npt])))
    m.call("compute_weights-int", lambda: b.compute_weights(pts, atcoords, atnums, select=0))
    m.call("compute_atom_weight", b.compute_atom_weight, pts, atcoords, atnums, 1)
    # the nuclei themselves as grid points: the same array is points and atcoords
    m.call("generate_weights-points-is-atcoords", lambda: b.generate_weights(atcoords, atcoords, atnums, select=0))
    m.call("generate_weights-points-copy-of-atcoords", lambda: b.generate_weights(atcoords.copy(), atcoords.copy(), atnums.copy(), select=0))
    m.same("points-is-atcoords-result", "generate_weights-points-is-atcoords", "generate_weights-points-copy-of-atcoords", "points and atcoords are one array vs copies")
    m.call("call-empty", b, m.arr("nopoints", np.zeros((0, 3))), atcoords, atnums, m.arr("zero-indices", np.zeros(natom + 1, dtype=int)), may_raise=True)
    m.call("hirshfeld-call", HirshfeldWeights(), pts, atcoords, atnums, ind, may_raise=True)     # no pro-atom file for every element


# ------------------------------------------------------------------------------------------------ scenarios: rectilinear and periodic grids
@scenario("cubic", "Tensor1DGrids", "UniformGrid", "from_molecule", "from_cube", "generate_cube", "interpolate", "closest_point", "coordinates_to_index")
def sc_cubic(m):
    g = m.g
    gx = m.call("OneDGrid-x", OneDGrid, m.arr("x", np.sort(g.normal(size=4))), m.arr("wx", g.uniform(0.1, 1, 4)))
    gy = m.call("OneDGrid-y", OneDGrid, m.arr("y", np.sort(g.normal(size=3))), m.arr("wy", g.uniform(0.1, 1, 3)))
    t3 = m.call("Tensor1DGrids-3d-same-grid-twice", Tensor1DGrids, gx, gy, gx)
    t2 = m.call("Tensor1DGrids-2d-same-grid-twice", Tensor1DGrids, gy, gy)
    m.call("tensor-integrate", t3.integrate, m.arr("tv", g.normal(size=t3.size)))
    m.call("tensor-get_points_along_axes", t3.get_points_along_axes)
    m.call("tensor2-get_points_along_axes", t2.get_points_along_axes)
    m.call("tensor-save", t3.save, os.path.join(m.tmp, f"t-{m.variant}.npz"))
    m.call("tensor-coordinates_to_index-list", t3.coordinates_to_index, m.own("co-list", [1, 2, 3]))
    m.call("tensor-coordinates_to_index-array", t3.coordinates_to_index, m.arr("co-array", [3, 0, 1]))
    m.call("tensor-index_to_coordinates", t3.index_to_coordinates, 17)
    origin = m.arr("origin", g.normal(size=3))
    axes = m.arr("axes", np.diag(g.uniform(0.3, 0.6, 3)) + g.uniform(-0.05, 0.05, (3, 3)))
    shape = m.arr("shape", [4, 3, 5], dtype=int)
    for scheme in ("Rectangle", "Trapezoid", "Alternative", "Fourier1", "Fourier2"):
        m.call(f"UniformGrid-3d-{scheme}", UniformGrid, origin, axes, shape, scheme, may_raise=True)
    o2 = m.arr("origin2", g.normal(size=2))
    a2 = m.arr("axes2", np.array([[0.4, 0.1], [-0.05, -0.5]]))
    s2 = m.arr("shape2", [3, 4], dtype=int)
    for scheme in ("Rectangle", "Trapezoid", "Alternative", "Fourier1"):
        m.call(f"UniformGrid-2d-{scheme}", UniformGrid, o2, a2, s2, scheme)
    m.call("UniformGrid-singular-axes", UniformGrid, origin, m.arr("singular", np.ones((3, 3))), shape, may_raise=True)
    m.call("UniformGrid-origin-is-row-of-axes", UniformGrid, axes[0], axes, shape, "Rectangle")
    # interpolation on an orthogonal grid
    dshape = m.arr("dshape", [7, 8, 9], dtype=int)
    daxes = m.arr("daxes", np.diag([0.4, 0.35, 0.3]))
    ug = m.call("UniformGrid-diagonal", UniformGrid, origin, daxes, dshape, "Rectangle")
    P = np.asarray(ug.points)
    vals = m.arr("values", 1.5 + np.sin(P[:, 0]) * np.cos(0.5 * P[:, 1]) + 0.1 * P[:, 2])
    lo, hi = P.min(axis=0), P.max(axis=0)
    q = m.arr("q", lo + (0.3 + 0.4 * g.random((3, 3))) * (hi - lo))
    m.call("interpolate-cubic", ug.interpolate, q, vals)
    m.call("interpolate-cubic-derivative", ug.interpolate, q, vals, nu_x=1, nu_z=1)
    m.call("interpolate-log", ug.interpolate, q, vals, use_log=True)
    m.call("interpolate-log-derivative", ug.interpolate, q, vals, use_log=True, nu_y=1)
    m.call("interpolate-linear", ug.interpolate, q, vals, method="linear", may_raise=True)
    m.call("interpolate-nearest-log", ug.interpolate, q, vals, use_log=True, method="nearest", may_raise=True)
    m.call("interpolate-wrong-size", ug.interpolate, q, vals[:-1], may_raise=True)
    m.call("closest_point-closest", ug.closest_point, q[0], "closest")
    m.call("closest_point-origin", ug.closest_point, m.own("point-list", [float(v) for v in q[1]]), "origin")
    m.call("closest_point-skewed", UniformGrid(origin.copy(), axes.copy(), shape.copy()).closest_point, q[0], may_raise=True)
    neg = m.call("UniformGrid-negative-axis", UniformGrid, origin, m.arr("naxes", np.diag([0.4, -0.35, 0.3])), dshape, "Alternative")
    m.call("closest_point-negative-axis", neg.closest_point, m.arr("npoint", origin + np.array([0.9, -1.1, 0.7])), "closest")
    m.call("uniform-get_points_along_axes", ug.get_points_along_axes)
    m.call("uniform-integrate", ug.integrate, vals, vals)
    m.call("uniform-save", ug.save, os.path.join(m.tmp, f"u-{m.variant}.npz"))
    m.call("uniform-get_localgrid", ug.get_localgrid, q[2], 0.8)
    atnums, atcoords = _molecule(m, 3)
    core = m.arr("atcorenums", atnums.astype(float) - 0.5)
    fname = os.path.join(m.tmp, f"c-{m.variant}.cube")
    m.call("generate_cube-pseudo", ug.generate_cube, fname, vals, atcoords, atnums, core)
    m.call("from_cube-data", UniformGrid.from_cube, fname, "Rectangle", True)
    m.call("generate_cube-no-pseudo", ug.generate_cube, fname, vals.reshape(7, 8, 9), atcoords, atnums)
    m.call("from_cube-grid-only", UniformGrid.from_cube, fname)
    m.call("generate_cube-bad-name", ug.generate_cube, fname + ".txt", vals, atcoords, atnums, may_raise=True)
    for rot in (True, False):
        m.call(f"from_molecule-rotate-{rot}", UniformGrid.from_molecule, core, atcoords, 0.9, 1.5, rot, "Rectangle")
    m.call("from_molecule-int-numbers", UniformGrid.from_molecule, atnums, atcoords, 1.0, 1.2, True)
    m.call("from_molecule-one-atom", UniformGrid.from_molecule, core[:1], atcoords[:1], 0.8, 1.0, False, "Alternative")


@scenario("periodicgrid", "PeriodicGrid", "get_localgrid", "__getitem__")
def sc_periodic(m):
    g = m.g
    # 3-d, skewed cell, points outside the primitive cell
    rv = m.arr("realvecs3", np.array([[2.0, 0.1, 0.0], [0.3, 1.8, 0.0], [-0.2, 0.1, 2.2]]))
    frac = g.uniform(-0.6, 1.7, (14, 3))
    p3 = m.arr("points3", frac @ rv)
    w3 = m.arr("weights3", g.uniform(0.1, 1, 14))
    for wrap in (False, True):
        pg = m.call(f"PeriodicGrid-3d-wrap-{wrap}", PeriodicGrid, p3, w3, rv, wrap)
        c = m.arr(f"center3-{wrap}", g.normal(size=3))
        m.call(f"get_localgrid-3d-wrap-{wrap}", pg.get_localgrid, c, 1.9)
        m.call(f"get_localgrid-3d-center-is-point-{wrap}", pg.get_localgrid, p3[4], 1.2)
        m.call(f"get_localgrid-3d-empty-{wrap}", pg.get_localgrid, c, 0.0)
        m.call(f"getitem-slice-{wrap}", pg.__getitem__, slice(0, 8, 2))
        m.call(f"getitem-int-{wrap}", pg.__getitem__, 3)
        m.call(f"integrate-{wrap}", pg.integrate, w3)
    m.call("PeriodicGrid-realvecs-is-points-block", PeriodicGrid, p3, w3, p3[:3], may_raise=True)
    # 2-d with one lattice vector, and no lattice vectors at all
    rv1 = m.arr("realvecs2", np.array([[1.5, 0.5]]))
    p2 = m.arr("points2", g.uniform(-2, 3, (9, 2)))
    w2 = m.arr("weights2", g.uniform(0.1, 1, 9))
    pg2 = m.call("PeriodicGrid-2d-one-vector-wrap", PeriodicGrid, p2, w2, rv1, True)
    m.call("get_localgrid-2d", pg2.get_localgrid, m.own("center2-list", [0.4, 0.2]), 2.0)
    pg0 = m.call("PeriodicGrid-aperiodic", PeriodicGrid, p2, w2)
    m.call("get_localgrid-aperiodic", pg0.get_localgrid, m.arr("center2", [0.1, 0.3]), 1.5)
    m.call("PeriodicGrid-singular", PeriodicGrid, p2, w2, m.arr("singular", np.array([[1.0, 2.0], [2.0, 4.0]])), may_raise=True)
    # 1-d, negative lattice vector, the same array as points and weights
    rv0 = m.arr("realvecs1", np.array([-1.3]))
    p1 = m.arr("points1", g.uniform(-3, 3, 8))
    for wrap in (False, True):
        pg1 = m.call(f"PeriodicGrid-1d-shared-wrap-{wrap}", PeriodicGrid, p1, p1, rv0, wrap, may_raise=True)
        if pg1 is not None:
            m.call(f"get_localgrid-1d-scalar-{wrap}", pg1.get_localgrid, 0.2, 1.1)
            m.call(f"get_localgrid-1d-0d-array-{wrap}", pg1.get_localgrid, m.arr(f"c1-{wrap}", 0.35), 2.4)
    m.call("PeriodicGrid-1d-no-vectors", PeriodicGrid, p1, m.arr("weights1", g.uniform(0.1, 1, 8)), may_raise=True)


# ------------------------------------------------------------------------------------------------ scenarios: ODE solvers
def _rhs(mode):
    """(callable for the monitored run, independent reference callable); 'cached' needs an argument-independent function."""
    if mode == "arg":
        return (lambda x: x), (lambda x: np.array(x, dtype=float, copy=True))
    if mode == "cached":
        return (lambda x: np.full(np.shape(x), 2.0)), (lambda x: np.full(np.shape(x), 2.0))
    return (lambda x: np.sin(x) + 0.5), (lambda x: np.sin(x) + 0.5)


def _ode_transform(kind):
    if kind == "identity":
        return rt.IdentityRTransform()
    if kind == "becke":
        return rt.BeckeRTransform(0.1, 1.2)
    if kind == "linear":
        return rt.LinearFiniteRTransform(0.2, 2.0)
    return None


def _bvp_case(m, mode, order, kind, coef_kind):
    """One monitored solve_ode_bvp call + evaluation, and the same call with independent copies and copying callbacks."""
    g = m.g
    tag = f"bvp-{kind}-order{order}-{coef_kind}"
    lo, hi = ((-0.7, 0.4) if kind in ("becke", "linear") else (0.0, 1.0))
    npt = 9
    x0 = np.linspace(lo, hi, npt)
    guess0 = g.normal(size=(order, npt)) * 0.1
    f_mon, f_ref = _rhs(mode)
    lead = 1.0 + float(g.uniform(0.0, 0.5))
    if order == 2:
        bd0 = [[0, 0, 0.0], [1, 0, 1.0]]
        consts = [-1.0, 0.3, lead]
    else:
        bd0 = [(0, 0, 0.0), (1, 0, 0.5), (0, 1, 0.2)]
        consts = [0.2, 1.0, -0.3, lead]
    a0 = lambda x: consts[0] * (1.0 + 0.2 * np.cos(x))         # noqa: E731
    if coef_kind == "leading-only":                            # a_K y^(K) = f with a_K != 1: every lower coefficient vanishes identically
        consts = [0.0] * order + [lead + 0.7]
    if coef_kind in ("numbers", "leading-only"):
        coeffs = m.own(f"{tag}.coeffs-list", list(consts))
        coeffs_ref = list(consts)
    elif coef_kind == "array":
        coeffs = m.arr(f"{tag}.coeffs-array", consts)
        coeffs_ref = np.array(consts)
    else:   # callables: one returning its argument (a_1(x) = x), one returning a cached constant (leading coefficient)
        c1 = m.cb(f"{tag}.a1-returns-argument", lambda x: x, mode="arg", role="coef")
        ck = m.cb(f"{tag}.aK-cached", lambda x: np.full(np.shape(x), lead), mode="cached", role="coef")
        c0 = m.cb(f"{tag}.a0-fresh", a0, mode="fresh", role="coef")
        coeffs = m.own(f"{tag}.coeffs-callables", [c0, c1] + ([consts[2]] if order == 3 else []) + [ck])
        coeffs_ref = [a0, (lambda x: np.array(x, dtype=float, copy=True))] + ([consts[2]] if order == 3 else []) + [lambda x: np.full(np.shape(x), lead)]
    x = m.arr(f"{tag}.x", x0)
    guess = m.arr(f"{tag}.guess", guess0)
    bd = m.own(f"{tag}.bd_cond", [list(b) if isinstance(b, list) else b for b in bd0])
    fx = m.cb(f"{tag}.fx-{mode}", f_mon, mode=mode, role="fx")
    tf = _ode_transform(kind)
    if tf is not None:
        m.own(f"{tag}.transform", tf)
    q0 = np.linspace(lo + 0.05, hi - 0.05, 5)
    q = m.arr(f"{tag}.q", q0)
    sol = m.call(f"{tag}-solve_ode_bvp", solve_ode_bvp, x, fx, coeffs, bd, tf, 1e-6, 2000, guess, order != 3, may_raise=True)
    got = m.outcomes[f"{tag}-solve_ode_bvp"]
    if sol is not None:
        m.call(f"{tag}-evaluate", sol, q, may_raise=True)
        got = m.outcomes[f"{tag}-evaluate"]
    try:
        with warnings.catch_warnings(), np.errstate(all="ignore"), time_limit():
            warnings.simplefilter("ignore")
            ref = canon(solve_ode_bvp(x0.copy(), f_ref, coeffs_ref, [list(b) for b in bd0], _ode_transform(kind), 1e-6, 2000, guess0.copy(), order != 3)(q0.copy()))
    except Exception as e:  # noqa: BLE001
        ref = [("exc", type(e).__name__)]
    m.same(f"{tag}-result-as-with-copies", got, ref, f"solution with fx mode '{mode}' / shared arrays differs from the run with copying callbacks and copies")


def _ivp_case(m, mode, order, kind, y0_kind):
    g = m.g
    tag = f"ivp-{kind}-order{order}-{y0_kind}"
    span0 = (-0.7, 0.3) if kind in ("becke", "linear") else (0.2, 1.4)
    f_mon, f_ref = _rhs(mode)
    lead = 1.0 + float(g.uniform(0.0, 0.5))
    consts = [-1.0, 0.3, lead] if order == 2 else [0.2, 1.0, -0.3, lead]
    y00 = [0.3, -0.2, 0.1][:order]
    leading_only = y0_kind == "leading-only"
    if leading_only:
        consts = [0.0] * order + [lead + 0.7]
        y0_kind = "list"
    if y0_kind == "list":
        y0 = m.own(f"{tag}.y0-list", list(y00))
        span = m.own(f"{tag}.x_span-list", list(span0))
        coeffs = m.own(f"{tag}.coeffs-list", list(consts))
    else:
        y0 = m.arr(f"{tag}.y0-array", y00)
        span = span0
        c1 = m.cb(f"{tag}.a1-returns-argument", lambda x: x, mode="arg", role="coef")
        coeffs = m.own(f"{tag}.coeffs-mixed", [consts[0], c1] + consts[2:])
    coeffs_ref = list(consts) if y0_kind == "list" else [consts[0], (lambda x: np.array(x, dtype=float, copy=True))] + consts[2:]
    fx = m.cb(f"{tag}.fx-{mode}", f_mon, mode=mode, role="fx")
    tf = _ode_transform(kind)
    if tf is not None:
        m.own(f"{tag}.transform", tf)
    q0 = np.linspace(span0[0], span0[1], 5)
    q = m.arr(f"{tag}.q", q0)
    nod = order == 2
    sol = m.call(f"{tag}-solve_ode_ivp", solve_ode_ivp, span, fx, coeffs, y0, tf, "DOP853", nod, 1e-9, 1e-9, may_raise=True)
    got = m.outcomes[f"{tag}-solve_ode_ivp"]
    if sol is not None:
        m.call(f"{tag}-evaluate", sol, q, may_raise=True)
        got = m.outcomes[f"{tag}-evaluate"]
    try:
        with warnings.catch_warnings(), np.errstate(all="ignore"), time_limit():
            warnings.simplefilter("ignore")
            ref = canon(solve_ode_ivp(tuple(span0), f_ref, coeffs_ref, list(y00), _ode_transform(kind), "DOP853", nod, 1e-9, 1e-9)(q0.copy()))
    except Exception as e:  # noqa: BLE001
        ref = [("exc", type(e).__name__)]
    m.same(f"{tag}-result-as-with-copies", got, ref, f"solution with fx mode '{mode}' / shared arrays differs from the run with copying callbacks and copies", rtol=1e-7, atol=1e-9)


def _make_ode_scenario(mode):
    @scenario(f"ode-fx-{mode}", "solve_ode_bvp", "solve_ode_ivp", "_rearrange_to_explicit_ode", "_evaluate_coeffs_on_points", "_transform_ode_from_derivs",
              "_transform_and_rearrange_to_explicit_ode", "_derivative_transformation_matrix", "_transform_solution_to_original_domain")
    def sc(m):
        _bvp_case(m, mode, 2, "none", "numbers")
        _bvp_case(m, mode, 2, "identity", "callables")
        _bvp_case(m, mode, 2, "becke", "array")
        _bvp_case(m, mode, 3, "linear", "callables")
        _ivp_case(m, mode, 2, "none", "list")
        _ivp_case(m, mode, 2, "identity", "array")
        _ivp_case(m, mode, 3, "becke", "list")
        _bvp_case(m, mode, 2, "none", "leading-only")
        _ivp_case(m, mode, 2, "none", "leading-only")
        _ivp_case(m, mode, 3, "identity", "leading-only")
        if _big(m):
            _bvp_case(m, mode, 3, "none", "array")
            _bvp_case(m, mode, 3, "becke", "numbers")
            _ivp_case(m, mode, 3, "linear", "array")
        x = m.arr("x-err", np.linspace(0, 1, 5))
        m.call("solve_ode_bvp-wrong-number-of-conditions", solve_ode_bvp, x, m.cb("fx-err", np.sin, role="fx"), m.own("c-err", [1.0, 0.0, 1.0]),
               m.own("bd-err", [(0, 0, 0.0)]), may_raise=True)
        m.call("solve_ode_ivp-wrong-number-of-values", solve_ode_ivp, (0.0, 1.0), m.cb("fx-err2", np.sin, role="fx"), m.own("c-err2", [1.0, 0.0, 1.0]),
               m.own("y0-err", [0.0]), may_raise=True)
        m.call("solve_ode_ivp-span-outside-domain", solve_ode_ivp, m.own("span-err", [-2.0, 0.0]), m.cb("fx-err3", np.sin, role="fx"),
               m.own("c-err3", [1.0, 0.0, 1.0]), m.own("y0-err3", [0.0, 1.0]), rt.BeckeRTransform(0.1, 1.0), may_raise=True)
    return sc


for _mode in ("fresh", "arg", "cached"):
    _make_ode_scenario(_mode)


# ------------------------------------------------------------------------------------------------ scenarios: Poisson solvers
def _poisson_setup(m, natom=1, nrad=20, degree=5):
    g = m.g
    btf = rt.BeckeRTransform(1e-4, 1.5)
    radial = btf.transform_1d_grid(GaussLegendre(nrad))
    tf = m.own("transform", rt.InverseRTransform(btf))
    if natom == 1:
        center = m.arr("center", g.normal(size=3) * 0.2)
        grid = m.own("atomgrid", AtomGrid(radial, degrees=[degree], center=center))
        centers = center[None, :]
    else:
        _, centers = _molecule(m, natom)
        atgrids = [AtomGrid(radial, degrees=[degree], center=centers[i]) for i in range(natom)]
        # unit nuclear weights and (below) function values that are spherical about the own centre on every atomic segment:
        # only then does the boundary value solver converge on grids this small
        grid = m.own("molgrid", MolGrid(np.array([1, 8, 6][:natom]), atgrids, np.ones(sum(a.size for a in atgrids)), store=True))
    P = np.asarray(grid.points)
    # spherically symmetric about every centre: the boundary value solver does not converge for the l > 0 parts of a polarised density
    a, b = g.uniform(0.8, 1.5), g.uniform(0.0, 0.4)
    rho = sum((1.0 + 0.5 * k) * np.exp(-(a + 0.3 * k) * np.sum((P - c) ** 2, axis=1)) * (1.0 + b * np.sum((P - c) ** 2, axis=1)) for k, c in enumerate(centers))
    if natom > 1:
        for k, c in enumerate(centers):
            seg = slice(grid.indices[k], grid.indices[k + 1])
            rho[seg] = (1.0 + 0.5 * k) * np.exp(-(a + 0.3 * k) * np.sum((P[seg] - c) ** 2, axis=1))
    f = m.arr("func_vals", rho)
    q0 = g.normal(size=(4, 3)) + centers[0]
    q0[0] = centers[0]          # the nucleus itself: r = 0
    q = m.arr("q", q0)
    return grid, tf, f, q, centers


@scenario("poisson-atom", "solve_poisson_bvp", "solve_poisson_ivp", "interpolate_laplacian", "_solve_poisson_bvp_atomgrid", "_solve_poisson_ivp_atomgrid",
          "_interpolate_molgrid_helper")
def sc_poisson(m):
    ag, tf, f, q, _ = _poisson_setup(m, 1, nrad=16 if not _big(m) else 30, degree=3 if not _big(m) else 5)
    pot = m.call("bvp-default-options", solve_poisson_bvp, ag, f, tf)
    m.call("bvp-default-options-evaluate", pot, q)
    for name, opts in (("empty", {}), ("partial", {"tol": 1e-6}), ("complete", {"tol": 1e-6, "max_nodes": 50000, "no_derivatives": True})):
        d = m.own(f"bvp-options-{name}", opts)
        pot = m.call(f"bvp-options-{name}", solve_poisson_bvp, ag, f, tf, None, True, 1e6, d)
        m.call(f"bvp-options-{name}-evaluate", pot, q)
        m.same(f"bvp-options-{name}-same-potential", f"bvp-options-{name}-evaluate", "bvp-default-options-evaluate",
               "potential with an explicit option dictionary holding the default values differs from the default call", rtol=1e-4, atol=1e-6)
        pot = m.call(f"bvp-options-{name}-reused", solve_poisson_bvp, ag, f, tf, None, True, 1e6, d)
        m.call(f"bvp-options-{name}-reused-evaluate", pot, q)
        m.same(f"bvp-options-{name}-reused-same-potential", f"bvp-options-{name}-reused-evaluate", f"bvp-options-{name}-evaluate",
               "second call with the same option dictionary gives another potential", rtol=1e-4, atol=1e-6)
    m.call("bvp-no-origin-boundary", lambda: solve_poisson_bvp(ag, f, tf, boundary=float(ag.integrate(f) * np.sqrt(4 * np.pi)), include_origin=False,
                                                              remove_large_pts=50.0)(q))
    m.call("bvp-bad-boundary", solve_poisson_bvp, ag, f, tf, 1, may_raise=True)
    span_t = (30.0, 1e-3)
    span_l = m.own("r_interval-list", [30.0, 1e-3])
    pot = m.call("ivp-default-options", solve_poisson_ivp, ag, f, tf, span_t)
    m.call("ivp-default-options-evaluate", pot, q)
    for name, opts in (("empty", {}), ("partial", {"rtol": 1e-8})):
        d = m.own(f"ivp-options-{name}", opts)
        pot = m.call(f"ivp-options-{name}", solve_poisson_ivp, ag, f, tf, span_l, d)
        m.call(f"ivp-options-{name}-evaluate", pot, q)
        m.same(f"ivp-options-{name}-same-potential", f"ivp-options-{name}-evaluate", "ivp-default-options-evaluate",
               "potential with an explicit option dictionary holding the default values differs from the default call", rtol=1e-6, atol=1e-8)
    m.call("ivp-bad-interval", solve_poisson_ivp, ag, f, tf, m.own("bad-interval", [1e-3, 30.0]), may_raise=True)
    # one (initially empty) option dictionary shared by both solvers: solver-independent from the caller's point of view
    shared = m.own("shared-options", {})
    m.call("shared-options-bvp", solve_poisson_bvp, ag, f, tf, None, True, 1e6, shared)
    pot = m.call("shared-options-then-ivp", solve_poisson_ivp, ag, f, tf, span_t, shared, may_raise=True)
    got = m.outcomes["shared-options-then-ivp"]
    if pot is not None:
        m.call("shared-options-then-ivp-evaluate", pot, q)
        got = m.outcomes["shared-options-then-ivp-evaluate"]
    m.same("shared-options-then-ivp-as-fresh", got, "ivp-default-options-evaluate",
           "an empty option dictionary that went through solve_poisson_bvp no longer behaves like an empty one in solve_poisson_ivp", rtol=1e-6, atol=1e-8)
    lap = m.call("interpolate_laplacian", interpolate_laplacian, ag, f)
    m.call("laplacian-evaluate", lap, q)
    m.call("laplacian-evaluate-cutoff", lap, q, 1e-2)
    m.call("bvp-func_vals-twice-as-grid-weights", lambda: solve_poisson_bvp(ag, f, tf)(q))


@scenario("poisson-molecule", "solve_poisson_bvp", "solve_poisson_ivp", "interpolate_laplacian", "_interpolate_molgrid_helper")
def sc_poisson_mol(m):
    mg, tf, f, q, _ = _poisson_setup(m, 2, nrad=16 if not _big(m) else 26, degree=3 if not _big(m) else 5)
    d = m.own("options", {"max_nodes": 20000})
    pot = m.call("bvp-molgrid-options", solve_poisson_bvp, mg, f, tf, None, True, 1e6, d)
    m.call("bvp-molgrid-evaluate", pot, q)
    m.call("bvp-molgrid-evaluate-again", pot, q)
    m.same("evaluate-twice", "bvp-molgrid-evaluate-again", "bvp-molgrid-evaluate", "the potential changes between two evaluations at the same points")
    lap = m.call("interpolate_laplacian-molgrid", interpolate_laplacian, mg, f)
    m.call("laplacian-molgrid-evaluate", lap, q)
    if _big(m):
        d2 = m.own("ivp-options", {"atol": 1e-6})
        pot = m.call("ivp-molgrid-options", solve_poisson_ivp, mg, f, tf, (30.0, 1e-3), d2)
        m.call("ivp-molgrid-evaluate", pot, q)
    nostore = MolGrid(np.array([1, 8]), list(mg.atgrids), np.ones(mg.size), store=False)
    m.call("bvp-molgrid-not-stored", solve_poisson_bvp, nostore, f, tf, may_raise=True)


@scenario("robust-poisson", "solve_poisson_robust", "_build_core_density", "_fit_residual_gaussians")
def sc_robust(m):
    if solve_poisson_robust is None:
        return
    g = m.g
    ag, tf, f, q, centers = _poisson_setup(m, 1, nrad=16 if not _big(m) else 30, degree=3 if not _big(m) else 5)
    atnums = m.arr("atnums", [8], dtype=int)
    atcoords = m.arr("atcoords", centers.copy())
    r2 = np.sum((np.asarray(ag.points) - centers[0]) ** 2, axis=1)
    dens = m.arr("density", 8.0 * (2.0 / np.pi) ** 1.5 * np.exp(-2.0 * r2) + 0.05 * f)
    pot = m.call("split1", solve_poisson_robust, ag, dens, tf, atnums, atcoords)
    m.call("split1-evaluate", pot, q)
    m.call("split1-evaluate-nested-list", pot, m.own("q-list", [[float(v) for v in row] for row in q]))
    d = m.own("options", {})
    alph = m.own("alphas-list", [0.3, 1.0, 4.0, 20.0])
    pot = m.call("split2-options", lambda: solve_poisson_robust(ag, dens, tf, atnums, atcoords, split2=True, alphas_basis=alph, ode_params=d, remove_large_pts=1e5))
    m.call("split2-evaluate", pot, q)
    pot = m.call("split2-array-basis", lambda: solve_poisson_robust(ag, dens, tf, atnums, atcoords, split2=True, alphas_basis=m.arr("alphas-array", [0.5, 2.0, 9.0])))
    m.call("split2-array-basis-evaluate", pot, q)
    pot = m.call("split2-default-basis", lambda: solve_poisson_robust(ag, dens, tf, atnums, atcoords, split2=True))
    m.call("split2-default-basis-evaluate", pot, q)
    m.call("split2-default-basis-again", lambda: solve_poisson_robust(ag, dens, tf, atnums, atcoords, split2=True)(q))
    m.same("default-basis-reused", "split2-default-basis-again", "split2-default-basis-evaluate", "second call with the default exponent basis differs", rtol=1e-4, atol=1e-6)
    m.call("bad-density-shape", solve_poisson_robust, ag, dens[:-1], tf, atnums, atcoords, may_raise=True)
    m.call("bad-basis", lambda: solve_poisson_robust(ag, dens, tf, atnums, atcoords, split2=True, alphas_basis=m.own("neg-basis", [1.0, -1.0])), may_raise=True)
    m.call("unknown-element", solve_poisson_robust, ag, dens, tf, m.arr("atnums-he", [2], dtype=int), atcoords, may_raise=True)
    m.call("int-density", solve_poisson_robust, ag, m.arr("density-int", np.rint(dens * 10).astype(int)), tf, atnums, atcoords, may_raise=True)


# ------------------------------------------------------------------------------------------------ scenarios: integrand callbacks and helpers outside the anchored modules
@scenario("extras", "MultiDomainGrid", "coulomb_potential", "convert_cart_to_sph", "generate_real_spherical_harmonics", "solid_harmonics", "get_cov_radii",
          "dipole_moment_of_molecule", "AngularGrid")
def sc_extras(m):
    from grid import coulomb, utils
    g = m.g
    g1 = m.call("OneDGrid-a", OneDGrid, m.arr("pa", np.sort(g.uniform(0, 1, 5))), m.arr("wa", g.uniform(0.1, 1, 5)))
    g3 = m.call("Grid-b", Grid, m.arr("pb", g.normal(size=(4, 3))), m.arr("wb", g.uniform(0.1, 1, 4)))
    glist = m.own("grid-list", [g1, g3])
    md = m.call("MultiDomainGrid-two-grids", MultiDomainGrid, glist)
    f2 = m.cb("integrand-fresh", lambda a, b: a * np.sum(np.asarray(b) ** 2, axis=-1), role="integrand")
    m.call("ngrid-integrate-vectorized", md.integrate, f2)
    m.call("ngrid-integrate-non-vectorized", md.integrate, f2, True, 7)
    m.same("ngrid-vectorized-vs-pointwise", "ngrid-integrate-vectorized", "ngrid-integrate-non-vectorized", "vectorised and point-wise integration differ", rtol=1e-10)
    fc = m.cb("integrand-cached", lambda a, b: np.ones(len(b)), mode="cached", role="integrand")
    m.call("ngrid-integrate-cached-integrand", md.integrate, fc)
    m.same("ngrid-cached-integrand-result", "ngrid-integrate-cached-integrand", canon(float(np.sum(g1.weights) * np.sum(g3.weights))),
           "integral of the constant integrand returned from a cache", rtol=1e-12)
    one = m.call("MultiDomainGrid-one-grid", MultiDomainGrid, m.own("one-grid", [g1]))
    m.call("ngrid-integrand-returns-argument", one.integrate, m.cb("integrand-arg", lambda x: x, mode="arg", role="integrand"))
    m.same("ngrid-integrand-returns-argument-result", "ngrid-integrand-returns-argument", canon(float(np.sum(g1.points * g1.weights))),
           "integral of f(x) = x with the integrand returning its argument", rtol=1e-12)
    rep = m.call("MultiDomainGrid-repeated", MultiDomainGrid, m.own("rep-grid", [g1]), 2)
    m.call("ngrid-repeated-integrate", rep.integrate, m.cb("integrand-xy", lambda a, b: a * b + 1.0, role="integrand"))
    pts = m.arr("pts", g.normal(size=(6, 3)))
    cs, al = m.arr("coeffs", g.normal(size=6)), m.arr("alphas", g.uniform(0.3, 3, 6))
    m.call("coulomb_potential-points-are-centers", lambda: coulomb.coulomb_potential(pts, pts, cs, al, centers_p=pts[:2], coeffs_p=cs[:2], alphas_p=al[:2]))
    m.call("coulomb_potential-copies", lambda: coulomb.coulomb_potential(pts.copy(), pts.copy(), cs.copy(), al.copy(), centers_p=pts[:2].copy(), coeffs_p=cs[:2].copy(), alphas_p=al[:2].copy()))
    m.same("coulomb-shared-arrays", "coulomb_potential-points-are-centers", "coulomb_potential-copies", "points and centres are one array vs copies")
    m.call("coulomb_gaussian_s", coulomb.coulomb_gaussian_s, m.arr("radii", [0.0, 1e-13, 0.5, 3.0]), 1.3)
    m.call("coulomb_gaussian_p", coulomb.coulomb_gaussian_p, m.arr("radii2", [0.0, 1e-13, 0.5, 3.0]), 0.7, False)
    m.call("convert_cart_to_sph-center-is-point", utils.convert_cart_to_sph, pts, pts[2])
    ang = m.arr("angles", g.uniform(0.1, 3.0, 5))
    m.call("spherical-harmonics-theta-is-phi", utils.generate_real_spherical_harmonics, 3, ang, ang)
    m.call("spherical-harmonics-derivative", utils.generate_derivative_real_spherical_harmonics, 2, ang, ang)
    m.call("solid_harmonics", utils.solid_harmonics, 2, m.arr("sph", np.abs(g.normal(size=(5, 3)))))
    m.call("get_cov_radii", utils.get_cov_radii, m.arr("z", [1, 6, 8], dtype=int))
    m.call("dipole_moment_of_molecule", utils.dipole_moment_of_molecule, g3, m.arr("dens", g.uniform(0, 1, 4)), m.arr("coords", g.normal(size=(2, 3))),
           m.arr("charges", [1.0, 8.0]), may_raise=True)
    m.call("convert_angular_sizes_to_degrees", AngularGrid.convert_angular_sizes_to_degrees, m.own("sizes", [6, 20, 26]), "lebedev")
    ang_grid = m.call("AngularGrid", AngularGrid, 7)
    m.call("angular-integrate", ang_grid.integrate, m.arr("angvals", g.normal(size=ang_grid.size)))


# ------------------------------------------------------------------------------------------------ entry points
RULE = ("byte-wise snapshot monitor (bytes + SHA-256 of every ndarray/list/dict/grid-object argument and of every callback return value, before/after) around "
        "public calls of ode, poisson, robust_poisson, basegrid, atomgrid, molgrid, rtransform (13 transforms, end points included), cubic, periodicgrid, becke "
        "(+ MultiDomainGrid, Hirshfeld, coulomb, utils); every scenario on identical random inputs with writable and with write-protected arrays/callback "
        "results (same outcome, no read-only error); aliasing: same array passed twice, fx/coefficient/weight/integrand callbacks returning their argument or a "
        "cached array (solution must equal the run with copying callbacks), option dictionaries complete/partial/empty, reused and shared between solvers; "
        "distinct = (scenario, call or differential contract, variant)")


def _select(names):
    return [s for s in SCENARIOS if names is None or s[0] in names]


def run(tier, seed, *rest):
    col = Collector(RULE)
    notes = []
    reps = 1 if tier == "quick" else 12
    _LIMIT.update(first=25.0 if tier == "quick" else 90.0, later=4.0 if tier == "quick" else 10.0, hit=False)
    for rep in range(reps):
        for name, fn, _funcs in SCENARIOS:
            run_scenario(col, name, fn, seed, tier, rep, notes)
    if notes:
        uniq = sorted(set(notes))
        col.rule += f" [calls that raised and ended their scenario early: {len(uniq)}: " + "; ".join(uniq[:6]) + "]"
    return col.result()


def _pick(failures, prefer=None):
    if not failures:
        return None
    order = sorted(failures, key=lambda f: (":known-" in f["case_id"], 0 if prefer and prefer in f["case_id"] else 1))
    return order[0]


def replay(req):
    text = (str(req.get("obligation", "")) + " " + str(req.get("spec", ""))).lower()
    score = {s[0]: max([len(fn) for fn in s[2] + (s[0],) if fn.lower() in text] or [0]) for s in SCENARIOS}
    best = max(score.values())
    # scenarios that mention the function or its module/class: the most specific one first, then every other one that matches at all
    chosen = sorted([s for s in SCENARIOS if best and score[s[0]] > 0], key=lambda s: -score[s[0]]) or list(SCENARIOS)
    col = Collector("replay")
    notes = []
    for name, fn, _funcs in chosen:
        run_scenario(col, name, fn, req.get("seed", 0), "quick", 0, notes)
    f = _pick(col.failures)
    if f is not None:
        return {"failed": True, "case_id": f["case_id"], "detail": f["detail"], "input": f["input"]}
    return {"failed": False, "detail": f"{col.evaluations} native contract evaluations passed in scenarios {[c[0] for c in chosen]}"}


def replay_case(case):
    cid = str(case.get("case_id", ""))
    base = cid.split(":known-")[0]
    scen = base.split(":")[0]
    chosen = [s for s in SCENARIOS if s[0] == scen] or list(SCENARIOS)
    col = Collector("replay-case")
    notes = []
    for seed in (0, 1):
        for name, fn, _funcs in chosen:
            run_scenario(col, name, fn, seed, "quick", 0, notes)
        hits = [f for f in col.failures if f["case_id"].split(":known-")[0] == base]
        if hits:
            f = hits[0]
            return {"failed": True, "case_id": f["case_id"], "detail": f["detail"], "input": f["input"]}
    f = _pick(col.failures)
    if f is not None and scen not in [s[0] for s in SCENARIOS]:
        return {"failed": True, "case_id": f["case_id"], "detail": f["detail"], "input": f["input"]}
    return {"failed": False}
