"""Shared helpers of the bounded (run-time contract) layer."""
import json
import math
import random

import numpy as np


class Collector:
    """Counts evaluations, distinct non-trivial cases and failures of run-time contracts."""

    def __init__(self, rule, label="bounded"):
        self.rule = rule
        self.label = label
        self.evaluations = 0
        self.distinct = set()
        self.failures = []
        self.samples = []
        self.exhaustive = False
        self.last_failure = None

    def case(self, case_id, ok, detail=None, nontrivial=True, sample=None, inputs=None):
        self.evaluations += 1
        if nontrivial:
            self.distinct.add(case_id)
        if sample is not None and len(self.samples) < 8:
            self.samples.append(sample)
        elif len(self.samples) < 4:
            self.samples.append({"case": case_id})
        self.last_failure = None
        if not ok:
            rec = {"case_id": case_id, "detail": detail, "input": inputs}
            # keep at most 3 records per case id and 60 overall, so that one recorded finding cannot crowd out a new failure
            same = sum(1 for f in self.failures if f["case_id"].split(":known")[0] == case_id)
            if same < 3 and len(self.failures) < 60:
                self.failures.append(rec)
            self.last_failure = rec      # drivers may re-label it (":known-..." suffix); a dropped record is simply not reported
        return ok

    def check(self, case_id, fn, nontrivial=True, sample=None, inputs=None):
        """fn() returns (ok, detail) or raises: an exception is a contract failure as well."""
        try:
            r = fn()
            ok, detail = r if isinstance(r, tuple) else (bool(r), None)
        except Exception as e:  # noqa: BLE001
            ok, detail = False, f"{type(e).__name__}: {e}"
        return self.case(case_id, ok, detail, nontrivial, sample, inputs)

    def result(self):
        return {"evaluations": self.evaluations, "distinct_nontrivial": len(self.distinct), "rule": self.rule,
                "samples": self.samples, "failures": self.failures, "exhaustive": self.exhaustive, "label": self.label}


def rng(seed, salt=""):
    return np.random.default_rng(abs(hash((int(seed), salt))) % (2**32) if False else (int(seed) * 1000003 + sum(ord(c) for c in salt)) % (2**32))


def relerr(a, b):
    a = np.asarray(a, dtype=float)
    b = np.asarray(b, dtype=float)
    return float(np.max(np.abs(a - b) / (1.0 + np.abs(b)))) if a.size else 0.0


def parse_num(s):
    """Value of an SMT-LIB numeral string such as '(/ 1.0 3.0)', '(- 2)', '5', '0.25', '(root-obj ...)'."""
    if s is None:
        return None
    s = str(s).strip()
    try:
        return float(s.replace("?", ""))
    except ValueError:
        pass
    toks = s.replace("(", " ( ").replace(")", " ) ").split()

    def parse(i):
        if toks[i] == "(":
            op = toks[i + 1]
            args = []
            i += 2
            while toks[i] != ")":
                v, i = parse(i)
                args.append(v)
            i += 1
            if op == "/":
                return args[0] / args[1], i
            if op == "-":
                return (-args[0] if len(args) == 1 else args[0] - args[1]), i
            if op == "+":
                return sum(args), i
            if op == "*":
                return math.prod(args), i
            raise ValueError(op)
        return float(toks[i].replace("?", "")), i + 1
    try:
        return parse(0)[0]
    except Exception:
        return None
