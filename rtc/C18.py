"""Bounded run-time contracts for C18 (MultiDomainGrid: multi-domain integration = iterated product quadrature).

The REAL `MultiDomainGrid` / `_chunked_iterator` are called on small product sets and compared with oracles that do not use
`itertools.product` nor the library's summation routes:

* enumeration: flat index t is decoded by an own mixed-radix `divmod` loop (last domain fastest); `points[t]`, `weights[t]`,
  `size`, `num_domains` must describe exactly that product set in that order;
* integrals: explicit loop over all flat indices with `math.fsum` (float family, error bound relative to sum |w f|) and with
  Python integers (integer family: integer nodes/weights/integrand, every route must return the integer EXACTLY, whatever the
  summation order or chunking);
* separable integrands: product of own single-grid sums;  polynomial integrands on Gauss-Legendre product sets: closed form.

Routes: vectorised, point-by-point with the default chunk size and with all chunk sizes 1..total+1.
"""
import math

import numpy as np

from grid.basegrid import Grid, OneDGrid
from grid.ngrid import MultiDomainGrid

try:                                      # internal helper: its contracts are checked when it exists; the property itself is about integrate()
    from grid.ngrid import _chunked_iterator
except ImportError:                       # pragma: no cover
    _chunked_iterator = None
from rtc.common import Collector, rng

EPS = float(np.finfo(float).eps)


# ----------------------------------------------------------------------------------------------------------------------
# inputs
# ----------------------------------------------------------------------------------------------------------------------
def direction(d, k, family):
    """Vector a_d used to reduce a k-dimensional point of domain d to one scalar feature (different for every domain)."""
    base = np.array([1.0, -2.0, 3.0]) if family == "int" else np.array([0.7, -1.3, 0.45])
    v = np.roll(base, d) + (d // 3) * (1.0 if family == "int" else 0.21)
    return v[:k]


def make_grid(g, k, n, family, d, zeros=False):
    if family == "int":
        w = g.permutation(np.array([-3.0, -2.0, -1.0, 1.0, 2.0, 3.0, 4.0, 5.0]))[:n]
        p = g.permutation(np.arange(-4.0, 5.0))[:n] if k == 1 else g.integers(-3, 4, (n, k)).astype(float)
    else:
        w = g.uniform(0.1, 1.5, n) * g.choice([1.0, 1.0, 1.0, -1.0], n)
        p = g.normal(size=n) if k == 1 else g.normal(size=(n, k))
    if zeros:
        # exactly-zero weights (the library's own Chebyshev-Lobatto rule has them at both ends): a run at the start of the first domain makes a whole
        # run of product weights vanish, so some chunks consist of zero weights only; one more zero inside every later domain
        w = w.copy()
        if d == 0:
            w[: max(1, n // 2)] = 0.0
        elif n > 1:
            w[(d * 2) % n] = 0.0
    if k == 1 and d % 2 == 0:
        return OneDGrid(p.copy(), w.copy())
    return Grid(p.copy(), w.copy())


def build(seed, cfg, family):
    """-> (multi-domain grid, list of the D single grids in domain order)."""
    dims, sizes, mode = cfg["dims"], cfg["sizes"], cfg["mode"]
    g = rng(seed, f"C18|{family}|{mode}|{dims}|{sizes}")
    nd = len(dims)
    if mode == "repeat":
        g0 = make_grid(g, dims[0], sizes[0], family, 0, cfg.get("zeros", False))
        return MultiDomainGrid([g0], num_domains=nd), [g0] * nd
    grids = [make_grid(g, k, n, family, d, cfg.get("zeros", False)) for d, (k, n) in enumerate(zip(dims, sizes))]
    if mode == "aliased":      # the same Grid object used for the first and the last domain
        grids[-1] = grids[0]
    return MultiDomainGrid(list(grids)), grids


def features(dims, family):
    def phi(d, k):
        a = direction(d, k, family)
        if k == 1:
            return lambda x: x
        return lambda x: np.asarray(x) @ a
    return [phi(d, k) for d, k in enumerate(dims)]


def make_generic(dims, family):
    ph = features(dims, family)
    nd = len(dims)

    def f(*xs):
        if len(xs) != nd:
            raise TypeError(f"integrand called with {len(xs)} arguments for {nd} domains")
        v = [p(x) for p, x in zip(ph, xs)]
        s = sum(0.37 * (d + 1) * v[d] for d in range(nd))
        return np.cos(s + 0.2) + 0.3 * v[0] - 0.11 * v[-1] ** 2 + 0.05 * v[0] * v[-1] + (0.07 * v[1] ** 3 if nd > 2 else 0.0)
    return f


def make_exact(dims):
    ph = features(dims, "int")
    nd = len(dims)

    def f(*xs):
        if len(xs) != nd:
            raise TypeError(f"integrand called with {len(xs)} arguments for {nd} domains")
        v = [p(x) for p, x in zip(ph, xs)]
        out = 1.0 + v[0] * v[-1] + v[0] ** 2 * (v[1] if nd > 1 else 1.0)
        for d in range(nd):
            out = out + (d + 2) * v[d]
        return out
    return f


H = [lambda t: 1 + t + 0.3 * t * t, lambda t: np.cos(t), lambda t: np.exp(-0.25 * t * t), lambda t: 1.0 / (1.0 + t * t)]


def make_separable(dims, family):
    ph = features(dims, family)
    nd = len(dims)

    def f(*xs):
        if len(xs) != nd:
            raise TypeError(f"integrand called with {len(xs)} arguments for {nd} domains")
        out = 1.0
        for d in range(nd):
            out = out * H[d % 4](ph[d](xs[d]))
        return out
    return f


# ----------------------------------------------------------------------------------------------------------------------
# oracles (own mixed-radix enumeration, no itertools)
# ----------------------------------------------------------------------------------------------------------------------
def decode(t, sizes):
    idx = [0] * len(sizes)
    for d in range(len(sizes) - 1, -1, -1):
        t, idx[d] = divmod(t, sizes[d])
    return idx


def total_size(sizes):
    n = 1
    for s in sizes:
        n *= int(s)
    return n


def brute_terms(grids, f):
    sizes = [int(gr.weights.shape[0]) for gr in grids]
    terms = []
    for t in range(total_size(sizes)):
        idx = decode(t, sizes)
        w = 1.0
        for gr, i in zip(grids, idx):
            w *= float(gr.weights[i])
        terms.append(w * float(f(*[gr.points[i] for gr, i in zip(grids, idx)])))
    return terms


def brute_float(grids, f):
    terms = brute_terms(grids, f)
    return math.fsum(terms), math.fsum(abs(x) for x in terms)


def brute_int(grids, f):
    tot = 0
    for x in brute_terms(grids, f):
        if not float(x).is_integer():
            raise AssertionError("integer family produced a non-integer term")
        tot += int(x)
    return tot


def chunk_sizes(total, tier, full):
    if full or tier != "quick":
        return list(range(1, total + 2))
    pick = {1, 2, 3, 4, 5, 7, total - 1, total, total + 1, total // 2, total // 2 + 1, total // 3 + 1}
    return sorted(c for c in pick if 1 <= c <= total + 1)


def variant(cfg):
    sz = "with-size-1" if 1 in cfg["sizes"] else "sizes>1"
    return f"D{len(cfg['dims'])}:{'-'.join(f'{k}d' for k in cfg['dims'])}:{cfg['mode']}{'+zero-weights' if cfg.get('zeros') else ''}:{sz}"


def snapshot(grids):
    return [(gr.points.copy(), gr.weights.copy()) for gr in grids]


def untouched(grids, snap):
    return all(np.array_equal(gr.points, p) and np.array_equal(gr.weights, w) for gr, (p, w) in zip(grids, snap))


# ----------------------------------------------------------------------------------------------------------------------
# contracts
# ----------------------------------------------------------------------------------------------------------------------
def enumeration_contract(col, seed, cfg, family):
    inp = dict(cfg, seed=seed, family=family)
    sizes = [int(s) for s in cfg["sizes"]]
    dims = cfg["dims"]
    nd = len(dims)
    tot = total_size(sizes)

    def chk():
        mg, grids = build(seed, cfg, family)
        snap = snapshot(grids)
        if mg.num_domains != nd:
            return False, f"num_domains = {mg.num_domains!r}, expected {nd}"
        if not (mg.size == tot and int(mg.size) == tot):
            return False, f"size = {mg.size!r}, the product set has {tot} elements (sizes {sizes})"
        for attempt in (1, 2):      # the enumerations are re-startable: every access gives the full product set again
            pts = list(mg.points)
            wts = list(mg.weights)
            if len(pts) != tot or len(wts) != tot:
                return False, f"access {attempt}: {len(pts)} points and {len(wts)} weights enumerated, size {tot}"
            for t in range(tot):
                idx = decode(t, sizes)
                if len(pts[t]) != nd:
                    return False, f"point {t} has {len(pts[t])} components for {nd} domains"
                for d in range(nd):
                    want = grids[d].points[idx[d]]
                    got = np.asarray(pts[t][d])
                    if got.shape != np.shape(want) or not np.array_equal(got, want):
                        return False, f"points[{t}][{d}] = {got!r}, expected node {idx[d]} of domain {d}: {want!r} (index tuple {idx})"
                want_w = 1.0
                for d in range(nd):
                    want_w *= float(grids[d].weights[idx[d]])
                got_w = float(wts[t])
                if family == "int":
                    okw = got_w == want_w
                else:
                    okw = abs(got_w - want_w) <= 8 * EPS * abs(want_w)
                if not okw:
                    return False, f"weights[{t}] = {got_w!r}, product of the weights at index tuple {idx} is {want_w!r}"
        if not untouched(grids, snap):
            return False, "a single-domain grid was modified"
        return True, None
    col.check(f"enumeration:{variant(cfg)}:{family}", chk, inputs=inp, sample={"sizes": sizes, "dims": dims, "mode": cfg["mode"]})


def integral_contract(col, seed, cfg, tier, full_chunks):
    sizes = [int(s) for s in cfg["sizes"]]
    dims = cfg["dims"]
    tot = total_size(sizes)
    var = variant(cfg)
    sample = {"sizes": sizes, "dims": dims, "mode": cfg["mode"]}

    # ---- integer family: every route returns the exact integer ----
    inp_i = dict(cfg, seed=seed, family="int")
    try:
        mg_i, grids_i = build(seed, cfg, "int")
        mg_f, grids_f = build(seed, cfg, "float")
    except Exception as e:  # noqa: BLE001
        msg = f"constructor raised {type(e).__name__}: {e}"
        col.check(f"integrate-vectorised-exact:{var}", lambda: (False, msg), inputs=inp_i)
        return
    f_i = make_exact(dims)
    state = {}

    def want_i():
        if "w" not in state:
            state["w"] = brute_int(grids_i, f_i)
        return state["w"]

    def vec_exact():
        got = mg_i.integrate(f_i)
        if np.ndim(got) != 0 or float(got) != float(want_i()):
            return False, f"vectorised integral = {got!r}, nested sum over the product set = {want_i()} (exact integer arithmetic)"
        return True, None
    col.check(f"integrate-vectorised-exact:{var}", vec_exact, inputs=inp_i, sample=sample)

    def vec_chunks():
        # the chunk size is an argument of both routes: the vectorised result must not depend on it either
        for c in chunk_sizes(tot, tier, full_chunks):
            got = mg_i.integrate(f_i, integration_chunk_size=c)
            if np.ndim(got) != 0 or float(got) != float(want_i()):
                return False, f"chunk size {c} (total {tot}): vectorised integral = {got!r}, nested sum = {want_i()}"
            got = mg_i.integrate(f_i, False, c)
            if np.ndim(got) != 0 or float(got) != float(want_i()):
                return False, f"chunk size {c} passed positionally: vectorised integral = {got!r}, nested sum = {want_i()}"
        return True, None
    col.check(f"integrate-vectorised-all-chunks-exact:{var}", vec_chunks, inputs=dict(inp_i, chunk_sizes=f"1..{tot + 1}"))

    def pw_default():
        got = mg_i.integrate(f_i, non_vectorized=True)
        if np.ndim(got) != 0 or float(got) != float(want_i()):
            return False, f"point-by-point integral (default chunk size) = {got!r}, nested sum = {want_i()}"
        return True, None
    col.check(f"integrate-pointwise-default-chunk-exact:{var}", pw_default, inputs=inp_i)

    def pw_chunks():
        snap = snapshot(grids_i)
        for c in chunk_sizes(tot, tier, full_chunks):
            got = mg_i.integrate(f_i, non_vectorized=True, integration_chunk_size=c)
            if np.ndim(got) != 0 or float(got) != float(want_i()):
                return False, f"chunk size {c} (total {tot}): point-by-point integral = {got!r}, nested sum = {want_i()}"
        if not untouched(grids_i, snap):
            return False, "a single-domain grid was modified by integrate"
        return True, None
    col.check(f"integrate-pointwise-all-chunks-exact:{var}", pw_chunks, inputs=dict(inp_i, chunk_sizes=f"1..{tot + 1}"))

    # ---- float family: generic non-separable and separable integrands ----
    inp_f = dict(cfg, seed=seed, family="float")
    f_g = make_generic(dims, "float")
    f_s = make_separable(dims, "float")

    def generic_routes():
        want, scale = brute_float(grids_f, f_g)
        tol = 1e-12 * max(scale, 1e-300)
        vec = float(mg_f.integrate(f_g))
        if not abs(vec - want) <= tol:
            return False, f"vectorised integral = {vec!r}, nested sum = {want!r} (sum |w f| = {scale:.3g})"
        for c in [None] + chunk_sizes(tot, tier, tot <= 64):
            got = float(mg_f.integrate(f_g, non_vectorized=True) if c is None else mg_f.integrate(f_g, True, c))
            if not abs(got - want) <= tol:
                return False, f"chunk size {c or 'default'} (total {tot}): point-by-point integral = {got!r}, nested sum = {want!r}"
            if not abs(got - vec) <= 2 * tol:
                return False, f"chunk size {c or 'default'}: point-by-point {got!r} differs from vectorised {vec!r}"
        return True, None
    col.check(f"integrate-three-routes-generic:{var}", generic_routes, inputs=inp_f)

    def separable():
        want = 1.0
        scale = 1.0
        ph = features(dims, "float")
        for d, gr in enumerate(grids_f):
            terms = [float(gr.weights[i]) * float(H[d % 4](ph[d](gr.points[i]))) for i in range(sizes[d])]
            want *= math.fsum(terms)
            scale *= math.fsum(abs(x) for x in terms)
        tol = 1e-12 * max(scale, 1e-300)
        routes = [("vectorised", lambda: mg_f.integrate(f_s)), ("point-by-point", lambda: mg_f.integrate(f_s, non_vectorized=True))]
        for c in sorted({1, 2, max(1, tot - 1), tot + 1}):
            routes.append((f"point-by-point chunk {c}", lambda c=c: mg_f.integrate(f_s, non_vectorized=True, integration_chunk_size=c)))
        for name, call in routes:
            got = float(call())
            if not abs(got - want) <= tol:
                return False, f"{name}: integral of a separable integrand = {got!r}, product of the single-grid integrals = {want!r}"
        return True, None
    col.check(f"separable-product:{var}", separable, inputs=inp_f)


def repeat_equivalence_contract(col, seed, k, n, nd, tier):
    """One grid repeated `nd` times == the explicit list [g]*nd, in every observable."""
    cfg = {"dims": [k] * nd, "sizes": [n] * nd, "mode": "repeat"}
    inp = dict(cfg, seed=seed, family="int")

    def chk():
        mg, grids = build(seed, cfg, "int")
        ref = MultiDomainGrid(list(grids)) if nd > 1 else MultiDomainGrid([grids[0]])
        if int(mg.size) != int(ref.size) or mg.num_domains != ref.num_domains:
            return False, f"size/num_domains {mg.size}/{mg.num_domains} vs explicit list {ref.size}/{ref.num_domains}"
        pa, pb = list(mg.points), list(ref.points)
        if len(pa) != len(pb) or any(not np.array_equal(np.asarray(x), np.asarray(y)) for x, y in zip(pa, pb)):
            return False, "points differ from those of the explicit list of the same grid"
        wa, wb = list(mg.weights), list(ref.weights)
        if len(wa) != len(wb) or any(float(x) != float(y) for x, y in zip(wa, wb)):
            return False, "weights differ from those of the explicit list of the same grid"
        f = make_exact(cfg["dims"])
        want = brute_int(grids, f)
        tot = total_size(cfg["sizes"])
        for name, g_ in (("repeated", mg), ("explicit list", ref)):
            got = [g_.integrate(f), g_.integrate(f, non_vectorized=True), g_.integrate(f, non_vectorized=True, integration_chunk_size=max(1, tot - 1))]
            if any(float(x) != float(want) for x in got):
                return False, f"{name}: integrals (vectorised, point-by-point, chunk {max(1, tot - 1)}) = {got}, nested sum = {want}"
        return True, None
    col.check(f"repeat-equals-explicit-list:D{nd}:{k}d", chk, inputs=inp, sample={"n": n, "num_domains": nd, "point_dim": k})


def gl_nodes(n):
    x, w = np.polynomial.legendre.leggauss(n)
    return np.asarray(x, float), np.asarray(w, float)


def closed_form_contract(col, seed, which):
    """Polynomials of degree <= 3 per variable on Gauss-Legendre product sets over [-1,1]^m: exact integral in closed form."""
    g = rng(seed, f"C18|closed|{which}")
    x2, w2 = gl_nodes(2)
    p3 = np.array([[x2[i], x2[j], x2[k]] for i in range(2) for j in range(2) for k in range(2)])
    q3 = np.array([w2[i] * w2[j] * w2[k] for i in range(2) for j in range(2) for k in range(2)])
    cube = Grid(p3, q3)
    line3, line4, line2 = OneDGrid(*gl_nodes(3)), OneDGrid(*gl_nodes(4)), Grid(*gl_nodes(2))
    layouts = {"1d-1d": ([line3, line4], None), "3d-1d": ([cube, line3], None), "1d-3d": ([line4, cube], None),
               "1d-3d-1d": ([line2, cube, line3], None), "repeat-1d-x3": ([line3], 3), "repeat-3d-x2": ([cube], 2), "single-3d": ([cube], None)}
    glist, rep = layouts[which]
    doms = glist * rep if rep else glist
    nvar = [1 if gr.points.ndim == 1 else 3 for gr in doms]
    nv = sum(nvar)
    monos = [(float(g.uniform(-2, 2)), [int(e) for e in g.integers(0, 4, nv)]) for _ in range(7)]
    monos.append((1.5, [2] * nv))     # never integrates to zero

    def f(*xs):
        vs = []
        for x, m in zip(xs, nvar):
            x = np.asarray(x)
            vs.extend([x] if m == 1 else [x[..., 0], x[..., 1], x[..., 2]])
        out = 0.0
        for c, es in monos:
            term = c
            for v, e in zip(vs, es):
                term = term * v**e
            out = out + term
        return out

    def mom(e):
        return 0.0 if e % 2 else 2.0 / (e + 1)
    want = math.fsum(c * math.prod(mom(e) for e in es) for c, es in monos)
    scale = sum(abs(c) for c, _ in monos) * 2.0**nv
    inp = {"layout": which, "seed": seed, "monomials": monos}

    def chk():
        mg = MultiDomainGrid(list(glist), num_domains=rep) if rep else MultiDomainGrid(list(glist))
        tot = total_size([gr.size for gr in doms])
        if int(mg.size) != tot:
            return False, f"size {mg.size}, expected {tot}"
        routes = [("vectorised", mg.integrate(f)), ("point-by-point", mg.integrate(f, non_vectorized=True)),
                  ("point-by-point chunk 5", mg.integrate(f, non_vectorized=True, integration_chunk_size=5)),
                  ("point-by-point chunk 1", mg.integrate(f, non_vectorized=True, integration_chunk_size=1))]
        for name, got in routes:
            if not abs(float(got) - want) <= 1e-12 * scale:
                return False, f"{name}: {float(got)!r}, closed form of the polynomial integral over [-1,1]^{nv} = {want!r}"
        return True, None
    col.check(f"closed-form-polynomial:{which}", chk, inputs=inp, sample={"layout": which})


def chunk_iterator_contract(col, nmax):
    if _chunked_iterator is None:
        return            # helper refactored away: chunking is still covered through integrate(..., integration_chunk_size=k)
    def run_kind(kind):
        def chk():
            for length in range(0, nmax + 1):
                data = [3 * i + 1 for i in range(length)]
                for size in range(1, length + 3):
                    consumed = []

                    def gen():
                        for x in data:
                            consumed.append(x)
                            yield x
                    src = gen() if kind == "generator" else (list(data) if kind == "list" else iter(tuple(data)))
                    chunks = []
                    for ch in _chunked_iterator(src, size):
                        ch = list(ch)
                        chunks.append(ch)
                        flat_now = [x for c in chunks for x in c]
                        if kind == "generator" and consumed[:len(flat_now)] != flat_now:
                            return False, f"length {length}, size {size}: yielded chunks are not a prefix of the consumed items"
                    flat = [x for c in chunks for x in c]
                    if flat != data:
                        return False, f"length {length}, size {size}: chunks {chunks} do not concatenate to the input"
                    if any(len(c) == 0 for c in chunks):
                        return False, f"length {length}, size {size}: empty chunk"
                    if any(len(c) != size for c in chunks[:-1]) or (chunks and not 1 <= len(chunks[-1]) <= size):
                        return False, f"length {length}, size {size}: chunk lengths {[len(c) for c in chunks]}"
                    if len(chunks) != -(-length // size):
                        return False, f"length {length}, size {size}: {len(chunks)} chunks, expected ceil(length/size)"
            return True, None
        col.check(f"_chunked_iterator:{kind}-input", chk, inputs={"kind": kind, "max_length": nmax})
    for kind in ("generator", "list", "iterator"):
        run_kind(kind)

    def aligned():
        for length in range(1, nmax + 1):
            for size in range(1, length + 2):
                a = _chunked_iterator((i for i in range(length)), size)
                b = _chunked_iterator((10 * i for i in range(length)), size)
                pos = 0
                for ca, cb in zip(a, b):
                    ca, cb = list(ca), list(cb)
                    if ca != list(range(pos, pos + len(ca))) or cb != [10 * i for i in ca]:
                        return False, f"length {length}, size {size}: paired chunks {ca} / {cb} do not cover the same index range"
                    pos += len(ca)
                if pos != length:
                    return False, f"length {length}, size {size}: paired chunks cover {pos} items"
        return True, None
    col.check("_chunked_iterator:two-streams-lock-step", aligned, inputs={"max_length": nmax})


def validation_contract(col):
    def chk():
        g1 = OneDGrid(np.array([0.0, 1.0]), np.array([0.5, 0.5]))
        bad = [("no list", lambda: MultiDomainGrid()), ("tuple instead of list", lambda: MultiDomainGrid((g1, g1))), ("empty list", lambda: MultiDomainGrid([])),
               ("non-grid element", lambda: MultiDomainGrid([g1, np.zeros(3)])), ("num_domains with two grids", lambda: MultiDomainGrid([g1, g1], num_domains=2)),
               ("num_domains = 0", lambda: MultiDomainGrid([g1], num_domains=0)), ("num_domains = -1", lambda: MultiDomainGrid([g1], num_domains=-1)),
               ("num_domains = 2.0", lambda: MultiDomainGrid([g1], num_domains=2.0))]
        for name, call in bad:
            try:
                call()
                return False, f"{name}: accepted"
            except ValueError:
                pass
        for nd in (1, 2, 3):
            if MultiDomainGrid([g1], num_domains=nd).num_domains != nd:
                return False, f"num_domains={nd} not reported"
        return True, None
    col.check("constructor:argument-validation", chk)


# ----------------------------------------------------------------------------------------------------------------------
# family
# ----------------------------------------------------------------------------------------------------------------------
PATTERNS2 = [(1, 1), (1, 3), (3, 1), (3, 3), (2, 1), (3, 2), (1, 2), (2, 2)]
PATTERNS3 = [(1, 1, 1), (1, 3, 1), (3, 1, 3), (3, 3, 1), (1, 1, 3), (3, 3, 3), (2, 3, 1), (1, 2, 3), (3, 1, 1), (1, 3, 3)]
TRIPLES = [(1, 1, 1), (2, 3, 4), (4, 3, 2), (1, 5, 2), (6, 1, 3), (3, 3, 3), (2, 2, 5), (5, 2, 1), (2, 1, 6), (1, 1, 4), (3, 4, 3), (6, 2, 2)]
LAYOUTS = ["1d-1d", "3d-1d", "1d-3d", "1d-3d-1d", "repeat-1d-x3", "repeat-3d-x2", "single-3d"]


def configs(tier, seed):
    g = rng(seed, "C18|family")
    off = int(seed) % 7
    out = []
    # one domain (shortcut of the vectorised route): list of one grid, and num_domains=1
    for n in range(1, 7):
        for k in (1, 3, 2):
            if tier == "quick" and (n + k + off) % 2:
                continue
            out.append({"dims": [k], "sizes": [n], "mode": "list"})
            out.append({"dims": [k], "sizes": [n], "mode": "repeat"})
    # two domains: every pair of sizes 1..6
    j = off
    for a in range(1, 7):
        for b in range(1, 7):
            out.append({"dims": list(PATTERNS2[j % len(PATTERNS2)]), "sizes": [a, b], "mode": "list"})
            j += 1
    for n in range(1, 7):
        for k in (1, 3):
            out.append({"dims": [k, k], "sizes": [n, n], "mode": "repeat"})
            if (n + k) % 2 == 0:
                out.append({"dims": [k, k], "sizes": [n, n], "mode": "aliased"})
    # three domains
    triples = list(TRIPLES)
    if tier == "quick":
        triples += [tuple(int(x) for x in g.integers(1, 6, 3)) for _ in range(24)] + [(6, 6, 6), (5, 6, 6) if off % 2 else (6, 5, 4)]
    else:
        triples = [(a, b, c) for a in range(1, 7) for b in range(1, 7) for c in range(1, 7)]
    for s in triples:
        out.append({"dims": list(PATTERNS3[j % len(PATTERNS3)]), "sizes": list(s), "mode": "list"})
        j += 1
    for n in range(1, 5 if tier == "quick" else 7):
        for k in (1, 3):
            out.append({"dims": [k] * 3, "sizes": [n] * 3, "mode": "repeat"})
    for s in [(2, 3, 2), (3, 1, 3), (4, 5, 4)]:
        k = 1 if s[0] % 2 else 3
        out.append({"dims": [k, 3 if k == 1 else 1, k], "sizes": list(s), "mode": "aliased"})
    # runs of exactly-zero weights (chunks made of zero weights only), every chunk size
    for dims, sizes, mode in (([1, 1], [4, 3], "list"), ([3, 1], [5, 4], "list"), ([1, 3, 1], [4, 2, 3], "list"), ([1, 1], [5, 5], "repeat"), ([3, 3, 3], [4, 4, 4], "repeat"),
                              ([1, 2], [6, 5], "list"), ([1, 3, 1], [3, 3, 3], "aliased")):
        out.append({"dims": dims, "sizes": sizes, "mode": mode, "zeros": True})
    # four domains (quick: two fixed layouts; thorough: a third of all size tuples up to 3x4x3x4)
    if tier == "quick":
        out.append({"dims": [1, 3, 1, 3], "sizes": [2, 1, 3, 2], "mode": "list"})
        out.append({"dims": [3, 1, 2, 1], "sizes": [3, 2, 2, 3], "mode": "list"})
        out.append({"dims": [1] * 4, "sizes": [2] * 4, "mode": "repeat"})
    else:
        for a in range(1, 4):
            for b in range(1, 5):
                for c in range(1, 4):
                    for d in range(1, 5):
                        if (a + b + c + d + off) % 3 == 0:
                            out.append({"dims": [PATTERNS2[j % 8][0], PATTERNS2[(j + 3) % 8][1], 1, 3], "sizes": [a, b, c, d], "mode": "list"})
                            j += 1
        for n in (1, 2, 3, 4):
            out.append({"dims": [3] * 4, "sizes": [n] * 4, "mode": "repeat"})
    return out


def run_config(col, seed, cfg, tier):
    tot = total_size(cfg["sizes"])
    for family in ("int", "float"):
        enumeration_contract(col, seed, cfg, family)
    integral_contract(col, seed, cfg, tier, full_chunks=True)


def run(tier, seed, *rest):
    col = Collector("real MultiDomainGrid on 1-3 (thorough: 4) domains of sizes 1..6, point dimensions 1/2/3 mixed, explicit lists, one grid repeated, "
                    "aliased grids; integer family (exact equality) and float family with mixed-sign weights: size/num_domains/points/weights vs own "
                    "mixed-radix enumeration, vectorised vs point-by-point vs brute-force nested sum for all chunk sizes 1..total+1, separable "
                    "products, Gauss-Legendre closed forms, _chunked_iterator invariant for all lengths/sizes; distinct = (clause, #domains, "
                    "point-dimension pattern, mode, size class)", label="bounded")
    for cfg in configs(tier, seed):
        run_config(col, seed, cfg, tier)
    for nd in (1, 2, 3):
        for k in (1, 3):
            for n in ((1, 2, 5) if tier == "quick" else (1, 2, 3, 4, 5, 6)):
                repeat_equivalence_contract(col, seed, k, n, nd, tier)
    for which in LAYOUTS:
        closed_form_contract(col, seed, which)
    chunk_iterator_contract(col, 14 if tier == "quick" else 45)
    validation_contract(col)
    return col.result()


def _first(col_or_fails, prefer=None):
    fails = col_or_fails if isinstance(col_or_fails, list) else col_or_fails.failures
    if not fails:
        return None
    pick = None
    for f in fails:
        if ":known-" in f["case_id"]:
            continue
        if prefer and not f["case_id"].startswith(prefer):
            pick = pick or f
            continue
        return f
    return pick or fails[0]


def replay(req):
    seed = int(req.get("seed", 0) or 0)
    spec = req.get("spec") or {}
    col = Collector("replay")
    what = spec.get("what")
    if what in (None, "chunks"):
        chunk_iterator_contract(col, 20)
    if what in (None, "integrate", "enumeration"):
        for s in (seed, seed + 1):
            for cfg in configs("quick", s):
                if spec.get("num_domains") and len(cfg["dims"]) != spec["num_domains"]:
                    continue
                if total_size(cfg["sizes"]) > 64:
                    continue
                run_config(col, s, cfg, "thorough")
        for which in LAYOUTS:
            closed_form_contract(col, seed, which)
    f = _first(col)
    if f is not None and ":known-" not in f["case_id"]:
        return {"failed": True, "case_id": f["case_id"], "detail": f["detail"], "input": f["input"]}
    return {"failed": False, "detail": f"{col.evaluations} native evaluations passed"}


def replay_case(case):
    cid = case.get("case_id", "")
    inp = case.get("input") or {}
    col = Collector("replay-case")
    seed = int(inp.get("seed", 0) or 0)
    if cid.startswith("_chunked_iterator"):
        chunk_iterator_contract(col, int(inp.get("max_length", 20)))
    elif cid.startswith("constructor"):
        validation_contract(col)
    elif cid.startswith("closed-form"):
        closed_form_contract(col, seed, inp.get("layout", cid.split(":")[1]))
    elif cid.startswith("repeat-equals") and "dims" in inp:
        repeat_equivalence_contract(col, seed, inp["dims"][0], inp["sizes"][0], len(inp["dims"]), "thorough")
    elif "dims" in inp and "sizes" in inp:
        cfg = {"dims": list(inp["dims"]), "sizes": list(inp["sizes"]), "mode": inp.get("mode", "list")}
        run_config(col, seed, cfg, "thorough")
    else:
        return replay({"seed": seed})
    base = cid.split(":known-")[0]
    same = [f for f in col.failures if f["case_id"].split(":known-")[0] == base]
    f = same[0] if same else _first(col)
    if f is not None:
        return {"failed": True, "case_id": f["case_id"], "detail": f["detail"], "input": f["input"]}
    return {"failed": False, "detail": f"{col.evaluations} native evaluations passed"}
