"""Bounded run-time contracts for C19 (caches and remembered parameters), native NumPy, on the real classes.

Every *history* (a list of explicit API steps: angular grids with cache on/off by degree or size, atomic grids,
shell extraction, angular integration, spherical coordinates, splines, molecular grids, in-place edits of every
array reachable from a returned object, Coulomb parameter look-ups) is executed in a forked child process, so that
it starts from empty module-level caches.  Each checked step is an observation and carries a post-condition:

  * oracle: the shipped ``.npz`` / ``.json`` data read directly from the package directory by this driver, combined
    by this driver's own construction (r_i * unit points, w_j * w_i * r_i^2, Gram matrices for rotated shells, ...);
  * fresh process: the same step (with only the steps that construct its arguments) is re-executed in another
    forked child with pristine caches and must give the same arrays.

The three radial transformations with an inferred scale ``b`` are driven in-process: ``b`` is the maximum of the
first grid, never changes afterwards, every later call equals the single call on a fresh instance with explicit
``b`` and the results do not depend on the order of the calls.
"""
import os

for _v in ("OMP_NUM_THREADS", "OPENBLAS_NUM_THREADS", "MKL_NUM_THREADS"):
    os.environ.setdefault(_v, "1")

import json
import math
import multiprocessing
import warnings

import numpy as np

import grid
from grid import rtransform as rt
from grid.angular import (
    AHRENS_BEYLKIN_DEGREES,
    LEBEDEV_DEGREES,
    MAX_DET_DEGREES,
    SPHERICAL_DEGREES,
    AngularGrid,
)
from grid.atomgrid import AtomGrid
from grid.basegrid import OneDGrid
from grid.becke import BeckeWeights
from grid.coulomb import load_atomic_gaussian_params
from grid.molgrid import MolGrid
from rtc.common import Collector, rng

DATA = os.path.join(os.path.dirname(os.path.abspath(grid.__file__)), "data")
SUBDIR = {"lebedev": "lebedev", "spherical": "spherical_design", "maxdet": "maxdet", "ahrens_beylkin": "ahrens_beylkin"}
# constant tables of the package: shipped degree -> number of points (they name the data files)
TABLE = {"lebedev": dict(LEBEDEV_DEGREES), "spherical": dict(SPHERICAL_DEGREES), "maxdet": dict(MAX_DET_DEGREES),
         "ahrens_beylkin": dict(AHRENS_BEYLKIN_DEGREES)}
METHODS = ["lebedev", "spherical", "maxdet", "ahrens_beylkin"]
FOUR_PI = 4.0 * math.pi
ELEMENTS = {"H": 1, "C": 6, "N": 7, "O": 8, "Cl": 17}     # the elements of the shipped Coulomb table


# ----------------------------------------------------------------------------------------------------------------
# oracle: shipped data and this driver's own constructions
# ----------------------------------------------------------------------------------------------------------------
def sup_degree(method, d):
    """Smallest shipped degree >= d."""
    for k in sorted(TABLE[method]):
        if k >= d:
            return k
    raise ValueError(f"no shipped {method} degree >= {d}")


def sup_size(method, s):
    """Degree of the smallest shipped size >= s."""
    for k in sorted(TABLE[method], key=lambda q: TABLE[method][q]):
        if TABLE[method][k] >= s:
            return k
    raise ValueError(f"no shipped {method} size >= {s}")


_SHIPPED = {}


def shipped(method, degree):
    """Points and (4 pi normalised) weights of the shipped file of that method and degree; read-only arrays."""
    key = (method, degree)
    if key not in _SHIPPED:
        size = TABLE[method][degree]
        with np.load(os.path.join(DATA, SUBDIR[method], f"{method}_{degree}_{size}.npz")) as z:
            p = np.array(z["points"], dtype=float)
            w = np.array(z["weights"], dtype=float)
        if w.size == 1:
            w = np.full(len(p), float(w[0]))
        if method in ("lebedev", "spherical"):
            w = w * FOUR_PI
        p.setflags(write=False)
        w.setflags(write=False)
        gram = None
        _SHIPPED[key] = [p, w, gram]
    return _SHIPPED[key][0], _SHIPPED[key][1]


def shipped_gram(method, degree):
    p, _ = shipped(method, degree)
    rec = _SHIPPED[(method, degree)]
    if rec[2] is None:
        rec[2] = p @ p.T
    return rec[2]


_COULOMB = {}


def shipped_coulomb(symbol):
    if not _COULOMB:
        with open(os.path.join(DATA, "atomic_gauss_params.json"), encoding="utf-8") as f:
            _COULOMB.update(json.load(f))
    d = _COULOMB[symbol]
    return np.array(d["coeffs_s"], dtype=float), np.array(d["alphas_s"], dtype=float)


def first_diff(a, b, rtol, atol):
    a = np.asarray(a, dtype=float)
    b = np.asarray(b, dtype=float)
    if a.shape != b.shape:
        return f"shape {a.shape} instead of {b.shape}"
    bad = ~np.isclose(a, b, rtol=rtol, atol=atol, equal_nan=False)
    if not bad.any():
        return None
    k = tuple(int(x) for x in np.argwhere(bad)[0])
    return f"{int(bad.sum())} of {a.size} entries differ, first at {k}: {a[k]!r} instead of {b[k]!r}"


def cmp_angular(g, method, degree):
    p0, w0 = shipped(method, degree)
    if int(g.degree) != degree:
        return False, f"degree attribute {g.degree}, shipped degree {degree}"
    if g.size != len(w0):
        return False, f"{g.size} points, the shipped {method} grid of degree {degree} has {len(w0)}"
    d = first_diff(g.points, p0, 0.0, 1e-14)
    if d:
        return False, f"points differ from the shipped {method} degree-{degree} data: {d}"
    d = first_diff(g.weights, w0, 1e-13, 1e-17)
    if d:
        return False, f"weights differ from the shipped {method} degree-{degree} data: {d}"
    return True, None


def cmp_atom_arrays(points, weights, meta, indices=None, label="atomic grid"):
    """points/weights of one atomic grid against r_i * shipped points (+ centre) and w_j * w_i * r_i^2."""
    m, degs, r, w, c, rot = meta["method"], meta["degs"], meta["r"], meta["w"], np.asarray(meta["center"], float), meta["rotate"]
    sizes = [TABLE[m][d] for d in degs]
    want_idx = np.concatenate([[0], np.cumsum(sizes)])
    if indices is not None and not np.array_equal(np.asarray(indices), want_idx):
        return False, f"{label}: shell indices {np.asarray(indices).tolist()}, expected {want_idx.tolist()}"
    if points.shape != (want_idx[-1], 3) or weights.shape != (want_idx[-1],):
        return False, f"{label}: {points.shape} points / {weights.shape} weights, expected {int(want_idx[-1])}"
    cmax = float(np.max(np.abs(c))) if c.size else 0.0
    for i, d in enumerate(degs):
        p0, w0 = shipped(m, d)
        a, b = want_idx[i], want_idx[i + 1]
        dw = first_diff(weights[a:b], w0 * w[i] * r[i] ** 2, 1e-12, 1e-18)
        if dw:
            return False, f"{label}: shell {i} (r={r[i]!r}, {m} degree {d}) weights are not shipped weights * w_i * r_i^2: {dw}"
        if rot == 0:
            dp = first_diff(points[a:b], p0 * r[i] + c, 0.0, 1e-13 * (1 + r[i] + cmax))
            if dp:
                return False, f"{label}: shell {i} (r={r[i]!r}, {m} degree {d}) points are not r_i * shipped points + centre: {dp}"
        else:
            q = points[a:b] - c
            dg = first_diff(q @ q.T, shipped_gram(m, d) * r[i] ** 2, 0.0, 1e-12 * (1 + r[i] + cmax) ** 2)
            if dg:
                return False, (f"{label}: shell {i} (r={r[i]!r}, {m} degree {d}, rotated) is not a rotation of r_i * shipped points "
                               f"(inner products): {dg}")
    return True, None


def unit_from_angles(theta, phi):
    return np.stack([np.sin(phi) * np.cos(theta), np.sin(phi) * np.sin(theta), np.cos(phi)], axis=1)


def test_functions(points, nfun):
    x, y, z = points.T
    f = [1.0 + 0.5 * x - 0.3 * y * z + x * x, np.cos(y) + z]
    return f[0] if nfun == 1 else np.array(f)


def shell_sums(meta, fvals):
    """sum_j f(p_ij) w_j with the shipped angular weights, for every shell: the angular integral on each sphere."""
    fv = np.atleast_2d(fvals)
    idx = np.concatenate([[0], np.cumsum([TABLE[meta["method"]][d] for d in meta["degs"]])])
    out = np.zeros((fv.shape[0], len(meta["degs"])))
    scale = np.zeros_like(out)
    for i, d in enumerate(meta["degs"]):
        _, w0 = shipped(meta["method"], d)
        out[:, i] = fv[:, idx[i]:idx[i + 1]] @ w0
        scale[:, i] = np.abs(fv[:, idx[i]:idx[i + 1]]) @ np.abs(w0)
    if np.ndim(fvals) == 1:
        return out[0], scale[0]
    return out, scale


# ----------------------------------------------------------------------------------------------------------------
# executor of explicit histories (runs inside a forked child)
# ----------------------------------------------------------------------------------------------------------------
TAGS = ["after-caller-edit-of-angular", "after-caller-edit-of-derived", "after-library-use", "after-direct-build", "first-use"]
FLAG_TAG = {"edit-ang": 0, "edit-der": 1, "lib": 2, "built": 3}


class World:
    def __init__(self):
        self.objs, self.kind, self.meta, self.uses = {}, {}, {}, {}
        self.dirty = set()
        self.flags = {}
        self.records = []
        self.results = {}
        self.cid = None
        self.coul_any = False
        self.coul_edited = set()

    def tag(self, uses):
        best = 4
        for u in uses:
            for f in self.flags.get(u, ()):
                best = min(best, FLAG_TAG[f])
        return TAGS[best]

    def flag(self, uses, f):
        for u in uses:
            self.flags.setdefault(u, set()).add(f)

    def put(self, i, obj, kind, uses, meta=None):
        self.objs[i], self.kind[i], self.uses[i], self.meta[i] = obj, kind, set(uses), meta


def _rgrid(st):
    return OneDGrid(np.array(st["r"], dtype=float), np.array(st["w"], dtype=float), (0, np.inf))


def h_angular(W, i, st):
    m = st["method"]
    by_size = "size" in st
    d = sup_size(m, st["size"]) if by_size else sup_degree(m, st["degree"])
    uses = {(m, d)}
    W.cid = f"angular:{m}:cache-{'on' if st['cache'] else 'off'}:{'by-size' if by_size else 'by-degree'}:{W.tag(uses)}"
    kw = {"size": st["size"]} if by_size else {"degree": st["degree"]}
    g = AngularGrid(cache=st["cache"], method=m, **kw)
    W.put(i, g, "angular", uses)
    W.flag(uses, "built")
    W.results[i] = {"points": np.array(g.points), "weights": np.array(g.weights)}
    return cmp_angular(g, m, d)


def h_atom(W, i, st):
    m, var = st["method"], st["variant"]
    r, w = [float(x) for x in st["r"]], [float(x) for x in st["w"]]
    if var == "degrees":
        degs = [sup_degree(m, d) for d in st["degrees"]]
        degs = degs * len(r) if len(degs) == 1 else degs
        cand = set(degs)
    elif var == "sizes":
        degs = [sup_size(m, s) for s in st["sizes"]]
        degs = degs * len(r) if len(degs) == 1 else degs
        cand = set(degs)
    else:
        degs = None
        cand = {sup_degree(m, d) for d in st["d_sectors"]}
    uses = {(m, d) for d in cand}
    rot = int(st["rotate"])
    W.cid = f"atomgrid:{m}:{var}:{'rot' if rot else 'norot'}:{W.tag(uses)}"
    center = None if st["center"] is None else np.array(st["center"], dtype=float)
    if var == "degrees":
        a = AtomGrid(_rgrid(st), degrees=list(st["degrees"]), center=center, rotate=rot, method=m)
    elif var == "sizes":
        a = AtomGrid(_rgrid(st), degrees=None, sizes=list(st["sizes"]), center=center, rotate=rot, method=m)
    else:
        a = AtomGrid.from_pruned(_rgrid(st), st["radius"], r_sectors=list(st["r_sectors"]), d_sectors=list(st["d_sectors"]),
                                 center=center, rotate=rot, method=m)
    got_degs = [int(d) for d in a.degrees]
    if degs is None:
        if len(got_degs) != len(r) or not set(got_degs) <= cand:
            return False, f"pruned grid uses degrees {got_degs}, sector degrees are {sorted(cand)}"
        degs = got_degs
    meta = {"method": m, "degs": degs, "r": r, "w": w, "center": [0.0, 0.0, 0.0] if center is None else center.tolist(), "rotate": rot}
    W.put(i, a, "atom", {(m, d) for d in degs}, meta)
    W.flag(uses, "lib")
    W.results[i] = {"points": np.array(a.points), "weights": np.array(a.weights), "indices": np.array(a.indices), "degrees": np.array(got_degs)}
    if got_degs != degs:
        return False, f"degrees {got_degs}, expected the shipped degrees {degs}"
    return cmp_atom_arrays(a.points, a.weights, meta, a.indices)


def _atom_for(W, st):
    k = st["obj"]
    return W.objs.get(k), (k in W.objs and W.kind[k] == "atom" and k not in W.dirty)


def h_shell(W, i, st):
    a, clean = _atom_for(W, st)
    idx, r_sq = int(st["index"]), bool(st["r_sq"])
    if not clean:
        s = a.get_shell_grid(idx, r_sq=r_sq)
        W.put(i, s, "shell", set())
        return None
    meta = W.meta[st["obj"]]
    m, d, r, w = meta["method"], meta["degs"][idx], meta["r"][idx], meta["w"][idx]
    uses = {(m, d)}
    W.cid = f"shell:{m}:{'rot' if meta['rotate'] else 'norot'}:{'rsq' if r_sq else 'plain'}:{W.tag(uses)}"
    s = a.get_shell_grid(idx, r_sq=r_sq)
    W.put(i, s, "shell", uses)
    W.flag(uses, "lib")
    W.results[i] = {"points": np.array(s.points), "weights": np.array(s.weights)}
    p0, w0 = shipped(m, d)
    if int(s.degree) != d or s.size != len(w0):
        return False, f"shell grid has degree {s.degree} and {s.size} points, expected {d} and {len(w0)}"
    dw = first_diff(s.weights, w0 * w * (r * r if r_sq else 1.0), 1e-12, 1e-18)
    if dw:
        return False, f"shell {idx} weights are not shipped weights * w_i{' * r_i^2' if r_sq else ''}: {dw}"
    if meta["rotate"] == 0:
        dp = first_diff(s.points, p0 * r, 0.0, 1e-13 * (1 + r))
    else:
        sizes = np.concatenate([[0], np.cumsum([TABLE[m][q] for q in meta["degs"]])])
        seg = a.points[sizes[idx]:sizes[idx + 1]] - np.asarray(meta["center"])
        dp = first_diff(s.points, seg, 0.0, 1e-12 * (1 + r + np.max(np.abs(meta["center"]))))
    if dp:
        return False, f"shell {idx} points are not r_i * (rotated) shipped points: {dp}"
    return True, None


def h_integrate(W, i, st):
    a, clean = _atom_for(W, st)
    nfun = int(st["nfun"])
    f = test_functions(a.points, nfun)
    if not clean:
        a.integrate_angular_coordinates(f)
        return None
    meta = W.meta[st["obj"]]
    uses = W.uses[st["obj"]]
    small = "with-centre-shell" if min(meta["r"]) < 1e-8 else "no-centre-shell"
    W.cid = f"integrate-angular:{meta['method']}:{small}:{nfun}fn:{W.tag(uses)}"
    got = a.integrate_angular_coordinates(f)
    W.flag(uses, "lib")
    W.results[i] = {"values": np.array(got)}
    want, scale = shell_sums(meta, f)
    if np.shape(got) != want.shape:
        return False, f"result of shape {np.shape(got)}, expected {want.shape}"
    bad = ~(np.abs(got - want) <= 1e-11 * scale + 1e-300)
    if bad.any():
        k = tuple(int(x) for x in np.argwhere(bad)[0])
        return False, (f"angular integral {got[k]!r} on shell {k[-1]} (r={meta['r'][k[-1]]!r}), the shipped weights give {want[k]!r}")
    return True, None


def h_sph(W, i, st):
    a, clean = _atom_for(W, st)
    if not clean:
        a.convert_cartesian_to_spherical()
        return None
    meta = W.meta[st["obj"]]
    uses = W.uses[st["obj"]]
    zero = "with-origin-shell" if 0.0 in meta["r"] else "no-origin-shell"
    W.cid = f"spherical-coords:{meta['method']}:{zero}:{W.tag(uses)}"
    sph = a.convert_cartesian_to_spherical()
    W.flag(uses, "lib")
    W.results[i] = {"values": np.array(sph)}
    m = meta["method"]
    idx = np.concatenate([[0], np.cumsum([TABLE[m][d] for d in meta["degs"]])])
    if sph.shape != (idx[-1], 3):
        return False, f"shape {sph.shape}"
    rel = a.points - np.asarray(meta["center"])
    for k, d in enumerate(meta["degs"]):
        seg = sph[idx[k]:idx[k + 1]]
        r = meta["r"][k]
        if first_diff(seg[:, 0], np.full(len(seg), r), 1e-12, 1e-13 * (1 + np.max(np.abs(meta["center"])))):
            return False, f"shell {k}: radii are not {r!r}"
        u = unit_from_angles(seg[:, 1], seg[:, 2])
        if r == 0.0:
            p0, _ = shipped(m, d)
            want = p0 / np.linalg.norm(p0, axis=1)[:, None]
            dd = first_diff(u, want, 0.0, 1e-12)
            if dd:
                return False, f"shell {k} at the origin: angles are not those of the shipped {m} degree-{d} points: {dd}"
        else:
            dd = first_diff(u * r, rel[idx[k]:idx[k + 1]], 0.0, 1e-12 * (1 + r + np.max(np.abs(meta["center"]))))
            if dd:
                return False, f"shell {k}: angles do not reproduce the Cartesian points: {dd}"
    return True, None


def h_splines(W, i, st):
    a, clean = _atom_for(W, st)
    f = test_functions(a.points, 1)
    if not clean:
        a.radial_component_splines(f)
        return None
    meta = W.meta[st["obj"]]
    uses = W.uses[st["obj"]]
    W.cid = f"radial-splines:{meta['method']}:{W.tag(uses)}"
    rr = np.array(meta["r"])
    s1 = a.radial_component_splines(f)
    v1 = np.array([s(rr) for s in s1[:4]])
    s2 = a.radial_component_splines(f)          # second call reuses the remembered harmonics
    v2 = np.array([s(rr) for s in s2[:4]])
    W.flag(uses, "lib")
    W.results[i] = {"values": v1}
    if first_diff(v2, v1, 1e-12, 1e-13):
        return False, "second call (remembered spherical harmonics) gives other spline values than the first"
    want, scale = shell_sums(meta, f)
    bad = ~(np.abs(v1[0] * math.sqrt(FOUR_PI) - want) <= 1e-10 * scale)
    if bad.any():
        k = int(np.argmax(bad))
        return False, f"l=0 component at r={rr[k]!r} is {v1[0][k] * math.sqrt(FOUR_PI)!r}/sqrt(4 pi), shipped weights give {want[k]!r}/sqrt(4 pi)"
    return True, None


def _cmp_mol(mol, metas, aim_kind):
    idx = np.asarray(mol.indices)
    sizes = [sum(TABLE[mt["method"]][d] for d in mt["degs"]) for mt in metas]
    if not np.array_equal(idx, np.concatenate([[0], np.cumsum(sizes)])):
        return False, f"atom indices {idx.tolist()} for atomic grids of sizes {sizes}"
    for k, mt in enumerate(metas):
        ok, det = cmp_atom_arrays(mol.points[idx[k]:idx[k + 1]], mol.atweights[idx[k]:idx[k + 1]], mt, label=f"atom {k} of the molecular grid")
        if not ok:
            return ok, det
        if first_diff(mol.atcoords[k], mt["center"], 0.0, 0.0):
            return False, f"atom {k}: centre {mol.atcoords[k]}"
    aim = np.asarray(mol.aim_weights)
    if aim_kind == "ones" or len(metas) == 1:
        if first_diff(aim, np.ones(idx[-1]), 1e-12, 0.0):
            return False, "atom-in-molecule weights are not one"
    elif not (np.all(aim >= -1e-12) and np.all(aim <= 1 + 1e-12)):
        return False, "atom-in-molecule weights outside [0, 1]"
    dw = first_diff(mol.weights, mol.atweights * aim, 1e-13, 1e-300)
    if dw:
        return False, f"weights are not atomic weights * atom-in-molecule weights: {dw}"
    return True, None


def _mol_results(mol):
    return {"points": np.array(mol.points), "weights": np.array(mol.weights), "aim": np.array(mol.aim_weights),
            "atweights": np.array(mol.atweights), "indices": np.array(mol.indices)}


def h_mol(W, i, st):
    ks = list(st["atoms"])
    atoms = [W.objs[k] for k in ks]
    clean = all(W.kind[k] == "atom" and k not in W.dirty for k in ks)
    total = sum(a.size for a in atoms)
    aim = BeckeWeights(order=3) if st["aim"] == "becke" else np.ones(total)
    if not clean:
        mol = MolGrid(np.array(st["atnums"]), atoms, aim, store=bool(st["store"]))
        W.put(i, mol, "mol", set(), {"atoms": ks, "store": bool(st["store"])})
        W.dirty.add(i)
        return None
    uses = set().union(*[W.uses[k] for k in ks])
    W.cid = f"molgrid:from-atoms:{st['aim']}:{'store' if st['store'] else 'nostore'}:{W.tag(uses)}"
    mol = MolGrid(np.array(st["atnums"]), atoms, aim, store=bool(st["store"]))
    W.put(i, mol, "mol", uses, {"atoms": ks, "store": bool(st["store"])})
    W.results[i] = _mol_results(mol)
    return _cmp_mol(mol, [W.meta[k] for k in ks], st["aim"])


def h_mol_size(W, i, st):
    m = "lebedev"
    d = sup_size(m, st["size"])
    uses = {(m, d)}
    rot = int(st["rotate"])
    W.cid = f"molgrid:from_size:{'rot' if rot else 'norot'}:{W.tag(uses)}"
    r, w = [float(x) for x in st["r"]], [float(x) for x in st["w"]]
    mol = MolGrid.from_size(np.array(st["atnums"]), np.array(st["atcoords"], dtype=float), int(st["size"]), rgrid=_rgrid(st),
                            aim_weights=BeckeWeights(order=3), rotate=rot, store=True)
    W.put(i, mol, "mol", uses, {"atoms": [], "store": True})
    W.flag(uses, "lib")
    W.results[i] = _mol_results(mol)
    metas = [{"method": m, "degs": [d] * len(r), "r": r, "w": w, "center": list(c), "rotate": rot} for c in st["atcoords"]]
    return _cmp_mol(mol, metas, "becke")


EDIT_ATTRS = {
    "angular": ["points", "weights", "local_inf_points", "local_inf_weights", "local_points", "slice_points", "slice_weights"],
    "shell": ["points", "weights", "local_inf_points", "local_inf_weights"],
    "atom": ["points", "weights", "indices", "center", "rgrid_points", "rgrid_weights", "local_inf_weights", "shell0_points"],
    "mol": ["points", "weights", "atweights", "aim_weights", "atcoords", "indices", "atom0_points", "atom0_weights", "item0_weights"],
}
EDIT_HOW = ["zero", "scale", "reverse", "poke", "nan", "plus"]


def _target(obj, attr):
    if attr in ("points", "weights", "indices", "center", "atweights", "aim_weights", "atcoords"):
        return getattr(obj, attr)
    if attr.startswith("local_inf_"):
        c = np.zeros(3) if not isinstance(obj, AtomGrid) else np.asarray(obj.center)
        return getattr(obj.get_localgrid(c, np.inf), attr[len("local_inf_"):])
    if attr == "local_points":
        return obj.get_localgrid(np.array([0.0, 0.0, 1.0]), 1.2).points
    if attr.startswith("slice_"):
        return getattr(obj[0:3], attr[len("slice_"):])
    if attr.startswith("rgrid_"):
        return getattr(obj.rgrid, attr[len("rgrid_"):])
    if attr == "shell0_points":
        return obj.get_shell_grid(0).points
    if attr.startswith("atom0_"):
        return getattr(obj.get_atomic_grid(0), attr[len("atom0_"):])
    if attr == "item0_weights":
        return obj[0].weights
    raise KeyError(attr)


def h_edit(W, i, st):
    k = st["obj"]
    obj = W.objs[k]
    W.dirty.add(k)
    kind = W.kind[k]
    if kind == "mol":
        W.dirty.update(W.meta[k]["atoms"] if W.meta[k]["store"] else [])
    if kind == "atom":
        W.dirty.update(j for j in W.objs if W.kind[j] == "mol" and W.meta[j]["store"] and k in W.meta[j]["atoms"])
    W.flag(W.uses[k], "edit-ang" if kind == "angular" else "edit-der")
    arr = _target(obj, st["attr"])
    how = st["how"]
    with np.errstate(all="ignore"):
        if how == "zero":
            arr[...] = 0
        elif how == "scale":
            arr *= -3
        elif how == "reverse":
            arr[...] = arr[::-1].copy()
        elif how == "poke":
            arr.flat[0] = 7
        elif how == "nan" and arr.dtype.kind == "f":
            arr[...] = np.nan
        else:
            arr += 1
    return None


def h_coulomb(W, i, st):
    key = st["key"]
    sym = key.strip().title() if isinstance(key, str) else {v: k for k, v in ELEMENTS.items()}[int(key)]
    tag = "after-edit" if sym in W.coul_edited else ("repeat" if W.coul_any else "first-load")
    W.cid = f"coulomb-params:{'by-symbol' if isinstance(key, str) else 'by-number'}:{tag}"
    W.coul_any = True
    c, a = load_atomic_gaussian_params(key if isinstance(key, str) else (np.int64(key) if st.get("npint") else int(key)))
    W.results[i] = {"coeffs": np.array(c), "alphas": np.array(a)}
    c0, a0 = shipped_coulomb(sym)
    ok = np.array_equal(np.asarray(c), c0) and np.array_equal(np.asarray(a), a0)
    detail = None if ok else f"{sym}: returned parameters differ from the shipped table (coeffs[:2]={np.asarray(c)[:2]}, alphas[:2]={np.asarray(a)[:2]})"
    if st.get("edit"):
        W.coul_edited.add(sym)
        try:
            for arr in (c, a):
                if st["edit"] == "zero":
                    arr[...] = 0
                else:
                    arr *= -3
        except ValueError:
            pass        # read-only results cannot be edited: nothing to corrupt
    return ok, detail


HANDLERS = {"angular": h_angular, "atom": h_atom, "shell": h_shell, "integrate": h_integrate, "sph": h_sph, "splines": h_splines,
            "mol": h_mol, "mol_size": h_mol_size, "edit": h_edit, "coulomb": h_coulomb}


def run_step(W, i, st):
    W.cid = None
    try:
        with np.errstate(all="ignore"):
            out = HANDLERS[st["op"]](W, i, st)
    except Exception as e:  # noqa: BLE001
        # a step on an object the caller has edited (no case id) may fail legitimately; an observation may not
        out = (False, f"{type(e).__name__}: {e}") if W.cid else None
    if out is not None and W.cid:
        W.records.append((i, W.cid, bool(out[0]), out[1]))


def deps(steps, i):
    need = {i}
    st = steps[i]
    for k in ([st["obj"]] if "obj" in st else []) + list(st.get("atoms", [])):
        need |= deps(steps, k)
    return need


def _child_history(steps):
    warnings.simplefilter("ignore")
    W = World()
    for i, st in enumerate(steps):
        run_step(W, i, st)
    return {"records": W.records, "results": W.results}


def _child_fresh(steps, i):
    warnings.simplefilter("ignore")
    W = World()
    for j in sorted(deps(steps, i)):
        run_step(W, j, steps[j])
    return W.results.get(i)


def in_child(fn, *args, timeout=600):
    """Run fn(*args) in a forked child (pristine copy of this process: module-level caches as at import)."""
    if not hasattr(os, "fork"):
        return "ok", fn(*args)
    ctx = multiprocessing.get_context("fork")
    rd, wr = ctx.Pipe(duplex=False)

    def target():
        try:
            out = ("ok", fn(*args))
        except BaseException as e:  # noqa: BLE001
            out = ("err", f"{type(e).__name__}: {e}")
        wr.send(out)
        wr.close()
    p = ctx.Process(target=target)
    p.start()
    wr.close()
    try:
        out = rd.recv() if rd.poll(timeout) else ("err", f"no answer within {timeout} s")
    except EOFError:
        out = ("err", "child process died")
    p.join(5)
    if p.is_alive():
        p.kill()
        p.join(5)
    rd.close()
    return out


def same_arrays(a, b):
    if a is None or b is None or set(a) != set(b):
        return f"result {None if a is None else sorted(a)} vs fresh process {None if b is None else sorted(b)}"
    for k in sorted(a):
        x, y = np.asarray(a[k], dtype=float), np.asarray(b[k], dtype=float)
        if x.shape != y.shape:
            return f"{k}: shape {x.shape} vs {y.shape} in a fresh process"
        bad = ~np.isclose(x, y, rtol=1e-12, atol=1e-13, equal_nan=True)
        if bad.any():
            j = tuple(int(q) for q in np.argwhere(bad)[0])
            return f"{k}: {int(bad.sum())} of {x.size} entries differ from a fresh process, first at {j}: {x[j]!r} vs {y[j]!r}"
    return None


def history_contract(col, steps, fresh=True, only=None):
    status, out = in_child(_child_history, steps)
    if status != "ok":
        col.case("history:execution", False, out, inputs={"history": steps})
        return
    for i, cid, ok, detail in out["records"]:
        if only and not cid.startswith(only):
            continue
        col.case(cid, ok, detail, inputs={"history": steps[:i + 1]}, sample={"case": cid, "step": _brief(steps[i]), "history_length": i})
        if ok and fresh and i in out["results"]:
            st2, ref = in_child(_child_fresh, steps, i)
            diff = ref if st2 != "ok" else same_arrays(out["results"][i], ref)
            col.case("fresh-process:" + cid, diff is None, diff, inputs={"history": steps[:i + 1]})


def _brief(st):
    return {k: v for k, v in st.items() if k not in ("r", "w", "atcoords", "center")}


# ----------------------------------------------------------------------------------------------------------------
# generator of histories
# ----------------------------------------------------------------------------------------------------------------
COMMON = [3, 5, 7, 19, 23]
REQ = {"quick": {"lebedev": [3, 5, 7, 19, 23, 0, 4, 6, 13, 20], "spherical": [1, 3, 5, 7, 19, 23, 2, 4, 20],
                 "maxdet": [1, 4, 2, 9, 3, 16, 5, 7, 19, 23], "ahrens_beylkin": [14, 19, 23, 10, 20, 15]}}
REQ["thorough"] = {"lebedev": REQ["quick"]["lebedev"] + [9, 11, 25, 29, 35], "spherical": REQ["quick"]["spherical"] + [9, 11, 29, 35],
                   "maxdet": REQ["quick"]["maxdet"] + [25, 29, 35, 36], "ahrens_beylkin": REQ["quick"]["ahrens_beylkin"] + [29, 32, 35, 72]}
COLLIDE = {"maxdet": {1: 4, 2: 9, 3: 16, 4: 25, 5: 36}, "ahrens_beylkin": {14: 72}}   # degree whose *size* is another shipped degree


class Gen:
    def __init__(self, g, tier):
        self.g, self.tier = g, tier
        self.steps = []
        self.objs = []            # (step index, kind, clean?, centre or None)

    def pick(self, seq):
        return seq[int(self.g.integers(0, len(seq)))]

    def focus(self):
        g = self.g
        nm = 1 if g.random() < 0.45 else 2
        self.methods = [METHODS[int(k)] for k in g.permutation(4)[:nm]]
        c = self.pick(COMMON)
        self.foc = {}
        for m in self.methods:
            cm = c if m != "ahrens_beylkin" or c >= 19 else 14
            f = [cm, self.pick(REQ[self.tier][m])]
            if g.random() < 0.5:
                f.append(self.pick(REQ[self.tier][m]))
            for d in list(f):
                if d in COLLIDE.get(m, {}) and g.random() < (0.6 if m == "maxdet" or self.tier == "thorough" else 0.15):
                    f.append(COLLIDE[m][d])
            self.foc[m] = f

    def degree(self, m):
        return int(self.pick(self.foc[m]) if self.g.random() < 0.9 else self.pick(REQ[self.tier][m]))

    def add(self, st, kind=None, centre=None):
        self.steps.append(st)
        if kind:
            self.objs.append([len(self.steps) - 1, kind, True, centre])
        return len(self.steps) - 1

    def angular(self, m=None, d=None, cache=None):
        g = self.g
        m = m or self.pick(self.methods)
        d = self.degree(m) if d is None else d
        cache = bool(g.random() < 0.6) if cache is None else cache
        st = {"op": "angular", "method": m, "cache": cache}
        if g.random() < 0.25:
            size = TABLE[m][sup_degree(m, d)]
            st["size"] = int(size - 1 if g.random() < 0.4 and size > 1 else size)
        else:
            st["degree"] = int(d)
        self.add(st, "angular")

    def radial(self, nmin=2):
        g = self.g
        n = int(g.integers(nmin, 5 if self.tier == "quick" else 7))
        v = g.random()
        r = sorted({round(float(x), 3) for x in g.uniform(0.2, 4.0, n)})
        if v < 0.4:
            r = [0.0] + r[1:] if len(r) > 1 else [0.0] + r
        elif v < 0.55:
            r = [1e-9] + r[1:] if len(r) > 1 else [1e-9] + r
        if len(r) < 2:
            r = r + [r[-1] + 1.5]
        w = [round(float(x), 3) for x in g.uniform(0.1, 1.0, len(r))]
        return r, w

    def centre(self):
        g = self.g
        v = g.random()
        if v < 0.2:
            return None
        if v < 0.4:
            return [0.0, 0.0, 0.0]
        return [round(float(x), 3) for x in g.normal(size=3) * 1.5]

    def atom(self, m=None, rotate=None, zero_shell=False):
        g = self.g
        m = m or self.pick(self.methods)
        r, w = self.radial()
        if zero_shell:
            r[0] = 0.0
        c = self.centre()
        rot = (0 if g.random() < 0.5 else int(g.integers(1, 1000))) if rotate is None else rotate
        st = {"op": "atom", "method": m, "r": r, "w": w, "center": c, "rotate": rot}
        v = g.random()
        if v < 0.6:
            st["variant"] = "degrees"
            st["degrees"] = [self.degree(m)] if g.random() < 0.15 else [self.degree(m) for _ in r]
        elif v < 0.85:
            st["variant"] = "sizes"
            st["sizes"] = [int(TABLE[m][sup_degree(m, self.degree(m))]) - int(g.random() < 0.3) for _ in r]
            st["sizes"] = [max(s, 1) for s in st["sizes"]]
        else:
            st["variant"] = "pruned"
            st["radius"] = 1.0
            st["r_sectors"] = [1.0, 2.5]
            st["d_sectors"] = [self.degree(m) for _ in range(3)]
        return self.add(st, "atom", tuple(c) if c else (0.0, 0.0, 0.0))

    def atoms(self, clean_only=False):
        return [o for o in self.objs if o[1] == "atom" and (o[2] or not clean_only)]

    def on_atom(self, op, k=None, **kw):
        cand = self.atoms(clean_only=self.g.random() < 0.8) or self.atoms()
        if k is None:
            if not cand:
                return
            k = self.pick(cand)[0]
        st = {"op": op, "obj": int(k)}
        n = len(self.steps[k]["r"])
        if op == "shell":
            st["index"] = int(self.g.integers(0, n)) if "index" not in kw else kw["index"]
            st["r_sq"] = bool(self.g.random() < 0.5)
            self.add(st, "shell")
        elif op == "integrate":
            st["nfun"] = int(self.g.integers(1, 3))
            self.add(st)
        else:
            self.add(st)

    def mol(self):
        g = self.g
        cand = self.atoms(clean_only=g.random() < 0.85) or self.atoms()
        if not cand:
            return
        chosen, seen = [], set()
        for j in g.permutation(len(cand)):
            o = cand[int(j)]
            if o[3] not in seen and len(chosen) < 3:
                chosen.append(o)
                seen.add(o[3])
        st = {"op": "mol", "atoms": [int(o[0]) for o in chosen], "atnums": [int(self.pick([1, 6, 8, 17])) for _ in chosen],
              "aim": "becke" if g.random() < 0.6 else "ones", "store": bool(g.random() < 0.5)}
        k = self.add(st, "mol")
        if not all(o[2] for o in chosen):
            self.objs[-1][2] = False
        return k

    def mol_size(self):
        g = self.g
        r, w = self.radial()
        nat = int(g.integers(1, 3))
        sizes = [6, 18, 26, 10, 50] + ([int(TABLE["lebedev"][sup_degree("lebedev", d)]) for d in self.foc["lebedev"]] if "lebedev" in self.foc else [])
        st = {"op": "mol_size", "atnums": [int(self.pick([1, 6, 8])) for _ in range(nat)],
              "atcoords": [[round(float(x), 3) for x in g.normal(size=3) + 3.0 * k] for k in range(nat)],
              "size": int(self.pick(sizes)), "r": r, "w": w, "rotate": int(self.pick([0, 37, 5]))}
        self.add(st, "mol")

    def edit(self):
        if not self.objs:
            return
        g = self.g
        o = self.objs[-1] if g.random() < 0.4 else self.pick(self.objs)
        st = {"op": "edit", "obj": int(o[0]), "attr": self.pick(EDIT_ATTRS[o[1]]), "how": self.pick(EDIT_HOW)}
        o[2] = False
        if o[1] == "mol" and self.steps[o[0]].get("store"):
            for q in self.objs:
                if q[0] in self.steps[o[0]].get("atoms", []):
                    q[2] = False
        self.add(st)

    def coulomb(self):
        g = self.g
        sym = self.pick(sorted(ELEMENTS))
        v = g.random()
        key = ELEMENTS[sym] if v < 0.5 else (sym if v < 0.7 else (sym.lower() if v < 0.85 else f" {sym.upper()} "))
        st = {"op": "coulomb", "key": key, "edit": self.pick([None, None, "zero", "scale"])}
        if not isinstance(key, str) and g.random() < 0.3:
            st["npint"] = True
        self.add(st)

    def history(self, theme):
        g = self.g
        self.focus()
        ops = ["angular", "atom", "shell", "integrate", "sph", "splines", "mol", "mol_size", "edit", "coulomb"]
        p = np.array([0.28, 0.13, 0.08, 0.05, 0.04, 0.03, 0.05, 0.03, 0.27, 0.04])
        if theme == "edits":
            p = np.array([0.25, 0.12, 0.08, 0.02, 0.02, 0.01, 0.05, 0.03, 0.40, 0.02])
        elif theme == "coulomb":
            p = np.array([0.10, 0.05, 0.0, 0.0, 0.0, 0.0, 0.0, 0.0, 0.10, 0.75])
        p = p / p.sum()
        for _ in range(int(g.integers(5, 13))):
            op = ops[int(g.choice(len(ops), p=p))]
            if op in ("shell", "integrate", "sph", "splines"):
                if not self.atoms():
                    self.atom()
                self.on_atom(op)
            else:
                getattr(self, op)()
        # observations after the history
        for m in self.methods:
            for d in dict.fromkeys(self.foc[m]):
                for cache in (g.permutation(2) if g.random() < 0.8 else [int(g.integers(0, 2))]):
                    self.angular(m, d, bool(cache))
            k = self.atom(m, zero_shell=bool(g.random() < 0.6))
            self.on_atom("shell", k, index=0)
            self.on_atom("shell", k)
            self.on_atom("integrate", k)
            self.on_atom("sph", k)
            if g.random() < 0.35:
                self.on_atom("splines", k)
        v = g.random()
        if v < 0.3:
            self.mol_size()
        elif v < 0.6:
            self.mol()
        if theme == "coulomb" or g.random() < 0.3:
            for sym in sorted(ELEMENTS):
                self.steps.append({"op": "coulomb", "key": ELEMENTS[sym] if g.random() < 0.5 else sym, "edit": None})
        return self.steps


def gen_history(g, tier, theme="mixed"):
    return Gen(g, tier).history(theme)


# hand-made histories that reach the aliasing and key-collision paths deterministically
def fixed_histories():
    out = []
    for m, d in (("lebedev", 5), ("spherical", 5), ("maxdet", 5), ("ahrens_beylkin", 14)):
        for first_cache in (True, False):
            for attr in ("points", "weights", "local_inf_points", "local_inf_weights"):
                out.append([
                    {"op": "angular", "method": m, "degree": d, "cache": first_cache},
                    {"op": "angular", "method": m, "degree": d, "cache": True},
                    {"op": "edit", "obj": 0, "attr": attr, "how": "zero"},
                    {"op": "edit", "obj": 1, "attr": attr, "how": "scale"},
                    {"op": "angular", "method": m, "degree": d, "cache": True},
                    {"op": "angular", "method": m, "degree": d, "cache": False},
                    {"op": "atom", "method": m, "variant": "degrees", "degrees": [d], "r": [0.0, 0.7, 1.9], "w": [0.3, 0.5, 0.4],
                     "center": [0.2, -0.1, 0.4], "rotate": 0},
                    {"op": "shell", "obj": 6, "index": 1, "r_sq": True},
                    {"op": "edit", "obj": 7, "attr": attr if attr in ("points", "weights") else "points", "how": "zero"},
                    {"op": "edit", "obj": 6, "attr": "weights", "how": "zero"},
                    {"op": "atom", "method": m, "variant": "degrees", "degrees": [d, d], "r": [0.0, 1.1], "w": [0.3, 0.5],
                     "center": None, "rotate": 11},
                    {"op": "integrate", "obj": 10, "nfun": 2},
                    {"op": "sph", "obj": 10},
                    {"op": "shell", "obj": 10, "index": 0, "r_sq": False},
                    {"op": "angular", "method": m, "size": TABLE[m][d], "cache": True},
                ])
    # keys: a degree whose number of points is itself a shipped degree; the same degree in all four methods
    out.append([{"op": "angular", "method": "maxdet", "degree": a, "cache": True} for a in (1, 4, 2, 9, 3, 16, 4, 1)])
    out.append([{"op": "angular", "method": "maxdet", "degree": a, "cache": True} for a in (4, 1, 9, 2, 16, 3, 1, 4)])
    out.append([{"op": "angular", "method": "ahrens_beylkin", "degree": a, "cache": True} for a in (72, 14, 72, 14)])
    out.append([{"op": "angular", "method": "maxdet", "size": s, "cache": True} for s in (4, 16, 9)]
               + [{"op": "angular", "method": "maxdet", "degree": a, "cache": c} for a in (4, 16, 9, 3, 2) for c in (True, False)])
    for deg in (19, 23):
        for order in (METHODS, METHODS[::-1]):
            out.append([{"op": "angular", "method": m, "degree": deg, "cache": True} for m in order]
                       + [{"op": "angular", "method": m, "degree": deg, "cache": bool(k % 2)} for k, m in enumerate(order)])
    # unsupported requests are mapped to the next shipped grid and share its cache cell
    out.append([{"op": "angular", "method": "lebedev", "degree": a, "cache": True} for a in (4, 5, 0, 3, 6, 7, 20, 21)])
    out.append([{"op": "angular", "method": "lebedev", "size": a, "cache": True} for a in (5, 6, 7, 18, 14)]
               + [{"op": "angular", "method": "lebedev", "degree": a, "cache": False} for a in (3, 5)])
    return out


# ----------------------------------------------------------------------------------------------------------------
# radial transformations with a remembered scale
# ----------------------------------------------------------------------------------------------------------------
TF_CLASSES = ["LinearInfiniteRTransform", "ExpRTransform", "PowerRTransform"]
TF_METHODS = ["transform", "deriv", "deriv2", "deriv3", "inverse", "set_maximum_parameter_b", "transform_1d_grid"]


def _tf_call(tf, meth, x):
    x = np.array(x, dtype=float)
    if meth == "transform_1d_grid":
        gr = tf.transform_1d_grid(OneDGrid(x, np.linspace(0.5, 1.5, x.size), (0, np.inf)))
        return np.concatenate([gr.points, gr.weights, np.asarray(gr.domain, dtype=float)])
    out = getattr(tf, meth)(x)
    return out


def _needs_b(cls, meth):
    return not (cls == "LinearInfiniteRTransform" and meth in ("deriv2", "deriv3")) and meth != "inverse"


def transform_contract(col, spec):
    cls, mode, rmin, rmax = spec["class"], spec["mode"], spec["rmin"], spec["rmax"]
    T = getattr(rt, cls)
    b_true = max(spec["x0"])                 # the scale: maximum of the first grid
    inp = spec

    def prepare():
        x0 = np.array(spec["x0"], dtype=int if spec.get("x0_int") else float)
        if mode == "explicit":
            return T(rmin, rmax, b=(int(b_true) if spec.get("x0_int") else b_true)), x0
        tf = T(rmin, rmax)
        if tf.b is not None:
            raise AssertionError(f"b = {tf.b!r} before any grid was seen")
        first = spec["first"]
        if first == "transform_1d_grid":
            tf.transform_1d_grid(OneDGrid(x0.astype(float), np.ones(x0.size), (0, np.inf)))
        else:
            getattr(tf, first)(x0)
        if not _needs_b(cls, first) and tf.b is None:
            tf.transform(x0)
        return tf, x0

    def scale_chk():
        with warnings.catch_warnings():
            warnings.simplefilter("ignore")
            tf, x0 = prepare()
            if tf.b is None or float(tf.b) != float(b_true):
                return False, f"scale b = {tf.b!r} after the first grid with maximum {b_true!r}"
            if spec.get("edit_x0"):
                x0 *= 3
                if float(tf.b) != float(b_true):
                    return False, "editing the first grid in place changed the remembered scale"
        return True, None
    if mode == "inferred" and spec["first"] != "inverse":
        if not col.check(f"rtransform:{cls}:inferred:scale-from-first-grid:{spec['first']}", scale_chk, inputs=inp,
                         sample={"class": cls, "first": spec["first"], "b": b_true}):
            return
    try:
        with warnings.catch_warnings():
            warnings.simplefilter("ignore")
            tf, x0 = prepare()
            if spec.get("edit_x0"):
                x0 *= 3
            b_fix = tf.b
    except Exception as e:  # noqa: BLE001
        col.case(f"rtransform:{cls}:{mode}:prepare", False, f"{type(e).__name__}: {e}", inputs=inp)
        return
    if b_fix is None:
        col.case(f"rtransform:{cls}:{mode}:prepare", False, "scale still undefined after the first grid", inputs=inp)
        return
    saved = []

    def run_ops(tfi, ops, record):
        for k, op in ops:
            meth, x = op["m"], op["x"]

            def chk(meth=meth, x=x, k=k, op=op):
                with warnings.catch_warnings(), np.errstate(all="ignore"):
                    warnings.simplefilter("ignore")
                    got = _tf_call(tfi, meth, x)
                    if tfi.b is None or float(tfi.b) != float(b_fix):
                        return False, f"{meth} on a grid with maximum {max(x)!r} changed the scale from {b_fix!r} to {tfi.b!r}"
                    if meth == "set_maximum_parameter_b":
                        return (got is None), "set_maximum_parameter_b returned a value"
                    ref = _tf_call(T(rmin, rmax, b=float(b_fix)), meth, x)
                    keep = np.array(got, dtype=float)
                    if record:
                        saved.append((k, keep))
                    if op.get("zero_result"):
                        got[...] = 0.0
                    d = first_diff(keep, ref, 1e-13, 0.0) if np.all(np.isfinite(ref)) else (
                        None if np.allclose(keep, ref, rtol=1e-13, atol=0, equal_nan=True) else "non-finite pattern differs")
                    if d:
                        return False, f"{meth} after this history differs from a single call on a fresh instance with b={float(b_fix)!r}: {d}"
                return True, None
            if record:
                col.check(f"rtransform:{cls}:{mode}:{meth}", chk, inputs=inp, sample={"class": cls, "mode": mode, "method": meth})
            else:
                chk()
    ops = list(enumerate(spec["ops"]))
    run_ops(tf, ops, True)

    def order_chk():
        with warnings.catch_warnings(), np.errstate(all="ignore"):
            warnings.simplefilter("ignore")
            tf2, _ = prepare()
            for k, op in reversed(ops):
                if op["m"] == "set_maximum_parameter_b":
                    tf2.set_maximum_parameter_b(np.array(op["x"], dtype=float))
                    continue
                got = np.array(_tf_call(tf2, op["m"], op["x"]), dtype=float)
                first = [v for kk, v in saved if kk == k]
                if first and not np.allclose(got, first[0], rtol=1e-13, atol=0, equal_nan=True):
                    return False, f"call {k} ({op['m']}) gives another result when the calls are made in reverse order"
        return True, None
    col.check(f"rtransform:{cls}:{mode}:order-independence", order_chk, inputs=inp)


def gen_transform_spec(g, cls, mode, k):
    rmin = round(float(g.uniform(0.01, 0.5)), 4)
    rmax = round(rmin + float(g.uniform(2.0, 30.0)), 4)
    n = int(g.integers(2, 30))
    kind = k % 4
    x0_int = False
    if kind == 0:
        x0 = [float(v) for v in range(n)]
    elif kind == 1:
        x0 = [int(v) for v in range(n)]
        x0_int = True
    elif kind == 2:
        x0 = [round(float(v), 4) for v in g.permutation(np.sort(g.uniform(0.0, 20.0, n)))]      # maximum not at the end
        j = int(np.argmax(x0))
        if j == len(x0) - 1:
            x0[0], x0[-1] = x0[-1], x0[0]
    else:
        x0 = [round(float(v), 4) for v in np.sort(g.uniform(0.0, 3.0, n))[::-1]]                 # decreasing: maximum first
    b = max(x0)
    firsts = ["transform", "deriv", "deriv2", "deriv3", "transform_1d_grid", "inverse"]
    first = firsts[(k // 4) % len(firsts)]
    if first == "inverse":
        x0 = [round(rmin + 0.1 + abs(float(v)), 4) for v in x0]
        x0_int = False
        b = max(x0)
    ops = []
    for _ in range(int(g.integers(8, 13))):
        meth = TF_METHODS[int(g.integers(0, len(TF_METHODS)))]
        m2 = int(g.integers(1, 12))
        scale = float(g.choice([0.3, 1.0, 2.5, 7.0]))
        if meth == "inverse":
            x = [round(float(v), 5) for v in g.uniform(rmin * 1.01, rmax * 1.3, m2)]
        else:
            x = [round(float(v), 5) for v in g.uniform(0.0, b * scale + 0.5, m2)]
            if g.random() < 0.3:
                x[0] = 0.0
            if g.random() < 0.2:
                x = sorted(x)
        ops.append({"m": meth, "x": x, "zero_result": bool(g.random() < 0.5) and meth != "set_maximum_parameter_b"})
    return {"class": cls, "mode": mode, "rmin": rmin, "rmax": rmax, "x0": x0, "x0_int": x0_int, "first": first, "ops": ops,
            "edit_x0": bool(g.random() < 0.5)}


def transform_anchors(col, g, cls):
    T = getattr(rt, cls)
    rmin = float(g.uniform(0.01, 0.5))
    rmax = rmin + float(g.uniform(2.0, 30.0))
    b = float(g.uniform(3.0, 40.0))
    inp = {"class": cls, "rmin": rmin, "rmax": rmax, "b": b}

    def chk():
        with warnings.catch_warnings(), np.errstate(all="ignore"):
            warnings.simplefilter("ignore")
            tf = T(rmin, rmax, b=b)
            ends = tf.transform(np.array([0.0, b]))
            if not np.allclose(ends, [rmin, rmax], rtol=1e-12):
                return False, f"r(0), r(b) = {ends}, expected rmin, rmax = {rmin}, {rmax}"
            x = np.sort(g.uniform(0.05, 1.2 * b, 12))
            r = tf.transform(x)
            if not np.all(np.diff(r) > 0):
                return False, "transform is not increasing"
            if not np.allclose(tf.inverse(r), x, rtol=1e-9):
                return False, "inverse(transform(x)) != x"
            h = 1e-4 * (1 + x)
            fd = lambda f: (f(x - 2 * h) - 8 * f(x - h) + 8 * f(x + h) - f(x + 2 * h)) / (12 * h)   # noqa: E731
            for name, lo, hi in (("deriv", tf.transform, tf.deriv), ("deriv2", tf.deriv, tf.deriv2), ("deriv3", tf.deriv2, tf.deriv3)):
                want = fd(lo)
                got = hi(x)
                if not np.allclose(got, want, rtol=1e-5, atol=1e-7 * np.max(np.abs(want), initial=1e-3)):
                    return False, f"{name} differs from the finite difference of its antiderivative: {got[:2]} vs {want[:2]}"
            if tf.b != b:
                return False, "explicit scale changed"
        return True, None
    col.check(f"rtransform:{cls}:anchors", chk, inputs=inp)

    def independent():
        with warnings.catch_warnings(), np.errstate(all="ignore"):
            warnings.simplefilter("ignore")
            t1, t2, t3 = T(rmin, rmax), T(rmin, rmax), T(rmin, rmax, b=b)
            xa, xb, xc = np.arange(7.0), np.array([0.5, 11.0, 3.0]), np.array([0.0, 1.0, 2.5, 6.0])
            t1.transform(xa)
            t2.deriv(xb)
            t3.transform(xc)
            if (t1.b, t2.b, t3.b) != (6.0, 11.0, b):
                return False, f"scales of three instances fed with maxima 6, 11 and explicit {b}: {(t1.b, t2.b, t3.b)}"
            for t, bb in ((t1, 6.0), (t2, 11.0), (t3, b)):
                if not np.allclose(t.transform(xc), T(rmin, rmax, b=bb).transform(xc), rtol=1e-14, atol=0):
                    return False, "instances share their scale"
        return True, None
    col.check(f"rtransform:{cls}:instances-independent", independent, inputs=inp)


# ----------------------------------------------------------------------------------------------------------------
# entry points
# ----------------------------------------------------------------------------------------------------------------
RULE = ("histories of real API calls, each in a forked process with empty caches: AngularGrid (4 methods, by degree/size, supported and "
        "unsupported requests, cache on/off, equal degrees across methods, degrees whose size is another degree), AtomGrid (degrees/sizes/"
        "pruned, shell at r=0 and r=1e-9, rotation, centre), get_shell_grid, integrate_angular_coordinates, convert_cartesian_to_spherical, "
        "radial_component_splines, MolGrid (from atoms, from_size; Becke and unit weights; store), in-place edits (zero/scale/reverse/poke/nan/"
        "+1) of every array reachable from returned objects (incl. local grids, slices, shell grids, stored atoms), Coulomb table look-ups; "
        "each observation = shipped npz/json data combined by the driver's own construction + identical result in a fresh process; "
        "Linear/Exp/Power transforms: scale = max of first grid (6 first calls, int/unsorted grids), set once, each call = single call on a "
        "fresh instance with explicit b, reverse order, end-point/inverse/finite-difference anchors; "
        "distinct = (observation, method, variant, kind of earlier history)")


def grid_family(col, tier, seed, only=None):
    g = rng(seed, "C19-hist")
    fixed = fixed_histories()
    if tier == "quick":
        # a seed-dependent third of the hand-made histories plus random ones
        sel = [h for k, h in enumerate(fixed) if k % 3 == seed % 3 or k >= len(fixed) - 10]
        nrand, fresh_every = 26, 1
    else:
        sel = fixed
        nrand, fresh_every = 250, 1
    for h in sel:
        history_contract(col, h, fresh=True, only=only)
    themes = ["mixed", "mixed", "edits", "mixed", "edits", "coulomb"]
    for k in range(nrand):
        steps = gen_history(g, tier, themes[k % len(themes)])
        history_contract(col, steps, fresh=(k % fresh_every == 0), only=only)


def transform_family(col, tier, seed, classes=None):
    g = rng(seed, "C19-tf")
    reps = 12 if tier == "quick" else 96
    for cls in classes or TF_CLASSES:
        for k in range(reps):
            transform_contract(col, gen_transform_spec(g, cls, "inferred", k))
            transform_contract(col, gen_transform_spec(g, cls, "explicit", k))
        for _ in range(2 if tier == "quick" else 10):
            transform_anchors(col, g, cls)


def run(tier, seed, *rest):
    col = Collector(RULE)
    warnings.simplefilter("ignore")
    grid_family(col, tier, seed)
    transform_family(col, tier, seed)
    return col.result()


def _first_failure(col, prefix=None):
    fails = [f for f in col.failures if ":known" not in f["case_id"]] or list(col.failures)
    if prefix:
        fails = [f for f in fails if prefix in f["case_id"]] or fails
    if fails:
        f = fails[0]
        return {"failed": True, "case_id": f["case_id"], "detail": f["detail"], "input": f["input"]}
    return None


def replay(req):
    spec = req.get("spec") or {}
    seed = int(req.get("seed", 0) or 0)
    what = spec.get("what")
    if what not in ("rtransform", "grid", "angular", "atomgrid", "coulomb"):
        what = None
    col = Collector("replay")
    warnings.simplefilter("ignore")
    if what in (None, "rtransform"):
        transform_family(col, "quick", seed, classes=[spec["class"]] if spec.get("class") in TF_CLASSES else None)
    if what in (None, "grid", "angular", "atomgrid", "coulomb"):
        grid_family(col, "quick", seed)
    out = _first_failure(col, spec.get("case"))
    return out or {"failed": False, "detail": f"{col.evaluations} native contract evaluations passed"}


def replay_case(case):
    inp = case.get("input") or {}
    cid = (case.get("case_id") or "").split(":known")[0]
    col = Collector("replay-case")
    warnings.simplefilter("ignore")
    if isinstance(inp, dict) and "history" in inp:
        history_contract(col, inp["history"], fresh=True)
        body = cid[len("fresh-process:"):] if cid.startswith("fresh-process:") else cid
        out = _first_failure(col, body)
    elif isinstance(inp, dict) and "ops" in inp:
        transform_contract(col, inp)
        out = _first_failure(col, cid)
    elif isinstance(inp, dict) and "class" in inp:
        transform_anchors(col, rng(0, "C19-tf"), inp["class"])
        out = _first_failure(col, cid)
    else:
        grid_family(col, "quick", 0)
        transform_family(col, "quick", 0)
        out = _first_failure(col, cid)
    return out or {"failed": False}
