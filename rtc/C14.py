"""Bounded run-time contracts for C14 (multipole moments) on the real functions, native NumPy/SciPy.

Oracles (all independent of the code under test):
  * order lists: descending lexicographic sort of the integer compositions / explicit (l, m), (n, l, m) enumeration plus the
    closed-form row index of every entry;
  * quadrature: one explicit sum  sum_n w_n f_n B(x_n - c)  per row and centre (no broadcasting tricks) with the basis function B
    a Cartesian monomial, a power of the Euclidean norm, or the regular real solid harmonic written as a *Cartesian polynomial*
        S_lm = sqrt((2 - d_m0) (l-|m|)!/(l+|m|)!) * {Re, Im}(x + i y)^|m| * sum_k c_k z^(l-|m|-2k) r^(2k),
    c_k the exact rational coefficients of d^|m| P_l / dt^|m|  (no angles, no recursions, well defined at r = 0 and on the poles);
  * closed forms for normalised Gaussians on spectrally accurate real grids (UniformGrid, AtomGrid): binomial/double-factorial
    Cartesian moments, and  m_nlm = 4 pi C_lm(s) int r^(n+l+2) g_l(r) dr  (modified spherical Bessel expansion, scipy.quad);
  * dipole: sum Z (R - Rc) - sum_n w_n rho_n (x_n - Rc) with Rc from an own table of isotope masses.
"""
import itertools
import math
from fractions import Fraction

import numpy as np
from scipy import integrate as sci_integrate
from scipy import special as sci_special

from grid.basegrid import Grid
from grid.utils import dipole_moment_of_molecule, generate_orders_horton_order
from rtc.common import Collector, rng

EPS = float(np.finfo(float).eps)

# masses (u) of the most abundant isotope, typed from the AME tables (not from the library)
OWN_MASSES = {1: 1.00782503, 3: 7.01600344, 6: 12.0, 7: 14.003074, 8: 15.99491462, 9: 18.99840316, 11: 22.98976928,
              16: 31.97207117, 17: 34.96885268}


# ----------------------------------------------------------------------------------------------------------------------
# independent oracles
# ----------------------------------------------------------------------------------------------------------------------
def own_orders(order, kind, dim=3):
    """Documented list of one order, as a list of tuples."""
    if kind == "cartesian":
        comps = [c for c in itertools.product(range(order + 1), repeat=dim) if sum(c) == order]
        return sorted(comps, reverse=True)
    if kind == "radial":
        return [(order,)]
    if kind == "pure":
        out = [(order, 0)]
        for m in range(1, order + 1):
            out += [(order, m), (order, -m)]
        return out
    if kind == "pure-radial":
        out = []
        for l in range(order):
            out.append((order, l, 0))
            for m in range(1, l + 1):
                out += [(order, l, m), (order, l, -m)]
        return out
    raise ValueError(kind)


def own_all_orders(lmax, kind, dim=3):
    out = []
    for o in range(1 if kind == "pure-radial" else 0, lmax + 1):
        out += own_orders(o, kind, dim)
    return out


def row_index(entry, kind, dim=3):
    """Closed-form position of an entry inside the block of its order."""
    if kind == "cartesian":
        n = sum(entry)
        if dim == 3:
            a, b, _ = entry
            return (n - a) * (n - a + 1) // 2 + (n - a - b)
        if dim == 2:
            return n - entry[0]
        return 0
    if kind == "radial":
        return 0
    if kind == "pure":
        m = entry[1]
        return 2 * m - 1 if m > 0 else 2 * abs(m)
    n, l, m = entry
    return l * l + (2 * m - 1 if m > 0 else 2 * abs(m))


_LEG = {}


def legendre_deriv_coeffs(l, m):
    """[(power of t, exact coefficient)] of d^m P_l / dt^m."""
    key = (l, m)
    if key not in _LEG:
        out = []
        for k in range(l // 2 + 1):
            p = l - 2 * k
            if p < m:
                continue
            c = Fraction((-1) ** k * math.comb(l, k) * math.comb(2 * l - 2 * k, l), 2 ** l)
            for j in range(m):
                c *= (p - j)
            out.append((p - m, k, float(c)))
        _LEG[key] = out
    return _LEG[key]


def own_solid(l, m, d):
    """Regular real solid harmonic (Racah normalisation, no Condon-Shortley phase) of the displacements d (N, 3)."""
    x, y, z = d[:, 0], d[:, 1], d[:, 2]
    am = abs(m)
    r2 = x * x + y * y + z * z
    pol = np.zeros(len(d))
    for pz, k, c in legendre_deriv_coeffs(l, am):
        pol = pol + c * z ** pz * r2 ** k
    if am == 0:
        return pol
    xy = (x + 1j * y) ** am
    norm = math.sqrt(2.0 * math.factorial(l - am) / math.factorial(l + am))
    return norm * pol * (xy.real if m > 0 else xy.imag)


def own_basis(entry, kind, d):
    """Value of the basis function named by `entry` at displacements d (N, dim); returns (values, degree)."""
    if kind == "cartesian":
        v = np.ones(len(d))
        for j, o in enumerate(entry):
            v = v * d[:, j] ** o
        return v, sum(entry)
    r = np.sqrt(np.sum(d * d, axis=1))
    if kind == "radial":
        return r ** entry[0], entry[0]
    if kind == "pure":
        return own_solid(entry[0], entry[1], d), entry[0]
    n, l, m = entry
    return r ** n * own_solid(l, m, d), n + l


def own_moments(points, weights, fvals, centres, entries, kind):
    """Explicit quadrature; returns (values (rows, centres), noise scale (rows, centres))."""
    val = np.zeros((len(entries), len(centres)))
    mag = np.zeros((len(entries), len(centres)))
    wf = weights * fvals
    for ic, c in enumerate(centres):
        d = points - c
        r = np.sqrt(np.sum(d * d, axis=1))
        for ir, e in enumerate(entries):
            b, deg = own_basis(e, kind, d)
            val[ir, ic] = math.fsum(wf * b)
            mag[ir, ic] = float(np.sum(np.abs(wf) * (r ** deg if kind != "cartesian" else np.abs(b)))) * (2.0 if kind.startswith("pure") else 1.0)
    return val, mag


# ----------------------------------------------------------------------------------------------------------------------
# contract: order generator
# ----------------------------------------------------------------------------------------------------------------------
def known_np_int(detail):
    return bool(detail) and detail.startswith("AttributeError: module 'numpy' has no attribute 'int'")


def orders_contract(col, kind, dim, lmax):
    inp = {"type_ord": kind, "dim": dim, "orders": f"0..{lmax}"}

    def chk():
        for order in range(lmax + 1):
            got = generate_orders_horton_order(order, kind, dim)
            want = own_orders(order, kind, dim)
            got = np.asarray(got)
            if got.dtype.kind not in "iu":
                return False, f"order {order}: dtype {got.dtype} is not an integer type"
            if kind == "radial":
                if got.size != 1 or int(np.ravel(got)[0]) != order:
                    return False, f"order {order}: got {got.tolist()}, expected the single entry {order}"
                continue
            if kind == "pure-radial" and order == 0:
                if got.size != 0:
                    return False, f"order 0 has no (n, l<n, m) entries, got {got.tolist()}"
                continue
            width = {"cartesian": dim, "pure": 2, "pure-radial": 3}[kind]
            if got.ndim != 2 or got.shape != (len(want), width):
                return False, f"order {order}: shape {got.shape}, expected ({len(want)}, {width})"
            rows = [tuple(int(v) for v in r) for r in got]
            if rows != want:
                k = next(i for i, (a, b) in enumerate(zip(rows, want)) if a != b)
                return False, f"order {order}: row {k} is {rows[k]}, documented Horton order has {want[k]}"
            for k, r in enumerate(rows):
                if row_index(r, kind, dim) != k:
                    return False, f"order {order}: entry {r} sits in row {k}, closed-form row index {row_index(r, kind, dim)}"
            if len(set(rows)) != len(rows):
                return False, f"order {order}: duplicate rows"
        return True, None
    cid = f"generate_orders:{kind}" + (f":{dim}d" if kind == "cartesian" else "")
    ok = col.check(cid, chk, inputs=inp, sample=inp)
    if not ok and kind == "cartesian" and dim == 1 and known_np_int(col.failures[-1]["detail"]):
        col.failures[-1]["case_id"] = cid + ":known-np-int-1d"


def orders_validation(col):
    def chk():
        for bad in (1.0, "2", None, np.float64(2.0), [1]):
            try:
                generate_orders_horton_order(bad, "cartesian", 3)
                return False, f"order {bad!r} accepted"
            except TypeError:
                pass
        for bad in ("Cartesian", "pure_radial", "", "spherical"):
            try:
                generate_orders_horton_order(1, bad, 3)
                return False, f"type {bad!r} accepted"
            except ValueError:
                pass
        for bad in (0, 4, -1):
            try:
                generate_orders_horton_order(1, "cartesian", bad)
                return False, f"dim {bad!r} accepted"
            except ValueError:
                pass
        # dim is documented to matter for Cartesian only
        for kind in ("radial", "pure", "pure-radial"):
            a = generate_orders_horton_order(3, kind, 3)
            b = generate_orders_horton_order(3, kind, 2)
            if not np.array_equal(a, b):
                return False, f"{kind}: result depends on dim"
        return True, None
    col.check("generate_orders:validation", chk)


# ----------------------------------------------------------------------------------------------------------------------
# contract: Grid.moments against explicit quadrature
# ----------------------------------------------------------------------------------------------------------------------
def compare(got, want, mag, entries, centres, what, rel=2e-12):
    tol = rel * mag + 1e-290
    # the pure types go through angles and long double recursions: allow a few more ulps per degree
    bad = ~(np.abs(got - want) <= tol)
    if np.any(bad):
        ir, ic = np.argwhere(bad)[0]
        return False, (f"{what}: row {ir} {entries[ir]} centre {ic}: returned {got[ir, ic]!r}, direct quadrature of the defining "
                       f"integrand gives {want[ir, ic]!r} (noise scale {tol[ir, ic]:.3g})")
    return True, None


def moments_contract(col, grid, fvals, centres, lmax, kind, label, return_orders=True, lmax_arg=None):
    dim = grid.points.shape[1]
    npts = len(grid.points)
    inp = {"type_mom": kind, "dim": dim, "orders": lmax, "points": grid.points.tolist() if npts <= 12 else f"{npts} points",
           "weights": grid.weights.tolist() if npts <= 12 else None, "func_vals": fvals.tolist() if npts <= 12 else None,
           "centers": np.asarray(centres).tolist(), "family": label}
    snap = [a.copy() for a in (grid.points, grid.weights, fvals, centres)]
    arg = lmax if lmax_arg is None else lmax_arg
    if kind == "cartesian" and dim == 1 and getattr(col, "np_int_1d", 0) >= 3:
        return True        # the recorded 1-D defect raises before any work is done: three witnesses are enough, keep the failure list free

    def chk():
        entries = own_all_orders(lmax, kind, dim)
        if return_orders:
            got, orders = grid.moments(arg, centres, fvals, type_mom=kind, return_orders=True)
        else:
            got, orders = grid.moments(arg, centres, fvals, type_mom=kind), None
        got = np.asarray(got)
        for a, b, name in zip((grid.points, grid.weights, fvals, centres), snap, ("points", "weights", "func_vals", "centers")):
            if not np.array_equal(a, b):
                return False, f"argument {name} was modified"
        if orders is not None:
            orders = np.asarray(orders)
            if orders.dtype.kind not in "iu":
                return False, f"returned orders have dtype {orders.dtype}"
            if kind == "radial":
                rows = [(int(v),) for v in np.ravel(orders)]
            else:
                if orders.ndim != 2:
                    return False, f"returned orders have shape {orders.shape}"
                rows = [tuple(int(v) for v in r) for r in orders]
            if rows != entries:
                k = next((i for i, (a, b) in enumerate(zip(rows, entries)) if a != b), min(len(rows), len(entries)))
                return False, (f"returned orders: {len(rows)} rows, expected {len(entries)}; first difference at row {k}: "
                               f"{rows[k] if k < len(rows) else None} vs {entries[k] if k < len(entries) else None}")
        if len(centres) == 0:
            if got.size != 0:
                return False, f"no centres but {got.size} values returned"
            return True, None
        if got.shape != (len(entries), len(centres)):
            return False, f"result has shape {got.shape}, expected (rows, centres) = ({len(entries)}, {len(centres)})"
        if got.dtype.kind != "f" or not np.all(np.isfinite(got)):
            return False, f"result dtype {got.dtype}, finite: {bool(np.all(np.isfinite(got.astype(float))))}"
        want, mag = own_moments(grid.points, grid.weights, fvals, centres, entries, kind)
        rel = 2e-13 if kind in ("cartesian", "radial") else 2e-12   # observed worst case is < 1e-3 of this
        return compare(got.astype(float), want, mag, entries, centres, f"{kind} moments", rel)
    cid = f"moments:{kind}:{dim}d:{label}"
    ok = col.check(cid, chk, inputs=inp, sample={"type_mom": kind, "dim": dim, "orders": lmax, "centres": len(centres), "points": npts, "family": label})
    if not ok and kind == "cartesian" and dim == 1 and known_np_int(col.failures[-1]["detail"]):
        col.failures[-1]["case_id"] = cid + ":known-np-int-1d"
        col.np_int_1d = getattr(col, "np_int_1d", 0) + 1
    return ok


def random_grid(g, dim, npts, centres, structured):
    pts = g.normal(size=(npts, dim)) * g.uniform(0.5, 2.0)
    if structured and npts >= 8 and len(centres):
        c = centres[0]
        pts[0] = c                                   # a node exactly on a centre (r = 0)
        if dim == 3:
            pts[1] = c + [0.0, 0.0, 1.3]              # north pole
            pts[2] = c + [0.0, 0.0, -0.7]             # south pole
            pts[3] = c + [-0.9, 0.0, 0.0]             # azimuth pi
            pts[4] = c + [0.0, -1.1, 0.0]             # azimuth -pi/2
            pts[5] = c + [-0.8, -0.0, 0.4]            # negative zero
            pts[6] = c + [0.5, 0.5, 0.0]              # equator
            pts[7] = c + [1e-9, -1e-9, 1e-9]          # tiny radius
        elif dim == 2:
            pts[1] = c + [0.0, 1.3]
            pts[2] = c + [-0.7, 0.0]
            pts[3] = c + [1e-9, -1e-9]
        else:
            pts[1] = c - 0.7
            pts[2] = c + 1e-9
    w = g.uniform(0.05, 1.0, npts)
    if structured:
        w[g.random(npts) < 0.2] *= -1.0              # signed weights are grids too (e.g. Lebedev rules with negative weights)
        if npts > 3:
            w[npts - 1] = 0.0
    return Grid(pts, w)


def random_family(col, g, tier, reps):
    kinds = [("cartesian", 1), ("cartesian", 2), ("cartesian", 3), ("radial", 1), ("radial", 2), ("radial", 3), ("pure", 3), ("pure-radial", 3)]
    for rep in range(reps):
        for kind, dim in kinds:
            for ncen in (1, 2, 3, 4) if tier != "quick" or rep == 0 else (1 + rep % 4,):
                for structured in (False, True):
                    lmax = int(g.integers(0 if kind != "pure-radial" else 1, 7))
                    if rep == 0 and ncen == 1:
                        lmax = 6
                    if rep == 0 and ncen == 2:
                        lmax = 1 if kind == "pure-radial" else 0
                    npts = int(g.integers(1, 30)) if not structured else int(g.integers(8, 30))
                    centres = g.normal(size=(ncen, dim))
                    if ncen >= 3:
                        centres[2] = centres[0]        # a repeated centre
                    if ncen >= 2 and rep % 2:
                        centres[1] = 0.0
                    grid = random_grid(g, dim, npts, centres, structured)
                    f = g.normal(size=npts) * 10.0 ** g.integers(-2, 3)
                    label = f"{'structured' if structured else 'random'}:centres={ncen}"
                    moments_contract(col, grid, f, centres, lmax, kind, label, return_orders=bool((rep + ncen) % 2 == 0) or rep == 0)


def variants_family(col, g):
    """Argument variants that the signature promises: numpy integer order, zero centres, single point, non-contiguous inputs."""
    for kind, dim in (("cartesian", 3), ("cartesian", 2), ("radial", 3), ("pure", 3), ("pure-radial", 3)):
        npts = 9
        centres = g.normal(size=(2, dim))
        grid = random_grid(g, dim, npts, centres, True)
        f = g.normal(size=npts)
        moments_contract(col, grid, f, centres, 3, kind, "order-as-np.int64", lmax_arg=np.int64(3))
        moments_contract(col, grid, f, centres[:0], 2, kind, "centres=0")
        moments_contract(col, Grid(grid.points[:1].copy(), grid.weights[:1].copy()), f[:1].copy(), centres, 2, kind, "single-point")
        big = g.normal(size=(2 * npts, dim + 1))
        strided = Grid(big[::2, :dim], g.uniform(0.1, 1, 2 * npts)[::2])
        moments_contract(col, strided, g.normal(size=2 * npts)[::2], g.normal(size=(3, 2 * dim))[:, ::2], 2, kind, "strided-views")
        # integer-valued function values and weights / points on an integer lattice (dtype handling)
        lattice = Grid(g.integers(-3, 4, (npts, dim)).astype(float), np.ones(npts))
        moments_contract(col, lattice, g.integers(-5, 6, npts).astype(float), np.zeros((1, dim)), 4, kind, "integer-lattice")


def moments_validation(col, g):
    pts = g.normal(size=(6, 3))
    grid = Grid(pts, g.uniform(0.1, 1, 6))
    f = g.normal(size=6)
    cen = g.normal(size=(2, 3))

    def expect(exc, *a, **kw):
        try:
            grid.moments(*a, **kw)
        except exc:
            return True
        except Exception:  # noqa: BLE001
            return False
        return False

    def chk():
        if not expect(ValueError, 1, cen, np.array([f, f])):
            return False, "2-D function values accepted"
        if not expect(ValueError, 1, cen[0], f):
            return False, "1-D centres accepted"
        if not expect(ValueError, 1, cen[:, :2], f):
            return False, "centres of another dimension accepted"
        if not expect(ValueError, 1, cen, f[:5]):
            return False, "too few function values accepted"
        if not expect(ValueError, 1, cen, np.append(f, 1.0)):
            return False, "too many function values accepted"
        if not expect(ValueError, 0, cen, f, type_mom="pure-radial"):
            return False, "pure-radial with n = 0 accepted"
        if not expect(TypeError, np.array([1, 1]), cen, f):
            return False, "array of orders accepted"
        if not expect(TypeError, 1.0, cen, f):
            return False, "float order accepted"
        if not expect(ValueError, 1, cen, f, type_mom="spherical"):
            return False, "unknown type accepted"
        # legal corner: func_vals of shape (N,) with one centre and order 0 of every other type
        for kind in ("cartesian", "radial", "pure"):
            out = grid.moments(0, cen[:1], f, type_mom=kind)
            if np.asarray(out).shape != (1, 1) or not np.isclose(out[0, 0], math.fsum(grid.weights * f), rtol=1e-13, atol=1e-15):
                return False, f"{kind}: zeroth moment is not the plain integral"
        return True, None
    col.check("moments:validation", chk)


# ----------------------------------------------------------------------------------------------------------------------
# contract: Gaussians with known moments on real grid classes
# ----------------------------------------------------------------------------------------------------------------------
def gauss_1d_moment(n, s, a):
    """int (x - c)^n sqrt(a/pi) exp(-a (x - x0)^2) dx with s = x0 - c."""
    tot = 0.0
    for k in range(0, n + 1, 2):
        dfact = 1.0
        for j in range(k - 1, 0, -2):
            dfact *= j
        tot += math.comb(n, k) * s ** (n - k) * dfact / (2.0 * a) ** (k // 2)
    return tot


def gauss_nlm(n, l, m, svec, a):
    """int |r - c|^n S_lm(r - c) (a/pi)^1.5 exp(-a |r - R|^2) d^3r, s = R - c."""
    s = float(np.linalg.norm(svec))
    pre = 4.0 * math.pi * (a / math.pi) ** 1.5
    if s < 1e-14:
        if l != 0:
            return 0.0
        return pre * 0.5 * math.gamma((n + 3) / 2.0) / a ** ((n + 3) / 2.0)
    clm = own_solid(l, m, np.asarray(svec, float)[None, :] / s)[0]
    # exponentially scaled Bessel function: i_l(x) exp(-x), exponent -a (r - s)^2
    fn = lambda r: r ** (n + l + 2) * sci_special.spherical_in(l, 2 * a * r * s) * math.exp(-2 * a * r * s) * math.exp(-a * (r - s) ** 2)
    wid = 1.0 / math.sqrt(a)
    val, _ = sci_integrate.quad(fn, 0.0, s + 14 * wid, points=[p for p in (s - 3 * wid, s, s + 3 * wid) if 0 < p], epsabs=0, epsrel=1e-12, limit=400)
    return pre * clm * val


def gaussian_values(points, comps):
    dim = points.shape[1]
    f = np.zeros(len(points))
    for q, a, R in comps:
        f += q * (a / math.pi) ** (dim / 2.0) * np.exp(-a * np.sum((points - R) ** 2, axis=1))
    return f


def trapezoid_grid(dim, h, half, cls):
    """Spectrally accurate rule for Gaussians: equally spaced nodes, equal weights, built from a real grid class."""
    n = int(round(2 * half / h)) + 1
    if cls == "UniformGrid":
        from grid.cubic import UniformGrid
        return UniformGrid(np.full(dim, -half), np.eye(dim) * h, np.full(dim, n), weight="Rectangle")
    ax = -half + h * np.arange(n)
    if dim == 1:
        return Grid(ax[:, None].copy(), np.full(n, h))
    mesh = np.stack(np.meshgrid(*([ax] * dim), indexing="ij"), axis=-1).reshape(-1, dim)
    return Grid(mesh, np.full(len(mesh), h ** dim))


def gaussian_cartesian_contract(col, g, dim, lmax, ncomp, ncen):
    comps = [(float(g.normal()), float(g.uniform(0.8, 2.0)), g.normal(size=dim) * 0.5) for _ in range(ncomp)]
    centres = g.normal(size=(ncen, dim)) * 0.7
    h, half = (0.25, 9.0) if dim < 3 else (0.4, 7.2)
    cls = "UniformGrid" if dim >= 2 else "Grid"
    inp = {"dim": dim, "orders": lmax, "gaussians": [(q, a, R.tolist()) for q, a, R in comps], "centers": centres.tolist(), "grid": cls, "spacing": h}

    def chk():
        grid = trapezoid_grid(dim, h, half, cls)
        f = gaussian_values(grid.points, comps)
        got, orders = grid.moments(lmax, centres, f, type_mom="cartesian", return_orders=True)
        entries = own_all_orders(lmax, "cartesian", dim)
        if [tuple(int(v) for v in r) for r in np.asarray(orders)] != entries:
            return False, "returned orders are not the documented list"
        if got.shape != (len(entries), ncen):
            return False, f"shape {got.shape}"
        for ir, e in enumerate(entries):
            for ic, c in enumerate(centres):
                want = sum(q * math.prod(gauss_1d_moment(o, R[j] - c[j], a) for j, o in enumerate(e)) for q, a, R in comps)
                scale = sum(abs(q) * math.prod(gauss_1d_moment(o + o % 2, abs(R[j] - c[j]) + 0.5, a) + 1 for j, o in enumerate(e)) for q, a, R in comps)
                if not abs(got[ir, ic] - want) <= 1e-10 * scale:
                    return False, f"moment {e} about centre {ic}: {got[ir, ic]!r}, closed form for the Gaussians {want!r}"
        return True, None
    cid = f"gaussian:cartesian:{dim}d"
    ok = col.check(cid, chk, inputs=inp, sample={"dim": dim, "orders": lmax, "gaussians": ncomp, "centres": ncen, "grid": cls})
    if not ok and dim == 1 and known_np_int(col.failures[-1]["detail"]):
        col.failures[-1]["case_id"] = cid + ":known-np-int-1d"


def gaussian_pure_contract(col, g, lmax, ncomp, ncen):
    """Pure moments of spherical Gaussians on a 3-D uniform grid (polynomial x Gaussian: spectrally accurate)."""
    comps = [(float(g.normal()), float(g.uniform(0.8, 2.0)), g.normal(size=3) * 0.5) for _ in range(ncomp)]
    centres = g.normal(size=(ncen, 3)) * 0.7
    inp = {"orders": lmax, "gaussians": [(q, a, R.tolist()) for q, a, R in comps], "centers": centres.tolist()}

    def chk():
        grid = trapezoid_grid(3, 0.4, 7.2, "UniformGrid")
        f = gaussian_values(grid.points, comps)
        got, orders = grid.moments(lmax, centres, f, type_mom="pure", return_orders=True)
        entries = own_all_orders(lmax, "pure")
        if [tuple(int(v) for v in r) for r in np.asarray(orders)] != entries:
            return False, "returned orders are not the documented list"
        for ir, (l, m) in enumerate(entries):
            for ic, c in enumerate(centres):
                # mean-value property of harmonic polynomials: int S_lm(r - c) g(|r - R|) = S_lm(R - c) int g
                want = sum(q * own_solid(l, m, (R - c)[None, :])[0] for q, a, R in comps)
                scale = sum(abs(q) * (np.linalg.norm(R - c) + 1.5) ** l for q, a, R in comps)
                if not abs(got[ir, ic] - want) <= 1e-10 * scale:
                    return False, f"pure moment (l, m) = {(l, m)} about centre {ic}: {got[ir, ic]!r}, S_lm(R - c) * charge gives {want!r}"
        return True, None
    col.check("gaussian:pure:3d", chk, inputs=inp, sample={"orders": lmax, "gaussians": ncomp, "centres": ncen, "grid": "UniformGrid"})


def gaussian_atomgrid_contract(col, g, kind, lmax):
    """All spherical types on a real AtomGrid: a Gaussian displaced from the expansion centre, moments about the grid centre."""
    from grid.atomgrid import AtomGrid
    from grid.onedgrid import GaussLegendre
    from grid.rtransform import BeckeRTransform
    a = float(g.uniform(0.9, 1.6))
    c0 = g.normal(size=3) * 0.5
    svec = g.normal(size=3)
    svec *= float(g.uniform(0.25, 0.5)) / np.linalg.norm(svec)
    q = float(g.uniform(0.5, 2.0))
    inp = {"type_mom": kind, "orders": lmax, "alpha": a, "grid_center": c0.tolist(), "gaussian_center": (c0 + svec).tolist(), "charge": q}

    def chk():
        rad = BeckeRTransform(0.0, 1.2).transform_1d_grid(GaussLegendre(70))
        grid = AtomGrid(rad, degrees=[41], center=c0)
        f = q * gaussian_values(grid.points, [(1.0, a, c0 + svec)])
        centres = np.array([c0])
        got, orders = grid.moments(lmax, centres, f, type_mom=kind, return_orders=True)
        entries = own_all_orders(lmax, kind)
        rows = [(int(v),) for v in np.ravel(orders)] if kind == "radial" else [tuple(int(v) for v in r) for r in np.asarray(orders)]
        if rows != entries:
            return False, "returned orders are not the documented list"
        for ir, e in enumerate(entries):
            n, l, m = (e[0], 0, 0) if kind == "radial" else (0, e[0], e[1]) if kind == "pure" else e
            want = q * gauss_nlm(n, l, m, svec, a)
            scale = q * (np.linalg.norm(svec) + 1.5 / math.sqrt(a)) ** (n + l)
            if not abs(got[ir, 0] - want) <= 2e-8 * scale:
                return False, f"{kind} moment {e}: {got[ir, 0]!r}, Bessel-expansion closed form {want!r}"
        return True, None
    col.check(f"gaussian:{kind}:atomgrid", chk, inputs=inp, sample=inp)


# ----------------------------------------------------------------------------------------------------------------------
# contract: dipole helper
# ----------------------------------------------------------------------------------------------------------------------
MOLECULES = [[1, 9], [3, 1], [8, 1, 1], [6, 8], [7, 1, 1, 1], [17, 1], [11, 17], [6, 1, 1, 1, 9], [1], [16, 8, 8], [1, 1]]


def dipole_contract(col, g, k):
    nums = np.array(MOLECULES[k % len(MOLECULES)])
    natom = len(nums)
    coords = g.normal(size=(natom, 3)) * 1.5
    if k % 4 == 3:
        coords += np.array([5.0, -3.0, 2.0])          # far from the origin: the reference point matters
    npts = int(g.integers(5, 40))
    grid = Grid(g.normal(size=(npts, 3)) * 2.0 + coords.mean(axis=0), g.uniform(0.05, 1.0, npts))
    rho = g.uniform(0.0, 1.0, npts) * float(g.uniform(0.2, 3.0))   # total charge differs from sum Z: the mass centre matters
    inp = {"charges": nums.tolist(), "coords": coords.tolist(), "points": grid.points.tolist() if npts <= 12 else f"{npts} points",
           "weights": grid.weights.tolist() if npts <= 12 else None, "density": rho.tolist() if npts <= 12 else None}
    snap = [a.copy() for a in (grid.points, grid.weights, rho, coords, nums)]

    def chk():
        got = np.asarray(dipole_moment_of_molecule(grid, rho, coords, nums), dtype=float)
        for a_, b_, name in zip((grid.points, grid.weights, rho, coords, nums), snap, ("points", "weights", "density", "coords", "charges")):
            if not np.array_equal(a_, b_):
                return False, f"argument {name} was modified"
        if got.shape != (3,):
            return False, f"result has shape {got.shape}"
        ms = np.array([OWN_MASSES[int(z)] for z in nums])
        rc = (ms[:, None] * coords).sum(axis=0) / ms.sum()
        nuc = (nums[:, None] * (coords - rc)).sum(axis=0)
        ele = ((grid.weights * rho)[:, None] * (grid.points - rc)).sum(axis=0)
        want = nuc - ele
        span = np.abs(coords).max() + 1.0
        net = abs(nums.sum() - (grid.weights * rho).sum())
        noise = 1e-12 * ((nums[:, None] * np.abs(coords - rc)).sum() + ((grid.weights * rho)[:, None] * np.abs(grid.points - rc)).sum())
        tol = 3e-6 * span * net + noise            # 1e-6 relative rounding of the tabulated masses moves Rc by < 1e-6 * span
        if not np.all(np.abs(got - want) <= tol):
            return False, (f"dipole {got.tolist()}, nuclear minus electronic first moments about the centre of mass "
                           f"{rc.tolist()} give {want.tolist()} (tolerance {tol:.3g})")
        return True, None
    col.check(f"dipole:{'-'.join(str(int(z)) for z in nums)}", chk, inputs=inp, sample={"charges": nums.tolist(), "points": npts})


def dipole_gaussian_contract(col, g, k):
    """Closed form on a real UniformGrid: normalised Gaussian charges q_a on the nuclei (ions: sum q != sum Z)."""
    nums = np.array(MOLECULES[k % 8])
    natom = len(nums)
    coords = g.normal(size=(natom, 3)) * 0.8
    qs = nums * g.uniform(0.6, 1.3, natom)
    alphas = g.uniform(0.9, 2.0, natom)
    inp = {"charges": nums.tolist(), "coords": coords.tolist(), "populations": qs.tolist(), "alphas": alphas.tolist()}

    def chk():
        grid = trapezoid_grid(3, 0.4, 7.2, "UniformGrid")
        rho = gaussian_values(grid.points, [(qs[i], alphas[i], coords[i]) for i in range(natom)])
        got = np.asarray(dipole_moment_of_molecule(grid, rho, coords, nums), dtype=float)
        ms = np.array([OWN_MASSES[int(z)] for z in nums])
        rc = (ms[:, None] * coords).sum(axis=0) / ms.sum()
        want = ((nums - qs)[:, None] * (coords - rc)).sum(axis=0)
        tol = 1e-6 * (np.abs(nums - qs).sum() + 1.0) * (np.abs(coords).max() + 1.0)
        if got.shape != (3,) or not np.all(np.abs(got - want) <= tol):
            return False, f"dipole {got.tolist()}, point-charge closed form sum (Z - q)(R - Rc) = {want.tolist()}"
        return True, None
    col.check(f"dipole:gaussian-ions:{'-'.join(str(int(z)) for z in nums)}", chk, inputs=inp, sample={"charges": nums.tolist(), "grid": "UniformGrid"})


# ----------------------------------------------------------------------------------------------------------------------
# driver
# ----------------------------------------------------------------------------------------------------------------------
def run(tier, seed, *rest):
    col = Collector("real generate_orders_horton_order for every order 0..Lmax, type and dim (exhaustive list + closed-form row index); real "
                    "Grid.moments for the 4 types in 1-/2-/3-D on random and structured grids (nodes on a centre, on both poles, azimuth "
                    "pi, signed/zero weights, 1..29 nodes), 0..4 centres (repeated, origin), L = 0..6, with and without return_orders, "
                    "against one explicit sum per row and centre with Cartesian-polynomial solid harmonics; closed-form Gaussian moments "
                    "on UniformGrid/AtomGrid; argument validation and untouched inputs; dipole helper against nuclear minus electronic "
                    "first moments about an own mass centre for 11 heteronuclear molecules and Gaussian ions; "
                    "distinct = (function, type, dimension, input family)")
    quick = tier == "quick"
    g = rng(seed, "C14")
    lgen = 10 if quick else 40
    for kind, dims in (("cartesian", (1, 2, 3)), ("radial", (3,)), ("pure", (3,)), ("pure-radial", (3,))):
        for dim in dims:
            orders_contract(col, kind, dim, lgen if not (kind == "cartesian" and dim == 3) else min(lgen, 25))
    orders_validation(col)
    random_family(col, g, tier, 6 if quick else 40)
    variants_family(col, g)
    moments_validation(col, g)
    for k in range(1 if quick else 8):
        gaussian_cartesian_contract(col, g, 1, 6, 2, 3)
        gaussian_cartesian_contract(col, g, 2, 5 if quick else 6, 2, 3)
        gaussian_cartesian_contract(col, g, 3, 3 if quick else 4, 2, 2)
        gaussian_pure_contract(col, g, 3 if quick else 5, 2, 2)
        for kind in ("radial", "pure", "pure-radial"):
            gaussian_atomgrid_contract(col, g, kind, 3 if quick else 4)
    for k in range(len(MOLECULES) if quick else 4 * len(MOLECULES)):
        dipole_contract(col, g, k)
    for k in range(2 if quick else 8):
        dipole_gaussian_contract(col, g, k)
    return col.result()


def _first(col, prefix=None):
    fails = [f for f in col.failures if ":known-" not in f["case_id"]] or list(col.failures)
    if prefix:
        pref = [f for f in fails if f["case_id"].startswith(prefix)]
        fails = pref or fails
    if fails:
        f = fails[0]
        return {"failed": True, "case_id": f["case_id"], "detail": f["detail"], "input": f["input"]}
    return None


def replay(req):
    spec = req.get("spec") or {}
    name = str(req.get("obligation") or "")
    what = spec.get("what") or ("orders" if "generate_orders" in name or "orders" in name else "dipole" if "dipole" in name else
                                "moments" if "moments" in name else None)
    col = Collector("replay")
    g = rng(req.get("seed", 0), "C14-replay")
    if what in (None, "orders"):
        for kind, dims in (("cartesian", (1, 2, 3)), ("radial", (3,)), ("pure", (3,)), ("pure-radial", (3,))):
            if spec.get("type") in (None, kind):
                for dim in dims:
                    orders_contract(col, kind, dim, 12)
        orders_validation(col)
    if what in (None, "moments"):
        random_family(col, g, "quick", 4)
        variants_family(col, g)
        moments_validation(col, g)
    if what in (None, "dipole"):
        for k in range(2 * len(MOLECULES)):
            dipole_contract(col, g, k)
    out = _first(col)
    if out and ":known-" not in out["case_id"]:
        return out
    return {"failed": False, "detail": f"{col.evaluations} native evaluations passed" + (" (only recorded findings failed)" if out else "")}


def replay_case(case):
    cid = case.get("case_id", "")
    base = cid.split(":known-")[0]
    col = Collector("replay-case")
    for seed in range(3):
        g = rng(seed, "C14")
        if base.startswith("generate_orders:validation"):
            orders_validation(col)
        elif base.startswith("generate_orders"):
            parts = base.split(":")
            orders_contract(col, parts[1], int(parts[2][0]) if len(parts) > 2 else 3, 12)
        elif base.startswith("moments:validation"):
            moments_validation(col, g)
        elif base.startswith("moments"):
            random_family(col, g, "quick", 3)
            variants_family(col, g)
        elif base.startswith("gaussian"):
            gaussian_cartesian_contract(col, g, 1, 4, 2, 2)
            gaussian_cartesian_contract(col, g, 2, 4, 2, 2)
            gaussian_cartesian_contract(col, g, 3, 3, 2, 2)
            gaussian_pure_contract(col, g, 3, 2, 2)
            for kind in ("radial", "pure", "pure-radial"):
                gaussian_atomgrid_contract(col, g, kind, 3)
        else:
            for k in range(len(MOLECULES)):
                dipole_contract(col, g, k)
            dipole_gaussian_contract(col, g, seed)
        same = [f for f in col.failures if f["case_id"].split(":known-")[0] == base]
        if same:
            f = same[0]
            return {"failed": True, "case_id": f["case_id"], "detail": f["detail"], "input": f["input"]}
    out = _first(col, base)
    return out or {"failed": False}
