"""Bounded run-time contracts for C07 (molecular grid = weighted concatenation of atomic grids), native NumPy.

Contracts are evaluated on the REAL MolGrid / AtomGrid classes.  Oracles are own re-derivations:
  * layout: prefix sums / concatenation of the hand-built atomic grids (snapshots taken before the call),
  * atom-in-molecule weights: a recording callable, a plain array, or an own implementation of Becke's scheme
    (written from the paper: cell functions of the hyperbolic coordinate, Bragg-Slater size adjustment),
  * constructors: the atomic grids built by hand with the arguments the documentation says are handed on,
  * default radial grid: closed form r_i = rmin (i+1)^p, p = ln(rmax/rmin)/ln(n), w_i = dr/di, and the default
    of the atomic-grid module,
  * end to end: total charge of a sum of normalised Gaussians is the sum of the coefficients.
"""
import os

os.environ.setdefault("OMP_NUM_THREADS", "1")
os.environ.setdefault("OPENBLAS_NUM_THREADS", "1")
os.environ.setdefault("MKL_NUM_THREADS", "1")

import math  # noqa: E402
from importlib.resources import files  # noqa: E402

import numpy as np  # noqa: E402
import scipy.constants  # noqa: E402

from grid.atomgrid import AtomGrid  # noqa: E402
from grid.basegrid import OneDGrid  # noqa: E402
from grid.becke import BeckeWeights  # noqa: E402
from grid.molgrid import MolGrid  # noqa: E402
from grid.onedgrid import GaussLaguerre, GaussLegendre  # noqa: E402
from grid.rtransform import BeckeRTransform  # noqa: E402
from grid.utils import get_cov_radii  # noqa: E402
from rtc.common import Collector, rng  # noqa: E402

try:  # internal helpers: their contracts are skipped when a refactoring removes them
    from grid.molgrid import _generate_default_rgrid
except ImportError:  # pragma: no cover
    _generate_default_rgrid = None
try:
    from grid.utils import _DEFAULT_POWER_RTRANSFORM_PARAMS as _RPARAMS
except ImportError:  # pragma: no cover
    _RPARAMS = None

DEGS = [3, 5, 7, 9, 11, 13, 15, 17, 4, 10]          # 4 and 10 are not tabulated: the next larger degree is used
SIZES = [6, 14, 26, 38, 50, 20, 30]                  # 20 and 30 are not tabulated sizes
ROTS = [0, 1, 37, 99, 2**20 + 3]
PRESETS_DEFAULT = ["coarse", "medium", "fine", "veryfine", "ultrafine", "insane", "sg_1"]   # accept the default radial grids
PRESETS_NRAD = ["sg_0", "sg_2", "sg_3", "g1", "g2", "g3", "g4", "g5", "g6", "g7"]           # need a radial grid of a tabulated size
ZMAX = 36


# ----------------------------------------------------------------------------------------------------------------------
# generators and oracles


def heavy_pool(preset):
    data = np.load(files("grid.data.prune_grid").joinpath(f"prune_grid_{preset}.npz"))
    return [z for z in (sorted(_RPARAMS) if _RPARAMS is not None else []) if 36 < z <= 86 and f"{z}_rad" in data.files]


def zpool(preset):
    if preset == "sg_1":
        return list(range(1, 19))
    if preset == "insane":
        return [z for z in range(1, ZMAX + 1) if z not in (32, 36)]     # not tabulated for this preset
    return list(range(1, ZMAX + 1))


def rand_molecule(g, natom, pool, dmin=1.2, close_pair=False):
    """Random atomic numbers and coordinates with all distances >= dmin (optionally one pair at exactly dmin)."""
    base = float(g.uniform(0.9, 3.0))
    for attempt in range(2000):
        c = g.uniform(-1.0, 1.0, (natom, 3)) * base * (1.0 + 0.05 * attempt)
        if close_pair and natom > 1:
            v = g.normal(size=3)
            c[1] = c[0] + (dmin + 1e-7) * v / np.linalg.norm(v)
        d = np.linalg.norm(c[:, None] - c[None], axis=-1) + 1e3 * np.eye(natom)
        if natom == 1 or d.min() >= dmin:
            break
    z = np.array([int(x) for x in g.choice(pool, natom)], dtype=int)
    if natom >= 3 and g.random() < 0.5 and len(set(pool)) > 1:
        # "any molecule": also element patterns like H-O-H, O-C-O (first and last atom alike, a different one in between)
        z[-1] = z[0]
        while z[1] == z[0]:
            z[1] = int(g.choice(pool))
    return z, c


def radial_pool(g):
    """Small radial grids of pairwise different sizes: transformed Gauss-Legendre, Gauss-Laguerre, an r = 0 node, a single shell."""
    pool = [BeckeRTransform(0.0, float(R * g.uniform(0.8, 1.2))).transform_1d_grid(GaussLegendre(n)) for n, R in ((5, 0.8), (7, 1.3), (9, 2.1))]
    pool += [GaussLaguerre(4), GaussLaguerre(6)]
    pool.append(OneDGrid(np.array([0.0, 0.6, 1.9]), np.array([0.3, 0.7, 1.6]), (0, np.inf)))
    pool.append(OneDGrid(np.array([0.9]), np.array([1.4]), (0, np.inf)))
    return pool


def scaled_radial(g, n):
    """Radial grid with exactly n nodes and a random scale (distinguishable from any other one of the same size)."""
    return BeckeRTransform(0.0, float(g.uniform(0.6, 2.0))).transform_1d_grid(GaussLegendre(int(n)))


def random_atgrid(g, rgrid, center):
    mode = int(g.integers(0, 3))
    rot = int(g.choice(ROTS))
    if mode == 0:
        return AtomGrid(rgrid, degrees=[int(g.choice(DEGS))], center=center, rotate=rot)
    if mode == 1:
        return AtomGrid(rgrid, degrees=[int(d) for d in g.choice(DEGS, rgrid.size)], center=center, rotate=rot)
    return AtomGrid(rgrid, None, sizes=[int(s) for s in g.choice(SIZES, rgrid.size)], center=center, rotate=rot)


def bragg_radius(z):
    """Bragg-Slater radius; elements without one take the radius of the preceding element(s) (documented fallback)."""
    k = int(z)
    r = float(get_cov_radii(np.array([k]), "bragg")[0])
    while (np.isnan(r) or r == 0.0) and k > 1:
        k -= 1
        r = float(get_cov_radii(np.array([k]), "bragg")[0])
    return r


def becke_oracle(points, coords, atnums, owner, order=3, chunk=40000):
    """Becke (1988) weight of atom owner[p] at point p: own implementation from the paper, pair by pair."""
    points = np.asarray(points, dtype=float)
    coords = np.asarray(coords, dtype=float)
    n = len(coords)
    out = np.empty(len(points))
    radii = [bragg_radius(z) for z in atnums]
    for lo in range(0, len(points), chunk):
        p = points[lo:lo + chunk]
        own = np.asarray(owner[lo:lo + chunk])
        dist = np.sqrt(((p[:, None, :] - coords[None, :, :]) ** 2).sum(axis=2))
        cell = np.ones((len(p), n))
        for a in range(n):
            for b in range(n):
                if a == b:
                    continue
                mu = (dist[:, a] - dist[:, b]) / math.sqrt(float(((coords[a] - coords[b]) ** 2).sum()))
                u = (radii[a] - radii[b]) / (radii[a] + radii[b])
                aab = min(max(u / (u * u - 1.0), -0.45), 0.45)
                nu = mu + aab * (1.0 - mu * mu)
                for _ in range(order):
                    nu = 1.5 * nu - 0.5 * nu**3
                cell[:, a] *= 0.5 * (1.0 - nu)
        out[lo:lo + chunk] = cell[np.arange(len(p)), own] / cell.sum(axis=1)
    return out


def owners(sizes):
    return np.repeat(np.arange(len(sizes)), sizes)


def test_function(points, coords):
    d2 = ((points - coords[0]) ** 2).sum(axis=1)
    return np.exp(-0.4 * d2) * (1.0 + 0.3 * points[:, 0] - 0.2 * points[:, 1] * points[:, 2]) + 0.05 * np.cos(points[:, 2])


def same(a, b, exact=True, rtol=1e-12, atol=1e-13):
    a = np.asarray(a)
    b = np.asarray(b)
    if a.shape != b.shape:
        return False
    return bool(np.array_equal(a, b)) if exact else bool(np.allclose(a, b, rtol=rtol, atol=atol))


class Recorder:
    """Callable atom-in-molecule weights that remember what they were called with."""

    def __init__(self, values):
        self.values = np.asarray(values, dtype=float)
        self.calls = []

    def __call__(self, points, atcoords, atnums, indices):
        self.calls.append((np.array(points, dtype=float), np.array(atcoords, dtype=float), np.array(atnums), np.array(indices)))
        if len(self.values) != len(points):         # fan-out use: the size is only known now
            i = np.arange(len(points))
            return 0.2 + 0.7 * np.abs(np.sin(1.0 + 0.37 * i))
        return self.values.copy()


def recorder_values(n):
    i = np.arange(n)
    return 0.2 + 0.7 * np.abs(np.sin(1.0 + 0.37 * i))


# ----------------------------------------------------------------------------------------------------------------------
# clause 1-3: layout, weights, integral, views, store independence (hand-built atomic grids)


def molgrid_contract(col, g, natom, aimkind, meta):
    pool = radial_pool(g)
    atnums, coords = rand_molecule(g, natom, list(range(1, ZMAX + 1)))
    pick = g.permutation(len(pool))[:natom]
    atgrids = [random_atgrid(g, pool[int(pick[i])], coords[i]) for i in range(natom)]
    snap = [(a.points.copy(), a.weights.copy()) for a in atgrids]
    sizes = [len(w) for _, w in snap]
    total = int(sum(sizes))
    exp_idx = np.concatenate([[0], np.cumsum(sizes)]).astype(int)
    exp_pts = np.vstack([p for p, _ in snap])
    exp_atw = np.concatenate([w for _, w in snap])
    order = 3
    if aimkind == "array":
        aim_in = g.uniform(0.05, 1.0, total)
        aim_keep = aim_in.copy()
        make_aim = lambda: aim_in                                           # noqa: E731
        aim_exp, aim_exact = aim_keep, True
    elif aimkind == "callable":
        vals = g.uniform(0.05, 1.0, total)
        rec = Recorder(vals)
        make_aim = lambda: rec                                              # noqa: E731
        aim_exp, aim_exact = vals.copy(), True
    else:
        order = 2 if aimkind == "becke2" else 3
        make_aim = lambda: BeckeWeights(order=order)                        # noqa: E731
        aim_exp, aim_exact = becke_oracle(exp_pts, coords, atnums, owners(sizes), order=order), False
    inp = dict(meta, natom=natom, atnums=atnums.tolist(), atcoords=coords.tolist(), atgrid_sizes=sizes, aim=aimkind)
    smp = {"natom": natom, "atgrid_sizes": sizes, "aim": aimkind}
    built = {}

    for store in (False, True):
        tag = f"{aimkind}:store={store}"

        def construct(store=store):
            built[store] = MolGrid(atnums, atgrids, make_aim(), store=store)
            return True, None
        if not col.check(f"MolGrid.__init__:constructs:{tag}", construct, inputs=inp, sample=smp):
            continue
        mg = built[store]

        def layout():
            idx = np.asarray(mg.indices)
            if idx.shape != (natom + 1,) or idx.dtype.kind not in "iu" or not np.array_equal(idx, exp_idx):
                return False, f"index table {idx.tolist()}, prefix sums of the atomic grid sizes are {exp_idx.tolist()}"
            if mg.size != total or mg.points.shape != (total, 3) or mg.weights.shape != (total,):
                return False, f"size {mg.size}, points {mg.points.shape}, weights {mg.weights.shape}; {total} atomic points in all"
            for k in range(natom):
                lo, hi = exp_idx[k], exp_idx[k + 1]
                if not np.array_equal(mg.points[lo:hi], snap[k][0]):
                    return False, f"points[{lo}:{hi}] are not the points of atomic grid {k}"
                if not np.array_equal(mg.atweights[lo:hi], snap[k][1]):
                    return False, f"atweights[{lo}:{hi}] are not the weights of atomic grid {k}"
            if not np.array_equal(mg.atcoords, coords):
                return False, "atcoords are not the centres of the atomic grids in order"
            return True, None
        col.check(f"MolGrid.__init__:layout:{tag}", layout, inputs=inp, sample=smp)

        def aim_ok():
            if not same(mg.aim_weights, aim_exp, exact=aim_exact, rtol=1e-9, atol=1e-12):
                return False, "aim_weights differ from the given array / the values returned by the weight function / Becke's weights"
            if aimkind == "callable":
                p, c, z, i = rec.calls[-1]
                if not (np.array_equal(p, exp_pts) and np.array_equal(c, coords) and np.array_equal(z, atnums) and np.array_equal(i, exp_idx)):
                    return False, "the weight function was not called with (all points, centres, atomic numbers, index table)"
            if not same(mg.weights, exp_atw * aim_exp, exact=False, rtol=1e-14 if aim_exact else 1e-9, atol=0 if aim_exact else 1e-13):
                k = int(np.argmax(np.abs(mg.weights - exp_atw * aim_exp)))
                return False, f"weights[{k}] = {mg.weights[k]!r}, atomic weight times aim weight = {exp_atw[k] * aim_exp[k]!r}"
            return True, None
        col.check(f"MolGrid.__init__:weights-product:{tag}", aim_ok, inputs=inp, sample=smp)

        def integral():
            fv = test_function(mg.points, coords)
            got = float(mg.integrate(fv))
            want, scale = 0.0, 0.0
            for k in range(natom):
                lo, hi = exp_idx[k], exp_idx[k + 1]
                fk = test_function(snap[k][0], coords)
                want += float(atgrids[k].integrate(aim_exp[lo:hi] * fk))
                scale += float(np.sum(np.abs(snap[k][1] * aim_exp[lo:hi] * fk)))
            tol = (1e-12 if aim_exact else 1e-8) * scale
            if not abs(got - want) <= tol:
                return False, f"molecular integral {got!r}, sum of the atomic integrals of w_A f {want!r}"
            return True, None
        col.check(f"integrate:sum-of-atomic-integrals:{tag}", integral, inputs=inp, sample=smp)

        def untouched():
            for k in range(natom):
                if not (np.array_equal(atgrids[k].points, snap[k][0]) and np.array_equal(atgrids[k].weights, snap[k][1])):
                    return False, f"atomic grid {k} was modified by the constructor"
            if aimkind == "array" and not np.array_equal(aim_in, aim_keep):
                return False, "the aim weight array was modified"
            if store:
                if mg.atgrids is None or len(mg.atgrids) != natom or any(mg.atgrids[k] is not atgrids[k] for k in range(natom)):
                    return False, "store=True does not keep the given atomic grids in order"
            elif mg.atgrids is not None:
                return False, "store=False keeps atomic grids"
            return True, None
        col.check(f"MolGrid.__init__:inputs-and-store:{tag}", untouched, inputs=inp, sample=smp)

        # per-atom views against the hand-built atomic grids
        def view(getter, what):
            def fn():
                for k in range(natom):
                    for kk in (k, np.int64(k)):
                        v = getter(kk)
                        if what == "points":
                            if not np.array_equal(v.points, snap[k][0]) or v.size != sizes[k]:
                                return False, f"atom {k}: points of the grid handed back are not those of atomic grid {k}"
                            if not np.array_equal(np.asarray(v.center), coords[k]):
                                return False, f"atom {k}: centre {v.center}, expected {coords[k]}"
                        elif not np.array_equal(v.weights, snap[k][1]):
                            j = int(np.argmax(np.abs(v.weights - snap[k][1]))) if v.weights.shape == snap[k][1].shape else -1
                            return False, (f"atom {k}: weights of the grid handed back differ from the weights of atomic grid {k}"
                                           f" (e.g. [{j}] {v.weights[j]!r} vs {snap[k][1][j]!r})")
                return True, None
            return fn
        col.check(f"get_atomic_grid:points-centre:{tag}", view(mg.get_atomic_grid, "points"), inputs=inp, sample=smp)
        col.check(f"get_atomic_grid:weights:{tag}", view(mg.get_atomic_grid, "weights"), inputs=inp, sample=smp)
        col.check(f"__getitem__:points-centre:{tag}", view(mg.__getitem__, "points"), inputs=inp, sample=smp)
        col.check(f"__getitem__:weights:{tag}", view(mg.__getitem__, "weights"), inputs=inp, sample=smp)

    if False in built and True in built:
        a, b = built[False], built[True]

        def indep():
            for name in ("points", "weights", "atweights", "aim_weights", "indices", "atcoords"):
                if not np.array_equal(getattr(a, name), getattr(b, name)):
                    return False, f"{name} depends on the store flag"
            fv = test_function(exp_pts, coords)
            if a.integrate(fv) != b.integrate(fv) or a.size != b.size:
                return False, "integral or size depends on the store flag"
            for k in range(natom):
                ga, gb = a.get_atomic_grid(k), b.get_atomic_grid(k)
                if not (np.array_equal(ga.points, gb.points) and np.array_equal(ga.weights, gb.weights) and np.array_equal(ga.center, gb.center)):
                    return False, f"get_atomic_grid({k}) depends on the store flag"
            return True, None
        col.check(f"store-independence:{aimkind}", indep, inputs=inp, sample=smp)

    def rejects():
        for bad in (1, total - 1, total + 1):
            try:
                MolGrid(atnums, atgrids, np.full(bad, 0.5))
            except Exception:  # noqa: BLE001
                continue
            return False, f"an aim weight array of {bad} entries was accepted for {total} points"
        return True, None
    if aimkind == "array":
        col.check("MolGrid.__init__:mis-sized-aim-array", rejects, inputs=inp)


# ----------------------------------------------------------------------------------------------------------------------
# clause 4: constructors = hand-built atomic grids with the same arguments


def default_radial_by_hand(z):
    """Default radial grid of element z, taken from the atomic-grid module (separate code path from molgrid's helper)."""
    return AtomGrid.from_preset(int(z), preset="coarse", rgrid=None).rgrid


def compare_with_hand(mg, atnums, coords, hand, aimkind, aim_obj, store, exact, expect_rgrids=None):
    natom = len(hand)
    sizes = [h.size for h in hand]
    total = int(sum(sizes))
    idx = np.concatenate([[0], np.cumsum(sizes)]).astype(int)
    pts = np.vstack([h.points for h in hand])
    atw = np.concatenate([h.weights for h in hand])
    if not np.array_equal(np.asarray(mg.indices), idx):
        return False, f"index table {np.asarray(mg.indices).tolist()}; hand-built atomic grids have sizes {sizes}"
    if mg.size != total:
        return False, f"size {mg.size}, hand-built {total}"
    for k in range(natom):
        lo, hi = idx[k], idx[k + 1]
        if not same(mg.points[lo:hi], pts[lo:hi], exact=exact):
            return False, f"points of atom {k} (Z={int(atnums[k])}) differ from the hand-built atomic grid"
        if not same(mg.atweights[lo:hi], atw[lo:hi], exact=exact, rtol=1e-11, atol=1e-300):
            return False, f"atomic weights of atom {k} (Z={int(atnums[k])}) differ from the hand-built atomic grid"
    if not np.array_equal(mg.atcoords, coords):
        return False, "atcoords differ from the given coordinates"
    if aimkind == "array":
        aim = aim_obj
        if not np.array_equal(mg.aim_weights, aim):
            return False, "aim weights are not the given array"
    elif aimkind == "callable":
        aim = recorder_values(total)
        p, c, z, i = aim_obj.calls[-1]
        if not (same(p, pts, exact=exact) and np.array_equal(c, coords) and np.array_equal(z, atnums) and np.array_equal(i, idx)):
            return False, "the weight function was not called with (all points, centres, atomic numbers, index table)"
        if not np.array_equal(mg.aim_weights, aim):
            return False, "aim weights are not what the weight function returned"
    else:
        aim = becke_oracle(pts, coords, atnums, owners(sizes), order=3)
        if not same(mg.aim_weights, aim, exact=False, rtol=1e-8, atol=1e-11):
            k = int(np.argmax(np.abs(mg.aim_weights - aim)))
            return False, f"default aim weights are not third-order Becke weights (index {k}: {mg.aim_weights[k]!r} vs {aim[k]!r})"
    if not same(mg.weights, atw * aim, exact=False, rtol=1e-8, atol=1e-14 * float(np.max(np.abs(atw)))):
        return False, "weights are not atomic weights times aim weights of the hand-built construction"
    if store:
        if mg.atgrids is None or len(mg.atgrids) != natom:
            return False, "store=True did not keep one atomic grid per atom"
        for k in range(natom):
            s = mg.atgrids[k]
            if not (same(s.points, hand[k].points, exact=exact) and same(s.weights, hand[k].weights, exact=exact, rtol=1e-11, atol=1e-300)
                    and np.array_equal(np.asarray(s.degrees), np.asarray(hand[k].degrees)) and np.array_equal(s.center, coords[k])):
                return False, f"stored atomic grid {k} differs from the hand-built one"
            if expect_rgrids is not None and expect_rgrids[k] is not None and s.rgrid is not expect_rgrids[k]:
                return False, f"stored atomic grid {k} was not built on the radial grid selected for atom {k}"
    elif mg.atgrids is not None:
        return False, "store=False keeps atomic grids"
    for k in range(natom):
        v = mg.get_atomic_grid(k)
        if not (same(v.points, hand[k].points, exact=exact) and same(v.weights, hand[k].weights, exact=exact, rtol=1e-11, atol=1e-300)
                and np.array_equal(np.asarray(v.center), coords[k])):
            return False, f"get_atomic_grid({k}) differs from the hand-built atomic grid"
    return True, None


def select_rgrids(g, kind, atnums, sizes_needed=None):
    """(argument, per-atom expected radial grids or None for the default)."""
    natom = len(atnums)
    pool = radial_pool(g)
    if kind == "single":
        r = pool[int(g.integers(0, 5))]
        return r, [r] * natom
    if kind == "list":
        order = g.permutation(len(pool))
        lst = [pool[int(order[k % len(pool)])] for k in range(natom)]
        if sizes_needed is not None:
            lst = [scaled_radial(g, sizes_needed[k]) if sizes_needed[k] else lst[k] for k in range(natom)]
        return lst, list(lst)
    if kind == "dict":
        dct = {}
        for k, z in enumerate(atnums):
            if int(z) not in dct:
                n = sizes_needed[k] if sizes_needed is not None and sizes_needed[k] else int(g.integers(3, 9))
                dct[int(z)] = scaled_radial(g, n)
        dct[119] = pool[6]          # an entry that must not be used
        return dct, [dct[int(z)] for z in atnums]
    return None, [None] * natom


def aim_argument(kind, total_hint=None):
    return Recorder(np.zeros(0)) if kind == "callable" else None


def fanout_inputs(meta, **kw):
    out = dict(meta)
    out.update({k: (v.tolist() if isinstance(v, np.ndarray) else v) for k, v in kw.items()})
    return out


def from_size_contract(col, g, natom, rkind, aimkind, store, meta):
    light = [1, 2, 5, 7, 1, 6, 8]
    atnums, coords = rand_molecule(g, natom, light if rkind == "none" else list(range(1, ZMAX + 1)))
    size = int(g.choice((SIZES[:4] + SIZES[5:]) if rkind != "none" else [6, 14, 20]))
    rot = int(g.choice(ROTS))
    rarg, rexp = select_rgrids(g, rkind, atnums)
    inp = fanout_inputs(meta, constructor="from_size", atnums=atnums, atcoords=coords, size=size, rgrid=rkind, aim=aimkind, rotate=rot, store=store)

    def chk():
        hand = [AtomGrid(rexp[k] if rexp[k] is not None else default_radial_by_hand(atnums[k]), degrees=None, sizes=[size],
                         center=coords[k], rotate=rot) for k in range(natom)]
        total = sum(h.size for h in hand)
        aim = recorder_values(total)[::-1].copy() if aimkind == "array" else aim_argument(aimkind)
        mg = MolGrid.from_size(atnums, coords, size, rgrid=rarg, aim_weights=aim, rotate=rot, store=store)
        return compare_with_hand(mg, atnums, coords, hand, aimkind, aim, store, exact=rkind != "none", expect_rgrids=rexp)
    col.check(f"from_size:rgrid={rkind}:aim={aimkind}:store={store}", chk, inputs=inp,
              sample={"constructor": "from_size", "atnums": atnums.tolist(), "size": size, "rgrid": rkind, "aim": aimkind, "store": store})


def nrad_of(preset, z):
    data = np.load(files("grid.data.prune_grid").joinpath(f"prune_grid_{preset}.npz"))
    return int(np.sum(data[f"{int(z)}_rad"]))


def from_preset_contract(col, g, natom, pkind, rkind, aimkind, store, meta):
    allow_nrad = rkind == "list" or (rkind == "dict" and pkind in ("str", "dict"))
    if rkind == "none":
        names = ["coarse", "medium", "sg_1"]
        atnums, coords = rand_molecule(g, natom, [1, 2, 3, 5, 6, 7, 8, 9, 1, 6])
    else:
        names = ["coarse", "medium", "fine", "sg_1", "ultrafine"] + (["sg_0", "g1", "sg_2", "g3"] if allow_nrad else [])
        atnums, coords = rand_molecule(g, natom, list(range(1, 19)))
    if natom > 2 and g.random() < 0.7:
        atnums[-1] = atnums[0]                       # a repeated element: list entries differ where dict entries cannot
    if pkind == "str":
        p = str(g.choice(names))
        parg, pexp = p, [p] * natom
    elif pkind == "list":
        pexp = [str(x) for x in g.choice(names, natom)]
        parg = list(pexp)
    else:
        parg = {}
        for z in atnums:
            parg.setdefault(int(z), str(g.choice(names)))
        pexp = [parg[int(z)] for z in atnums]
        parg[119] = "insane"
    need = [nrad_of(pexp[k], atnums[k]) if pexp[k] in PRESETS_NRAD else 0 for k in range(natom)]
    rarg, rexp = select_rgrids(g, rkind, atnums, sizes_needed=need)
    rot = int(g.choice(ROTS))
    inp = fanout_inputs(meta, constructor="from_preset", atnums=atnums, atcoords=coords, preset=pexp, preset_arg=pkind, rgrid=rkind,
                        rgrid_sizes=[None if r is None else int(r.size) for r in rexp], aim=aimkind, rotate=rot, store=store)

    def chk():
        hand = [AtomGrid.from_preset(atnum=int(atnums[k]), preset=pexp[k], rgrid=rexp[k], center=coords[k], rotate=rot) for k in range(natom)]
        total = sum(h.size for h in hand)
        aim = recorder_values(total)[::-1].copy() if aimkind == "array" else aim_argument(aimkind)
        mg = MolGrid.from_preset(atnums, coords, parg, rgrid=rarg, aim_weights=aim, rotate=rot, store=store)
        return compare_with_hand(mg, atnums, coords, hand, aimkind, aim, store, exact=rkind != "none", expect_rgrids=rexp)
    col.check(f"from_preset:preset={pkind}:rgrid={rkind}:store={store}", chk, inputs=inp,
              sample={"constructor": "from_preset", "atnums": atnums.tolist(), "preset": pexp, "rgrid": rkind, "aim": aimkind, "store": store})


def from_pruned_contract(col, g, natom, radkind, seckind, rkind, aimkind, store, meta):
    atnums, coords = rand_molecule(g, natom, [1, 2, 5, 6, 7, 8] if rkind == "none" else list(range(1, ZMAX + 1)))
    if natom > 2 and g.random() < 0.7:
        atnums[-1] = atnums[0]
    rot = int(g.choice(ROTS))
    rarg, rexp = select_rgrids(g, rkind, atnums)
    if radkind == "float":
        radius = float(g.uniform(0.4, 1.5))
        rad_exp = [radius] * natom
    else:
        radius = [float(x) for x in g.uniform(0.4, 1.5, natom)]
        rad_exp = list(radius)
    nsec = [int(g.integers(0, 4)) for _ in range(natom)]
    if natom > 1:
        nsec[int(g.integers(0, natom))] = 0          # one atom without any sector boundary
    r_sectors = [sorted(float(x) for x in g.uniform(0.2, 3.0, n)) for n in nsec]
    small_d = DEGS[:4] if rkind == "none" else DEGS
    small_s = SIZES[:3] if rkind == "none" else SIZES
    d_lists = [[int(x) for x in g.choice(small_d, n + 1)] for n in nsec]
    s_lists = [[int(x) for x in g.choice(small_s, n + 1)] for n in nsec]
    d_int = int(g.choice(small_d))
    kwargs, hand_d, hand_s = {}, [None] * natom, [None] * natom
    if seckind == "degrees":
        kwargs["d_sectors"] = d_lists
        hand_d = d_lists
    elif seckind == "sizes":
        kwargs["s_sectors"] = s_lists
        hand_s = s_lists
    elif seckind == "degrees+sizes":                 # sizes win
        kwargs["d_sectors"] = d_lists
        kwargs["s_sectors"] = s_lists
        hand_d, hand_s = d_lists, s_lists
    elif seckind == "int-degree+sizes":
        kwargs["d_sectors"] = d_int
        kwargs["s_sectors"] = s_lists
        hand_s = s_lists
    else:                                            # "int-degree": the same degree for all sectors of all atoms
        kwargs["d_sectors"] = d_int
        hand_d = [[d_int] * (n + 1) for n in nsec]
    inp = fanout_inputs(meta, constructor="from_pruned", atnums=atnums, atcoords=coords, radius=radius, r_sectors=r_sectors,
                        sector_arguments={k: v for k, v in kwargs.items()}, rgrid=rkind, aim=aimkind, rotate=rot, store=store)

    def build(aim):
        return MolGrid.from_pruned(atnums, coords, radius, r_sectors, rgrid=rarg, aim_weights=aim, rotate=rot, store=store, **kwargs)

    def hand_grids():
        return [AtomGrid.from_pruned(rexp[k] if rexp[k] is not None else default_radial_by_hand(atnums[k]), rad_exp[k], r_sectors=r_sectors[k],
                                     d_sectors=hand_d[k], s_sectors=hand_s[k], center=coords[k], rotate=rot) for k in range(natom)]

    def chk():
        hand = hand_grids()
        total = sum(h.size for h in hand)
        aim = recorder_values(total)[::-1].copy() if aimkind == "array" else aim_argument(aimkind)
        mg = build(aim)
        return compare_with_hand(mg, atnums, coords, hand, aimkind, aim, store, exact=rkind != "none", expect_rgrids=rexp)
    cid = f"from_pruned:radius={radkind}:sectors={seckind}:rgrid={rkind}" if seckind != "int-degree" else f"from_pruned:sectors={seckind}:rgrid={rkind}"
    ok = col.check(cid, chk, inputs=inp,
                   sample={"constructor": "from_pruned", "atnums": atnums.tolist(), "sectors": seckind, "rgrid": rkind, "radius": radkind, "store": store})
    if not ok and seckind == "int-degree" and col.last_failure is not None:
        # signature of the recorded defect: a plain integer d_sectors (the default!) is handed on as a 0-d value and len() fails
        try:
            hand_grids()
            try:
                build(None)
                sig = False
            except TypeError as e:
                sig = "unsized" in str(e)
        except Exception:  # noqa: BLE001
            sig = False
        if sig:
            col.last_failure["case_id"] = cid + ":known-int-d-sectors-unsized"


def default_rgrid_contract(col, z, with_atomgrid):
    if _generate_default_rgrid is None or _RPARAMS is None or z not in _RPARAMS:
        return

    def chk():
        rg = _generate_default_rgrid(z)
        rmin, rmax, n = _RPARAMS[z]
        bohr = scipy.constants.value("atomic unit of length") / scipy.constants.angstrom
        rmin, rmax = rmin / bohr, rmax / bohr
        p = math.log(rmax / rmin) / math.log(n)
        i = np.arange(1, n + 1, dtype=float)
        if rg.size != n or not np.allclose(rg.points, rmin * i**p, rtol=1e-10, atol=0):
            return False, f"Z={z}: nodes are not rmin (i+1)^p with r(n-1) = rmax, {n} nodes"
        if not np.allclose(rg.weights, rmin * p * i ** (p - 1.0), rtol=1e-10, atol=0):
            return False, f"Z={z}: weights are not dr/di"
        if not (abs(rg.points[0] - rmin) <= 1e-10 * rmin and abs(rg.points[-1] - rmax) <= 1e-10 * rmax):
            return False, f"Z={z}: end points {rg.points[0]!r}, {rg.points[-1]!r}; tabulated {rmin!r}, {rmax!r} bohr"
        for zz in (np.int64(z), int(z)):
            r2 = _generate_default_rgrid(zz)
            if not (np.array_equal(r2.points, rg.points) and np.array_equal(r2.weights, rg.weights)):
                return False, f"Z={z}: repeated calls / integer types disagree"
        if with_atomgrid:
            ref = default_radial_by_hand(z)
            if not (np.allclose(rg.points, ref.points, rtol=1e-12, atol=0) and np.allclose(rg.weights, ref.weights, rtol=1e-12, atol=0)):
                return False, f"Z={z}: differs from the default radial grid of AtomGrid.from_preset"
        return True, None
    col.check(f"_generate_default_rgrid:Z={z}", chk, inputs={"atnum": z})


def nrad_preset_default_contract(col, preset, z, meta):
    """Presets that need a tabulated number of radial nodes: with rgrid=None the molecular constructor behaves as the atomic one."""
    coords = np.array([[0.0, 0.1, -0.2], [0.3, 0.0, 1.6]])
    atnums = np.array([z, 1])

    def chk():
        try:
            hand = [AtomGrid.from_preset(atnum=int(atnums[k]), preset=preset, rgrid=None, center=coords[k], rotate=37) for k in range(2)]
        except Exception as e:  # noqa: BLE001
            try:
                MolGrid.from_preset(atnums, coords, preset, rotate=37)
            except type(e):
                return True, None
            return False, f"the atomic constructor rejects the default radial grid ({type(e).__name__}) but the molecular one does not"
        mg = MolGrid.from_preset(atnums, coords, preset, rotate=37)
        return compare_with_hand(mg, atnums, coords, hand, "becke", None, False, exact=False)
    col.check(f"from_preset:default-rgrid:{preset}", chk, inputs=dict(meta, preset=preset, atnums=atnums.tolist(), atcoords=coords.tolist()))


# ----------------------------------------------------------------------------------------------------------------------
# clause 5: end to end


def density(points, coords, gauss):
    out = np.zeros(len(points))
    for cen, alpha, q in gauss:
        r2 = ((points - coords[int(cen)]) ** 2).sum(axis=1)
        out += q * (alpha / np.pi) ** 1.5 * np.exp(-alpha * r2)
    return out


def end_to_end_contract(col, preset, atnums, coords, gauss, tag, meta, rotate=None):
    """rotate=None: the constructor's own default rotation seed (documented as 37)."""
    atnums = np.asarray(atnums, dtype=int)
    coords = np.asarray(coords, dtype=float)
    gauss = [(int(c), float(a), float(q)) for c, a, q in gauss]
    charge = float(sum(q for _, _, q in gauss))
    inp = dict(meta, preset=preset, atnums=atnums.tolist(), atcoords=coords.tolist(), gaussians=gauss, tag=tag, rotate=rotate)
    state = {}
    rkw = {} if rotate is None else {"rotate": int(rotate)}
    rot = 37 if rotate is None else int(rotate)

    def chk():
        mg = MolGrid.from_preset(atnums, coords, preset, **rkw)
        val = float(mg.integrate(density(mg.points, coords, gauss)))
        state["err"] = abs(val - charge) / charge
        if not state["err"] <= 0.01:
            return False, f"integral {val:.8g} of a Gaussian density of total charge {charge:.8g}: relative error {state['err']:.3%} > 1 %"
        return True, None
    cid = f"end-to-end:{preset}:{tag}"
    ok = col.check(cid, chk, inputs=inp, sample={"preset": preset, "atnums": atnums.tolist(), "n_gaussians": len(gauss), "tag": tag})
    if ok or col.last_failure is None or not (0.01 < state.get("err", 1.0) <= 0.04):
        return
    # Signature of the recorded finding: the grid IS the documented construction (atomic preset grids on the default radial grids, rotation
    # seed 37, third-order Becke weights with Bragg-Slater radii - all recomputed here), the error is a few percent, and it disappears when
    # nothing but the angular pruning of the preset is lifted (same radial grids, degree 41 on every shell).
    try:
        mg = MolGrid.from_preset(atnums, coords, preset, **rkw)
        hand = [AtomGrid.from_preset(atnum=int(atnums[k]), preset=preset, rgrid=None, center=coords[k], rotate=rot) for k in range(len(atnums))]
        pts = np.vstack([h.points for h in hand])
        w = np.concatenate([h.weights for h in hand]) * becke_oracle(pts, coords, atnums, owners([h.size for h in hand]))
        sig = mg.size == len(w) and np.allclose(mg.points, pts, rtol=1e-10, atol=1e-12) and np.allclose(mg.weights, w, rtol=1e-7, atol=1e-13 * np.max(np.abs(w)))
        if sig:
            full = [AtomGrid(h.rgrid, degrees=[41], center=h.center, rotate=rot) for h in hand]
            fp = np.vstack([h.points for h in full])
            fw = np.concatenate([h.weights for h in full]) * becke_oracle(fp, coords, atnums, owners([h.size for h in full]))
            ref = float(np.dot(fw, density(fp, coords, gauss)))
            sig = abs(ref - charge) <= 0.0025 * charge
    except Exception:  # noqa: BLE001
        sig = False
    if sig:
        col.last_failure["case_id"] = cid + ":known-preset-angular-pruning"


def random_gaussians(g, natom, k):
    m = int(g.integers(1, 2 * natom + 1))
    cen = g.integers(0, natom, m)
    alpha = np.exp(g.uniform(np.log(0.3), np.log(30.0), m))
    q = g.uniform(0.2, 3.0, m)
    if k % 2 == 0:
        alpha[0] = 30.0
    if k % 4 == 1:
        alpha[-1] = 0.3
    return [(int(c), float(a), float(x)) for c, a, x in zip(cen, alpha, q)]


# light atom next to an atom with a large Bragg-Slater radius: the cell boundary is pushed into the light atom's core region
STRESS = [("coarse", 1, 11, 1.2, 10.0), ("sg_1", 1, 4, 1.2, 30.0), ("medium", 5, 11, 1.3, 10.0), ("veryfine", 1, 11, 1.2, 17.0),
          ("coarse", 7, 12, 1.5, 5.0), ("medium", 1, 19, 1.3, 17.0), ("fine", 1, 11, 1.2, 10.0), ("ultrafine", 1, 11, 1.2, 10.0),
          ("insane", 1, 11, 1.2, 10.0), ("sg_1", 9, 4, 1.2, 30.0), ("coarse", 1, 5, 1.2, 10.0), ("coarse", 5, 11, 1.2, 10.0)]


def end_to_end_family(col, g, tier, meta):
    reps = 1 if tier == "quick" else 24
    for preset in PRESETS_DEFAULT:
        for natom in range(1, 6):
            for rep in range(reps):
                k = natom + 5 * rep
                atnums, coords = rand_molecule(g, natom, zpool(preset), close_pair=(k % 3 == 0))
                rotate = None if rep % 3 == 0 else int(g.choice(ROTS))
                end_to_end_contract(col, preset, atnums, coords, random_gaussians(g, natom, k), f"{natom}-atoms", meta, rotate=rotate)
        if tier != "quick" and preset != "sg_1":
            pool = heavy_pool(preset)
            for k in range(10):             # elements beyond krypton that have a default radial grid, mixed with light ones
                natom = 1 + k % 5
                atnums, coords = rand_molecule(g, natom, pool + [1, 6, 8], close_pair=(k % 3 == 0))
                end_to_end_contract(col, preset, atnums, coords, random_gaussians(g, natom, k), f"{natom}-atoms-heavy", meta)
    for preset, z1, z2, d, alpha in (STRESS[:3] if tier == "quick" else STRESS):
        coords = np.array([[0.1, -0.2, 0.3], [0.1, -0.2, 0.3 + d]])
        end_to_end_contract(col, preset, [z1, z2], coords, [(0, alpha, 1.0)], f"close-pair-Z{z1}-Z{z2}", meta)


# ----------------------------------------------------------------------------------------------------------------------


AIMKINDS = ["array", "callable", "becke", "becke2"]
FAMILIES = ("molgrid", "from_size", "from_preset", "from_pruned", "default_rgrid", "end-to-end")


def _run(tier, seed, only=None):
    col = Collector("real MolGrid on random molecules (1-5 atoms, Z<=36, heteronuclear, repeated elements) built from hand-made AtomGrids of "
                    "pairwise different radial sizes (incl. an r=0 node and a single shell; one degree / per-shell degrees / per-shell sizes; "
                    "rotation seeds 0,1,37,99,2^20+3) with array / recording-callable / Becke(order 2,3) weights and store on/off: index table, "
                    "segments, weights = atomic x aim (own Becke oracle), integral = sum of atomic integrals, per-atom views vs the hand-built "
                    "grids; from_size / from_preset / from_pruned against atomic grids built by hand for every argument form (rgrid single / list "
                    "/ dict / default, preset str / list / dict incl. fixed-radial-size presets, radius float / list, degree / size / integer "
                    "sectors); default radial grid vs closed form for every tabulated Z; end to end: presets accepting the default radial grids "
                    "x 1-5 atoms >= 1.2 bohr apart x Gaussians of exponent 0.3-30, plus close light/large-radius pairs; "
                    "distinct = (function or clause, argument form, store)")
    quick = tier == "quick"
    meta = {"seed": int(seed), "tier": tier}
    want = (lambda fam: only is None or fam in only)                        # noqa: E731

    if want("molgrid"):
        g = rng(seed, "C07-molgrid")
        for rep in range(3 if quick else 12):
            for i, aimkind in enumerate(AIMKINDS):
                for natom in (1, 2, 3, 4, 5):
                    molgrid_contract(col, g, natom, aimkind, dict(meta, family="molgrid"))

    if want("from_size"):
        g = rng(seed, "C07-from_size")
        for rep in range(3 if quick else 10):
            k = 0
            for rkind in ("single", "none"):
                for aimkind in ("becke", "array", "callable"):
                    for store in (False, True):
                        natom = 1 + (k + rep) % 4 if rkind == "single" else 1 + (k + rep) % 3
                        from_size_contract(col, g, natom, rkind, aimkind, store, dict(meta, family="from_size"))
                        k += 1

    if want("from_preset"):
        g = rng(seed, "C07-from_preset")
        for rep in range(3 if quick else 10):
            k = 0
            for pkind in ("str", "list", "dict"):
                for rkind in ("single", "list", "dict", "none"):
                    for store in (False, True):
                        aimkind = ("becke", "array", "callable")[(k + rep) % 3]
                        natom = (3, 2, 4, 1, 3)[(k + rep) % 5] if rkind != "none" else (2, 3, 1)[(k + rep) % 3]
                        from_preset_contract(col, g, natom, pkind, rkind, aimkind, store, dict(meta, family="from_preset"))
                        k += 1
        for preset in PRESETS_NRAD:
            nrad_preset_default_contract(col, preset, 8, dict(meta, family="from_preset"))

    if want("from_pruned"):
        g = rng(seed, "C07-from_pruned")
        for rep in range(3 if quick else 10):
            k = 0
            for seckind in ("degrees", "sizes", "degrees+sizes", "int-degree+sizes", "int-degree"):
                for rkind in ("single", "list", "dict", "none"):
                    radkind = ("float", "list")[(k + rep) % 2]
                    aimkind = ("becke", "array", "callable")[(k + rep) % 3]
                    store = bool((k // 2 + rep) % 2)
                    natom = (3, 2, 4, 1, 5)[(k + rep) % 5] if rkind != "none" else (2, 3, 1)[(k + rep) % 3]
                    from_pruned_contract(col, g, natom, radkind, seckind, rkind, aimkind, store, dict(meta, family="from_pruned"))
                    k += 1
            # the other radius form for the plain degree sectors
            for rkind in ("single", "list"):
                from_pruned_contract(col, g, 3, ("list", "float")[rep % 2], "degrees", rkind, "becke", bool(rep % 2), dict(meta, family="from_pruned"))

    if want("default_rgrid") and _RPARAMS is not None:
        zs = sorted(_RPARAMS)
        for j, z in enumerate(zs):
            default_rgrid_contract(col, z, with_atomgrid=(not quick) or j % 3 == seed % 3)

    if want("end-to-end"):
        end_to_end_family(col, rng(seed, "C07-end-to-end"), tier, dict(meta, family="end-to-end"))
    return col


def run(tier, seed, *rest):
    return _run(tier, seed).result()


def _first(failures, prefer_unknown=True):
    if not failures:
        return None
    if prefer_unknown:
        for f in failures:
            if ":known-" not in f["case_id"]:
                return f
    return failures[0]


def _families_for(text):
    t = text.lower()
    fams = []
    if any(w in t for w in ("getitem", "get_atomic_grid", "view", "init", "indices", "prefix", "integrate", "store", "weights")):
        fams.append("molgrid")
    for name in ("from_size", "from_preset", "from_pruned"):
        if name in t:
            fams.append(name)
    if "rgrid" in t:
        fams += ["default_rgrid", "from_size"]
    if "end-to-end" in t or "charge" in t:
        fams.append("end-to-end")
    return list(dict.fromkeys(fams))


def replay(req):
    text = str(req.get("obligation", "")) + " " + str(req.get("spec", ""))
    fams = _families_for(text)
    focused = bool(fams)          # recorded (":known-") behaviour is only reported for an obligation about the same functions
    if not fams:
        fams = ["molgrid", "from_size", "from_preset", "from_pruned", "default_rgrid"]
    seed = int(req.get("seed", 0) or 0)
    evaluations, known = 0, None
    for s in (seed, seed + 1, seed + 2):
        col = _run("quick", s, only=set(fams))
        evaluations += col.evaluations
        f = _first([x for x in col.failures if ":known-" not in x["case_id"]])
        if f is not None:
            return {"failed": True, "case_id": f["case_id"], "detail": f["detail"], "input": f["input"]}
        if focused and known is None and col.failures:
            known = col.failures[0]
    if known is not None:
        return {"failed": True, "case_id": known["case_id"], "detail": known["detail"], "input": known["input"]}
    return {"failed": False, "detail": f"{evaluations} native contract evaluations passed"}


def replay_case(case):
    cid = str(case.get("case_id", ""))
    base = cid.split(":known-")[0]
    inp = case.get("input") or {}
    if isinstance(inp, dict) and "gaussians" in inp:
        col = Collector("replay-case")
        end_to_end_contract(col, inp["preset"], inp["atnums"], inp["atcoords"], inp["gaussians"], inp.get("tag", "replay"), {}, rotate=inp.get("rotate"))
    else:
        fam = inp.get("family") if isinstance(inp, dict) else None
        if fam is None:
            head = base.split(":")[0]
            fam = {"from_size": "from_size", "from_preset": "from_preset", "from_pruned": "from_pruned", "_generate_default_rgrid": "default_rgrid",
                   "end-to-end": "end-to-end"}.get(head, "molgrid")
        seed = int(inp.get("seed", 0)) if isinstance(inp, dict) else 0
        tier = inp.get("tier", "quick") if isinstance(inp, dict) else "quick"
        col = _run(tier, seed, only={fam})
    fails = [f for f in col.failures if f["case_id"].split(":known-")[0] == base] or col.failures
    if fails:
        f = fails[0]
        return {"failed": True, "case_id": f["case_id"], "detail": f["detail"], "input": f["input"]}
    return {"failed": False}
