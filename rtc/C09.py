"""Bounded run-time contracts for C09 (harmonic decomposition / interpolation on atomic grids), native NumPy/SciPy.

Oracles (independent of the library's recursions, angle conventions and chain rule):

  * real spherical harmonics written as *Cartesian polynomials* on the unit vector u = (x, y, z),
        Y_{l,0} = N_l0 P_l(z),  Y_{l,+m} = sqrt2 N_lm d^m P_l/dz^m (z) Re (x+iy)^m,  Y_{l,-m} = ... Im (x+iy)^m,
        N_lm = sqrt((2l+1)/(4 pi) (l-m)!/(l+m)!)        (no Condon-Shortley phase, rows m = 0, 1, -1, 2, -2, ...: the
    documented definition and order), with own gradients  grad Y(p/|p|) = (1 - u u^T)/r grad_u Y;  being polynomials they
    are regular on the z-axis, which is where the library's angle based chain rule is delicate;
  * band-limited test functions  f(c + r u) = sum_{l <= L} g_lm(r) Y_lm(u)  with random radial factors
    g_lm(r) = r^p (a0 + a1 r + a2 r^2) exp(-b r), so that every angular integral / projection is known in closed form;
  * Cartesian polynomials of total degree <= min(3, L): band-limited about EVERY centre with cubic radial factors, hence
    reproduced exactly (values, gradient, radial derivatives) by spline x harmonic interpolation at every point of space,
    also by molecular grids whose atom-in-molecule weights are constant per atom (assumed contract of SciPy: the default
    not-a-knot CubicSpline reproduces cubics; tolerances carry the noise  accuracy-of-the-angular-tables / knot spacing);
  * brute-force shell sums with the weights of a freshly built AngularGrid; central differences of the interpolant itself.

Every check is a postcondition of the property statement evaluated on the real AtomGrid / MolGrid.
"""
import os

os.environ.setdefault("OMP_NUM_THREADS", "1")
os.environ.setdefault("OPENBLAS_NUM_THREADS", "1")
os.environ.setdefault("MKL_NUM_THREADS", "1")

import math  # noqa: E402
import warnings  # noqa: E402

import numpy as np  # noqa: E402
from numpy.polynomial import legendre as npleg  # noqa: E402

from grid.angular import AngularGrid  # noqa: E402
from grid.atomgrid import AtomGrid  # noqa: E402
from grid.basegrid import OneDGrid  # noqa: E402
from grid.becke import BeckeWeights  # noqa: E402
from grid.molgrid import MolGrid  # noqa: E402
from grid.onedgrid import ClenshawCurtis, GaussLegendre  # noqa: E402
from grid.rtransform import BeckeRTransform, LinearFiniteRTransform  # noqa: E402
from rtc.common import Collector, rng  # noqa: E402

warnings.simplefilter("ignore")

SQ4PI = math.sqrt(4.0 * math.pi)
TOL = 1e-10            # recovery tolerance of the plan (relative to the size of the function); measured noise <= 3e-13
TOL_D = 1e-9           # analytic derivative comparisons (relative to the natural scale of the gradient)
TOL_FD = 2e-6          # central differences of the interpolant itself
L_CAP = 6              # the plan: random band-limited functions with l <= 6

# supported degrees used to draw grids (ahrens_beylkin 39 is a recorded C02 data finding: not used here)
DEGREES = {
    "lebedev": [3, 5, 7, 9, 11, 13, 15, 17, 19, 21, 23, 25, 27, 29, 31, 35, 41],
    "spherical": [1, 3, 5, 7, 9, 11, 13, 15, 17, 19, 21, 23, 25, 27, 29, 31, 33, 35],
    "maxdet": list(range(1, 36)),
    "ahrens_beylkin": [14, 19, 23, 29, 32, 35],
}
METHODS = ["lebedev", "spherical", "maxdet", "ahrens_beylkin"]


# ----------------------------------------------------------------------------------------------------------------------
# oracle: harmonics as Cartesian polynomials
# ----------------------------------------------------------------------------------------------------------------------
def lm_rows(l_max):
    """(l, m) of every row in the documented order m = 0, 1, -1, 2, -2, ..., l, -l."""
    return [(l, m) for l in range(l_max + 1) for m in [0] + [s * a for a in range(1, l + 1) for s in (1, -1)]]


_LEG = {}


def _dleg_coef(l, m):
    """Legendre-series coefficients of d^m P_l / dz^m."""
    key = (l, m)
    if key not in _LEG:
        c = np.zeros(l + 1)
        c[l] = 1.0
        _LEG[key] = npleg.legder(c, m) if m else c
    return _LEG[key]


def cart_harmonics(l_max, u, grad=False):
    """Rows ((l_max+1)^2, n) of the real harmonics at unit vectors u (n, 3); with grad the gradient of the polynomial
    extension, shape ((l_max+1)^2, n, 3)."""
    u = np.asarray(u, dtype=float).reshape(-1, 3)
    x, y, z = u.T
    n = len(u)
    cp = [np.ones(n, dtype=complex)]
    for _ in range(l_max):
        cp.append(cp[-1] * (x + 1j * y))
    Y = np.zeros(((l_max + 1) ** 2, n))
    G = np.zeros(((l_max + 1) ** 2, n, 3)) if grad else None
    for l in range(l_max + 1):
        for m in range(l + 1):
            pm = npleg.legval(z, _dleg_coef(l, m))
            dpm = npleg.legval(z, _dleg_coef(l, m + 1)) if (grad and m + 1 <= l) else np.zeros(n)
            norm = math.sqrt((2 * l + 1) / (4 * math.pi) * math.factorial(l - m) / math.factorial(l + m))
            if m == 0:
                Y[l * l] = norm * pm
                if grad:
                    G[l * l, :, 2] = norm * dpm
                continue
            k = math.sqrt(2.0) * norm
            a, b = cp[m].real, cp[m].imag
            a1, b1 = cp[m - 1].real, cp[m - 1].imag
            rp, rn = l * l + 2 * m - 1, l * l + 2 * m
            Y[rp] = k * pm * a
            Y[rn] = k * pm * b
            if grad:
                G[rp, :, 0] = k * pm * m * a1
                G[rp, :, 1] = -k * pm * m * b1
                G[rp, :, 2] = k * dpm * a
                G[rn, :, 0] = k * pm * m * b1
                G[rn, :, 1] = k * pm * m * a1
                G[rn, :, 2] = k * dpm * b
    return (Y, G) if grad else Y


def split_points(pts, center):
    """radius and unit vector of pts about center; the centre itself gets the documented canonical direction +z."""
    rel = np.asarray(pts, dtype=float).reshape(-1, 3) - center
    r = np.linalg.norm(rel, axis=1)
    u = np.zeros_like(rel)
    pos = r > 0
    u[pos] = rel[pos] / r[pos, None]
    u[~pos] = [0.0, 0.0, 1.0]
    return r, u


# ----------------------------------------------------------------------------------------------------------------------
# input generators (all JSON-able specs, so that a recorded case can be rebuilt)
# ----------------------------------------------------------------------------------------------------------------------
def radial_spec(g, rkind, n):
    if rkind == "positive":
        pts = np.sort(g.uniform(0.05, 1.0, n)) * np.linspace(0.3, 5.0, n)
        pts = np.maximum.accumulate(pts + 0.02 * np.arange(n))
        return {"points": pts.tolist(), "weights": g.uniform(0.1, 1.0, n).tolist()}
    if rkind == "r0node":
        pts = np.concatenate([[0.0], np.cumsum(g.uniform(0.1, 0.8, n - 1))])
        return {"points": pts.tolist(), "weights": g.uniform(0.1, 1.0, n).tolist()}
    if rkind == "tiny":      # shells below, at and just above the 1e-8 switch of integrate_angular_coordinates (centre at the origin)
        n = max(n, 7)
        head = [1e-9, 4e-9, 1e-8, 3e-8] if n >= 8 else [1e-9, 4e-9, 1e-8]
        pts = np.concatenate([head, 0.05 + np.cumsum(g.uniform(0.1, 0.8, n - len(head)))])
        return {"points": pts.tolist(), "weights": g.uniform(0.1, 1.0, n).tolist()}
    if rkind == "becke":     # a real radial grid: Gauss-Legendre through the Becke transform
        og = BeckeRTransform(0.0, float(g.uniform(0.8, 2.0))).transform_1d_grid(GaussLegendre(n))
        return {"points": og.points.tolist(), "weights": og.weights.tolist()}
    if rkind == "cc-r0":     # a real radial grid with a node exactly at r = 0: Clenshaw-Curtis mapped linearly to [0, R]
        og = LinearFiniteRTransform(0.0, float(g.uniform(3.0, 6.0))).transform_1d_grid(ClenshawCurtis(n))
        return {"points": og.points.tolist(), "weights": og.weights.tolist()}
    raise ValueError(rkind)


def grid_spec(g, method, degkind, rkind, tier, n=None, min_small=None):
    top = 29 if tier == "quick" else 35
    pool = [d for d in DEGREES[method] if (min_small or 0) <= d <= top]
    n = int(g.integers(5, 10)) if n is None else n
    spec = {"method": method, "degkind": degkind, "rkind": rkind}
    spec["radial"] = radial_spec(g, rkind, n)
    n = len(spec["radial"]["points"])
    if degkind == "uniform":
        lo = [d for d in pool if d >= 2] or pool
        d = int(g.choice(lo if min_small is None else [x for x in lo if x >= min_small] or lo))
        if method != "ahrens_beylkin" and g.random() < 0.4:
            d = max(d - 1, 2)            # a degree that is not tabulated: the next supported one is used
        spec["degrees"] = [d]
    elif degkind in ("mixed", "sizes"):
        small = [d for d in pool if (min_small or 2) <= d <= 13] or pool[:2]
        degs = [int(x) for x in g.choice(pool, n)]
        degs[int(g.integers(0, n))] = int(g.choice(small))     # the band limit is set by one low-degree shell
        if g.random() < 0.5:
            degs[0] = int(g.choice(small))                        # ... often the innermost one (r = 0 node / regenerated grid)
        spec["degrees"] = degs
        if degkind == "sizes":
            # requested sizes: the tabulated size of each degree, reduced by one for some shells (next largest size is used)
            sizes = [int(AngularGrid(degree=d, method=method).size) for d in degs]
            spec["sizes"] = [s - 1 if (s > 2 and k % 3 == 1) else s for k, s in enumerate(sizes)]
    elif degkind == "pruned":
        small = [d for d in pool if (min_small or 2) <= d <= 13] or pool[:2]
        rp = np.asarray(spec["radial"]["points"])
        cuts = sorted(float(x) for x in g.choice(rp[1:-1], 2, replace=False))
        spec["radius"] = float(g.uniform(0.7, 1.5))
        spec["r_sectors"] = [c / spec["radius"] * (1 + 1e-9) for c in cuts]
        dsec = [int(g.choice(small)), int(g.choice(pool)), int(g.choice(pool))]
        if g.random() < 0.5:
            dsec = dsec[::-1]
        spec["d_sectors"] = dsec
    else:
        raise ValueError(degkind)
    off = rkind != "tiny" and g.random() < 0.7
    spec["center"] = (g.normal(size=3) * 1.5).tolist() if off else [0.0, 0.0, 0.0]
    spec["rotate"] = int(g.integers(1, 10**6)) if g.random() < 0.6 else 0
    return spec


def make_grid(spec):
    rg = OneDGrid(np.array(spec["radial"]["points"], dtype=float), np.array(spec["radial"]["weights"], dtype=float))
    c = np.array(spec["center"], dtype=float)
    kw = dict(center=c, rotate=int(spec["rotate"]), method=spec["method"])
    if spec["degkind"] == "pruned":
        return AtomGrid.from_pruned(rg, spec["radius"], r_sectors=spec["r_sectors"], d_sectors=spec["d_sectors"], **kw)
    if spec["degkind"] == "sizes":
        return AtomGrid(rg, sizes=list(spec["sizes"]), **kw)
    return AtomGrid(rg, degrees=list(spec["degrees"]), **kw)


def variant(spec):
    c = np.asarray(spec["center"])
    return f"{spec['method']}:{spec['degkind']}:{spec['rkind']}:{'rot' if spec['rotate'] else 'norot'}:{'off' if np.any(c != 0) else 'origin'}"


def func_spec(g, band, vanish_at_origin):
    nrow = (band + 1) ** 2
    rows = lm_rows(band)
    a = g.normal(size=(nrow, 3)) * np.array([1.0, 0.6, 0.2])
    b = g.uniform(0.4, 1.5, nrow)
    a[0, 0] += 1.5
    p = [(l if (vanish_at_origin and l > 0) else 0) for l, _ in rows]
    return {"band": band, "a": a.tolist(), "b": b.tolist(), "p": p}


def g_radial(fs, r):
    """g_lm(r), shape (rows, n), of a function spec."""
    r = np.asarray(r, dtype=float)
    a, b, p = np.array(fs["a"]), np.array(fs["b"]), np.array(fs["p"], dtype=float)
    poly = a[:, 0, None] + a[:, 1, None] * r[None, :] + a[:, 2, None] * r[None, :] ** 2
    with np.errstate(divide="ignore", invalid="ignore"):
        rp = np.where(p[:, None] == 0, 1.0, r[None, :] ** p[:, None])
    return rp * poly * np.exp(-b[:, None] * r[None, :])


def shell_of(grid):
    """shell index of every grid point."""
    idx = np.asarray(grid.indices)
    return np.repeat(np.arange(len(idx) - 1), np.diff(idx))


def eval_function(fs, grid, directional_r0=False):
    """f at the points of the grid: a function of space (radius and direction of the actual points about the centre).
    On shells with r = 0 every point is the centre: f = sum g_lm(0) Y_lm(+z) unless `directional_r0`, where the documented
    canonical angles of those points (the unrotated angular grid of that shell) are used."""
    c = np.asarray(grid.center, dtype=float)
    r, u = split_points(grid.points, c)
    rr = np.asarray(grid.rgrid.points, dtype=float)
    sh = shell_of(grid)
    r = np.where(rr[sh] == 0.0, 0.0, r)
    if directional_r0:
        for i in np.where(rr == 0.0)[0]:
            ag = AngularGrid(degree=int(grid.degrees[i]), method=grid.method)
            u[grid.indices[i]:grid.indices[i + 1]] = ag.points
    Y = cart_harmonics(fs["band"], u)
    return np.einsum("kn,kn->n", g_radial(fs, r), Y)


def poly_spec(g, deg):
    expo = [(i, j, k) for i in range(deg + 1) for j in range(deg + 1 - i) for k in range(deg + 1 - i - j)]
    return {"deg": deg, "expo": expo, "coef": (g.normal(size=len(expo)) * 0.5).tolist(), "origin": (g.normal(size=3) * 0.3).tolist()}


def poly_eval(ps, pts, grad=False):
    q = np.asarray(pts, dtype=float).reshape(-1, 3) - np.array(ps["origin"])
    x, y, z = q.T
    val = np.zeros(len(q))
    gr = np.zeros((len(q), 3))
    for (i, j, k), c in zip(ps["expo"], ps["coef"]):
        val += c * x**i * y**j * z**k
        if grad:
            if i:
                gr[:, 0] += c * i * x ** (i - 1) * y**j * z**k
            if j:
                gr[:, 1] += c * j * x**i * y ** (j - 1) * z**k
            if k:
                gr[:, 2] += c * k * x**i * y**j * z ** (k - 1)
    return (val, gr) if grad else val


def poly_radial_derivs(ps, center, r, u):
    """d^k/dr^k f(center + r u), k = 0..3, for a polynomial spec: exact through the polynomial in r."""
    out = np.zeros((4, len(r)))
    for n in range(len(r)):
        # coefficients in r of f(center + r u) (degree <= 3): fit exactly from 4 nodes (own Vandermonde, well conditioned)
        t = np.array([0.0, 1.0, 2.0, 3.0]) * max(1.0, r[n]) / 3.0
        v = poly_eval(ps, center[None, :] + t[:, None] * u[n][None, :])
        co = np.polyfit(t, v, 3)
        for k in range(4):
            out[k, n] = np.polyval(np.polyder(co, k) if k else co, r[n])
    return out


def eval_points(g, spec, n_generic=10):
    """structured evaluation points about the centre: generic, coordinate axes and planes, beyond the last shell, close to
    the pole; separately the centre and both halves of the z-axis."""
    c = np.array(spec["center"], dtype=float)
    rp = np.array(spec["radial"]["points"])
    rmax = float(rp[-1])
    rad = g.uniform(0.05, 1.0, n_generic) * rmax
    rad[0] = 1.15 * rmax                       # extrapolation beyond the outermost shell
    rad[1] = 0.5 * (rp[0] + rp[1]) if rp[1] > 0.01 else 0.3 * rmax      # inside the first interval
    dirs = g.normal(size=(n_generic, 3))
    dirs /= np.linalg.norm(dirs, axis=1)[:, None]
    generic = c + rad[:, None] * dirs
    s = 0.37 * rmax
    special = c + np.array([[s, 0, 0], [-s, 0, 0], [0, s, 0], [0, -s, 0], [s, s, 0], [-s, 0.5 * s, 0], [0.3 * s, 0, s], [0, -s, -s],
                            [1e-3 * s, 0, s], [0, 2e-3 * s, -s]], dtype=float)
    axis = c + np.array([[0, 0, s], [0, 0, -s], [0, 0, 0.11 * rmax], [0, 0, -1.05 * rmax]], dtype=float)
    return {"generic": np.vstack([generic, special]), "axis": axis, "centre": c.reshape(1, 3).copy()}


# ----------------------------------------------------------------------------------------------------------------------
# oracle for "the same interpolant": spline values times harmonics, and its derivatives
# ----------------------------------------------------------------------------------------------------------------------
def interpolant_oracle(splines, center, pts):
    """value, Cartesian gradient (r > 0), radial derivatives 1..3 and natural scales from the returned splines and the
    polynomial harmonics."""
    nrow = len(splines)
    lh = int(round(math.sqrt(nrow))) - 1
    r, u = split_points(pts, center)
    Y, G = cart_harmonics(lh, u, grad=True)
    S = np.array([[sp(r, nu) for sp in splines] for nu in range(4)])          # (4, rows, n)
    val = np.einsum("kn,kn->n", S[0], Y)
    rad = np.array([np.einsum("kn,kn->n", S[nu], Y) for nu in range(4)])
    with np.errstate(divide="ignore", invalid="ignore"):
        tang = (G - np.einsum("knj,nj->kn", G, u)[:, :, None] * u[None, :, :]) / r[None, :, None]
    grad = rad[1][:, None] * u + np.einsum("kn,knj->nj", S[0], np.where(np.isfinite(tang), tang, 0.0))
    absS = np.abs(S)
    yb = np.abs(Y)
    scale_v = 1e-300 + np.einsum("kn,kn->n", absS[0], yb) + np.max(absS[0], axis=0)
    with np.errstate(divide="ignore", invalid="ignore"):
        scale_g = np.sum(absS[1], axis=0) + (lh + 1) ** 2 * np.sum(absS[0], axis=0) / np.where(r > 0, r, 1.0)
    scale_r = [np.sum(absS[nu], axis=0) + 1e-300 for nu in range(4)]
    return {"r": r, "u": u, "val": val, "grad": grad, "rad": rad, "scale_v": scale_v, "scale_g": scale_g + 1e-300, "scale_r": scale_r}


def check_with_known(col, cid, coarse, fn, signature, slug, inputs):
    """A clause that the unchanged library is known to violate in one precisely characterised way.  Passing evaluations and
    failures that do NOT show the recorded signature are filed under the full (variant-rich) case id; failures with the
    recorded signature are filed under the coarse id + slug, so that the few records kept per id are not used up by them."""
    try:
        r = fn()
        ok, detail = r if isinstance(r, tuple) else (bool(r), None)
    except Exception as e:  # noqa: BLE001
        ok, detail = False, f"{type(e).__name__}: {e}"
    if ok:
        return col.case(cid, True, None, inputs=inputs)
    try:
        known = bool(signature())
    except Exception:  # noqa: BLE001
        known = False
    if not known:
        return col.case(cid, False, detail, inputs=inputs)
    col.case(coarse, False, detail, inputs=inputs)
    if col.last_failure is not None:
        col.last_failure["case_id"] = coarse + slug
    return False


def local_spacing(knots, r):
    """smallest knot spacing in the neighbourhood of r (derivatives of a spline through data with rounding errors eps carry
    a noise eps / h^nu)."""
    knots = np.asarray(knots, dtype=float)
    d = np.diff(knots)
    k = np.clip(np.searchsorted(knots, r, side="right") - 1, 0, len(d) - 1)
    lo = np.clip(k - 2, 0, len(d) - 1)
    return np.array([d[a:b + 3].min() for a, b in zip(lo, k)])


def worst(err, scale):
    q = np.abs(err) / scale
    k = int(np.argmax(q))
    return float(q.flat[k]), k


# ----------------------------------------------------------------------------------------------------------------------
# contracts on one atomic grid
# ----------------------------------------------------------------------------------------------------------------------
def angular_contracts(col, g, spec, grid, fs, fvals, tag, var, inp):
    """integrate_angular_coordinates / spherical_average for a band-limited function with known g_00."""
    rr = np.asarray(grid.rgrid.points, dtype=float)
    rw = np.asarray(grid.rgrid.weights, dtype=float)
    g_at = g_radial(fs, rr)                     # (rows, shells)
    size = float(np.max(np.abs(g_at))) + 1.0
    keep = fvals.copy()

    def c_integrate():
        got = grid.integrate_angular_coordinates(fvals)
        if got.shape != (grid.n_shells,):
            return False, f"shape {got.shape} for {grid.n_shells} shells"
        if not np.array_equal(fvals, keep):
            return False, "the function values were modified"
        want = SQ4PI * g_at[0]
        e, k = worst(got - want, size)
        if not e <= TOL:
            return False, f"shell {k} (r = {rr[k]:.6g}, degree {grid.degrees[k]}): angular integral {got[k]!r}, exact sqrt(4 pi) g_00(r) = {want[k]!r}"
        # several functions at once: leading axes are kept, the shell axis is last
        other = fvals[::-1].copy() * 0.5 + 1.0
        stack = np.array([[fvals, other], [fvals - other, 2.0 * fvals]])
        got2 = grid.integrate_angular_coordinates(stack)
        if got2.shape != (2, 2, grid.n_shells):
            return False, f"stacked input (2,2,N) gives shape {got2.shape}"
        one = grid.integrate_angular_coordinates(other)
        for (a, b), w in {(0, 0): got, (0, 1): one, (1, 0): got - one, (1, 1): 2.0 * got}.items():
            if not np.allclose(got2[a, b], w, rtol=0, atol=1e-11 * size * 4):
                return False, f"row {(a, b)} of a stacked call differs from the single call"
        return True, None
    col.check(f"integrate_angular_coordinates:{tag}:{var}", c_integrate, inputs=inp, sample={"grid": var, "function": tag})

    def c_total():
        shellwise = grid.integrate_angular_coordinates(fvals)
        total = float(np.sum(rr**2 * rw * shellwise))
        full = float(grid.integrate(fvals))
        closed = float(np.sum(rr**2 * rw * SQ4PI * g_at[0]))
        norm = float(np.sum(rr**2 * np.abs(rw))) * size + 1e-300
        if not abs(total - full) <= 1e-12 * norm:
            return False, f"sum_i r_i^2 w_i I_i = {total!r} but the grid integral is {full!r}"
        if not abs(full - closed) <= TOL * norm:
            return False, f"grid integral {full!r}, exact radial quadrature of sqrt(4 pi) g_00 is {closed!r}"
        return True, None
    col.check(f"shell-integrals-sum-to-grid-integral:{tag}:{var}", c_total, inputs=inp)

    def c_average():
        sp = grid.spherical_average(fvals)
        if not np.array_equal(fvals, keep):
            return False, "the function values were modified"
        at = sp(rr)
        want = g_at[0] / SQ4PI
        e, k = worst(at - want, size)
        if not e <= TOL:
            return False, f"spherical average at shell {k} (r = {rr[k]:.6g}) is {at[k]!r}, exact g_00/sqrt(4 pi) = {want[k]!r}"
        back = float(np.sum(4.0 * np.pi * rr**2 * rw * at))
        full = float(grid.integrate(fvals))
        norm = float(np.sum(rr**2 * np.abs(rw))) * size + 1e-300
        if not abs(back - full) <= 1e-12 * norm * 10:
            return False, f"int 4 pi r^2 f_avg = {back!r} but the grid integral is {full!r}"
        if not np.array_equal(np.asarray(sp.x), rr):
            return False, "the spline is not defined over the radial nodes"
        return True, None
    col.check(f"spherical_average:{tag}:{var}", c_average, inputs=inp)


def brute_contracts(col, g, spec, grid, var, inp):
    """arbitrary (not band-limited) values: shell-wise weighted sums with freshly built angular weights; range split."""
    vals = g.normal(size=(2, grid.size))
    rr = np.asarray(grid.rgrid.points, dtype=float)
    rw = np.asarray(grid.rgrid.weights, dtype=float)

    def chk():
        got = grid.integrate_angular_coordinates(vals)
        if got.shape != (2, grid.n_shells):
            return False, f"shape {got.shape}"
        want = np.zeros((2, grid.n_shells))
        amp = np.zeros((2, grid.n_shells))
        for i in range(grid.n_shells):
            ag = AngularGrid(degree=int(grid.degrees[i]), method=grid.method)
            lo, hi = grid.indices[i], grid.indices[i + 1]
            if hi - lo != ag.size:
                return False, f"shell {i} has {hi - lo} points, its angular grid of degree {grid.degrees[i]} has {ag.size}"
            want[:, i] = vals[:, lo:hi] @ ag.weights
            amp[:, i] = np.abs(vals[:, lo:hi]) @ np.abs(ag.weights)
        e, k = worst(got - want, amp)
        if not e <= 1e-12:
            i = k % grid.n_shells
            return False, f"shell {i} (r = {rr[i]:.6g}): {got.flat[k]!r}, sum_j f_j a_j with the angular weights is {want.flat[k]!r}"
        for row in range(2):
            total = float(np.sum(rr**2 * rw * got[row]))
            full = float(grid.integrate(vals[row]))
            if not abs(total - full) <= 1e-11 * float(np.sum(np.abs(grid.weights))) + 1e-300:
                return False, f"sum_i r_i^2 w_i I_i = {total!r}, grid integral {full!r}"
        return True, None
    col.check(f"integrate_angular_coordinates:arbitrary-values:{var}", chk, inputs=inp)


def coordinates_contract(col, spec, grid, var, inp):
    rr = np.asarray(grid.rgrid.points, dtype=float)
    c = np.asarray(grid.center, dtype=float)

    def chk():
        sph = grid.convert_cartesian_to_spherical()
        if sph.shape != (grid.size, 3):
            return False, f"shape {sph.shape}"
        sh = shell_of(grid)
        if not np.allclose(sph[:, 0], rr[sh], rtol=1e-12, atol=1e-15 * (1 + np.max(np.abs(c)))):
            return False, "radii differ from the shell radii"
        r, t, p = sph.T
        back = np.array([np.sin(p) * np.cos(t), np.sin(p) * np.sin(t), np.cos(p)]).T
        _, u = split_points(grid.points, c)
        for i in range(grid.n_shells):
            lo, hi = grid.indices[i], grid.indices[i + 1]
            ref = AngularGrid(degree=int(grid.degrees[i]), method=grid.method).points if rr[i] == 0.0 else u[lo:hi]
            tol = 1e-12 + 8e-16 * (np.max(np.abs(c)) + rr[i]) / max(rr[i], 1e-300) if rr[i] > 0 else 1e-12
            if not np.allclose(back[lo:hi], ref, rtol=0, atol=tol):
                what = "the unrotated angular grid of the shell (documented choice at r = 0)" if rr[i] == 0.0 else "the directions of the points"
                return False, f"shell {i} (r = {rr[i]:.6g}): the angles do not parametrise {what}"
        # arbitrary points, explicit centre, single point
        q = c + np.array([[0.3, -0.4, 1.2], [0.0, 0.0, 0.0], [0.0, 0.0, -2.0], [-1.0, 0.0, 0.0]])
        s = grid.convert_cartesian_to_spherical(q)
        if not np.allclose(s[:, 0], [math.sqrt(0.09 + 0.16 + 1.44), 0.0, 2.0, 1.0], atol=1e-12):
            return False, "radii of explicit points are wrong"
        if not (np.allclose(s[1], 0.0) and np.isclose(s[2, 2], np.pi) and np.isclose(abs(s[3, 1]), np.pi) and np.isclose(s[3, 2], np.pi / 2)):
            return False, f"angles of the centre / -z / -x points: {s[1:].tolist()}"
        s1 = grid.convert_cartesian_to_spherical(q[0])
        if s1.shape != (1, 3) or not np.allclose(s1[0], s[0]):
            return False, "a single point (3,) is not treated as one row"
        s2 = grid.convert_cartesian_to_spherical(q, center=c + [0.0, 0.0, 1.0])
        if not np.isclose(s2[1, 0], 1.0) or not np.isclose(s2[1, 2], np.pi):
            return False, "the explicit centre argument is not used"
        return True, None
    col.check(f"convert_cartesian_to_spherical:{var}", chk, inputs=inp)


def spline_contracts(col, g, spec, grid, fs, fvals, tag, var, inp, directional=False):
    """radial_component_splines through g_lm(r_i); interpolant at the grid points."""
    rr = np.asarray(grid.rgrid.points, dtype=float)
    band = fs["band"]
    g_at = g_radial(fs, rr)
    size = float(np.max(np.abs(g_at))) + 1.0
    lh = int(np.max(grid.degrees)) // 2
    keep = fvals.copy()

    def c_knots():
        spl = grid.radial_component_splines(fvals)
        if len(spl) != (lh + 1) ** 2:
            return False, f"{len(spl)} splines, expected (l_max//2 + 1)^2 = {(lh + 1) ** 2}"
        if not np.array_equal(fvals, keep):
            return False, "the function values were modified"
        at = np.array([sp(rr) for sp in spl])
        want = np.zeros_like(at)
        want[: (band + 1) ** 2] = g_at
        e, k = worst(at - want, size)
        if not e <= TOL:
            row, i = divmod(k, len(rr))
            l, m = lm_rows(lh)[row]
            return False, (f"spline (l,m)=({l},{m}) at shell {i} (r = {rr[i]:.6g}, degree {grid.degrees[i]}) is {at[row, i]!r}, "
                           f"the radial factor g_lm(r_i) is {want[row, i]!r}")
        for sp in spl:
            if not np.array_equal(np.asarray(sp.x), rr):
                return False, "a spline is not defined over the radial nodes"
        return True, None
    col.check(f"radial_component_splines:knots:{tag}:{var}", c_knots, inputs=inp)

    def c_grid_points():
        it = grid.interpolate(fvals)
        got = np.asarray(it(grid.points), dtype=float)
        if got.shape != (grid.size,):
            return False, f"shape {got.shape}"
        sh = shell_of(grid)
        sel = rr[sh] > 0.0 if directional else np.ones(grid.size, dtype=bool)
        # noise of the direction of a point close to an off-origin centre: eps |c| / r
        c = np.abs(np.asarray(grid.center)).max()
        with np.errstate(divide="ignore"):
            noise = np.where(rr[sh] > 0, 4e-16 * (c + rr[sh]) / np.where(rr[sh] > 0, rr[sh], 1.0) * (band + 1) ** 2, 0.0)
        err = np.abs(got - fvals)[sel] / (size * (TOL + noise[sel]))
        if err.size and not np.max(err) <= 1.0:
            k = int(np.flatnonzero(sel)[int(np.argmax(err))])
            return False, f"grid point {k} (shell {sh[k]}, r = {rr[sh[k]]:.6g}): interpolant {got[k]!r}, function value {fvals[k]!r}"
        return True, None
    col.check(f"interpolate:grid-points:{tag}:{var}", c_grid_points, inputs=inp)


def _sph_layouts(got, n):
    """(M,3) view of the spherical derivatives for both layouts: documented (M, 3) or the flat [d_r.., d_theta.., d_phi..]."""
    got = np.asarray(got, dtype=float)
    if got.shape == (n, 3):
        return got, "rows"
    if got.shape == (3 * n,):
        return got.reshape(3, n).T, "flat"
    return None, str(got.shape)


def interpolant_contracts(col, g, spec, grid, fvals, tag, var, inp, pts):
    """At arbitrary points: value = sum spline x harmonic; reported derivatives are derivatives of that interpolant."""
    c = np.asarray(grid.center, dtype=float)
    splines = grid.radial_component_splines(fvals)
    it = grid.interpolate(fvals)
    gen, axis, centre = pts["generic"], pts["axis"], pts["centre"]

    def c_values(P, label):
        def chk():
            o = interpolant_oracle(splines, c, P)
            got = np.asarray(it(P), dtype=float)
            if got.shape != (len(P),):
                return False, f"shape {got.shape} for {len(P)} points"
            e, k = worst(got - o["val"], o["scale_v"])
            if not e <= TOL:
                return False, f"point {P[k].tolist()} (r = {o['r'][k]:.6g}): interpolant {got[k]!r}, sum of spline values times harmonics {o['val'][k]!r}"
            one = np.asarray(it(P[0]), dtype=float)
            if one.shape != (1,) or not np.isclose(one[0], got[0], rtol=1e-13, atol=1e-300):
                return False, "a single point (3,) is not evaluated like a row"
            zero = np.asarray(it(P, deriv=0, only_radial_deriv=True), dtype=float)
            if not np.array_equal(zero, got):
                return False, "deriv=0 with only_radial_deriv differs from the value"
            return True, None
        col.check(f"interpolate:values:{label}:{tag}:{var}", chk, inputs=inp)
    c_values(gen, "generic-points")
    c_values(np.vstack([axis, centre]), "z-axis-and-centre")

    def c_radial(P, label):
        def chk():
            o = interpolant_oracle(splines, c, P)
            for nu in (1, 2, 3):
                got = np.asarray(it(P, deriv=nu, only_radial_deriv=True), dtype=float)
                if got.shape != (len(P),):
                    return False, f"deriv={nu} radial: shape {got.shape}"
                e, k = worst(got - o["rad"][nu], o["scale_r"][nu])
                if not e <= TOL_D:
                    return False, f"d^{nu}/dr^{nu} at {P[k].tolist()}: {got[k]!r}, derivative of the interpolant {o['rad'][nu][k]!r}"
            both = np.asarray(it(P, deriv=1, deriv_spherical=True, only_radial_deriv=True), dtype=float)
            if both.shape != (len(P),) or not np.allclose(both, o["rad"][1], rtol=0, atol=TOL_D * np.max(o["scale_r"][1])):
                return False, "only_radial_deriv together with deriv_spherical is not the radial derivative"
            # differences of the interpolant itself along the ray (one-sided at the centre)
            r, u = o["r"], o["u"]
            h = 1e-5 * (1.0 + r)
            up = np.asarray(it(c + (r + h)[:, None] * u), dtype=float)
            dn = np.asarray(it(c + np.maximum(r - h, 0.0)[:, None] * u), dtype=float)
            fd = (up - dn) / (r + h - np.maximum(r - h, 0.0))
            got = np.asarray(it(P, deriv=1, only_radial_deriv=True), dtype=float)
            tol = np.where(r - h > 0, TOL_FD, 3e-5) * (o["scale_r"][1] + o["scale_r"][2] + o["scale_r"][3] + o["scale_r"][0])
            bad = np.abs(got - fd) > tol
            if np.any(bad):
                k = int(np.argmax(bad))
                return False, f"radial derivative at {P[k].tolist()}: {got[k]!r}, difference quotient of the interpolant {fd[k]!r}"
            return True, None
        col.check(f"interpolate:deriv-radial:{label}:{tag}:{var}", chk, inputs=inp)
    c_radial(gen, "generic-points")
    c_radial(np.vstack([axis, centre]), "z-axis-and-centre")

    def c_cart():
        o = interpolant_oracle(splines, c, gen)
        got = np.asarray(it(gen, deriv=1), dtype=float)
        if got.shape != (len(gen), 3):
            return False, f"shape {got.shape}"
        e, k = worst(got - o["grad"], o["scale_g"][:, None] + 0 * got)
        if not e <= TOL_D:
            n = k // 3
            return False, f"gradient at {gen[n].tolist()} (r = {o['r'][n]:.6g}): {got[n].tolist()}, gradient of the interpolant {o['grad'][n].tolist()}"
        # differences of the interpolant itself
        h = 1e-5 * (1.0 + o["r"])
        fd = np.zeros_like(got)
        for a in range(3):
            e_a = np.zeros(3)
            e_a[a] = 1.0
            fd[:, a] = (np.asarray(it(gen + h[:, None] * e_a), dtype=float) - np.asarray(it(gen - h[:, None] * e_a), dtype=float)) / (2 * h)
        far = o["r"] > 50 * h                  # the stencil must stay away from the centre (the interpolant has a cusp there)
        sc = (o["scale_g"] * (1 + 1.0 / np.where(o["r"] > 0, o["r"], 1.0)))[:, None]
        bad = (np.abs(got - fd) > 20 * TOL_FD * sc) & far[:, None]
        if np.any(bad):
            n = int(np.argmax(np.any(bad, axis=1)))
            return False, f"gradient at {gen[n].tolist()}: {got[n].tolist()}, central differences of the interpolant {fd[n].tolist()}"
        one = np.asarray(it(gen[2], deriv=1), dtype=float)
        if one.shape != (1, 3) or not np.allclose(one[0], got[2], rtol=1e-12, atol=1e-300):
            return False, "gradient of a single point (3,) differs"
        return True, None
    col.check(f"interpolate:deriv-cartesian:generic-points:{tag}:{var}", c_cart, inputs=inp)

    def c_cart_axis():
        o = interpolant_oracle(splines, c, axis)
        got = np.asarray(it(axis, deriv=1), dtype=float)
        if got.shape != (len(axis), 3) or not np.all(np.isfinite(got)):
            return False, f"shape {got.shape} / non-finite entries {got.tolist()}"
        e, k = worst(got - o["grad"], o["scale_g"][:, None] + 0 * got)
        if not e <= TOL_D:
            n = k // 3
            return False, (f"gradient on the z-axis at {axis[n].tolist()}: {got[n].tolist()}, gradient of the interpolant "
                           f"(smooth there) {o['grad'][n].tolist()}")
        return True, None
    check_with_known(col, f"interpolate:deriv-cartesian:z-axis:{tag}:{var}", "interpolate:deriv-cartesian:z-axis", c_cart_axis,
                     lambda: axis_signature(it, interpolant_oracle(splines, c, axis), axis, c), ":known-polar-terms-dropped-on-z-axis", inp)

    def c_cart_centre():
        # at the centre only the one-sided derivative along the canonical direction +z is defined for a general interpolant
        o = interpolant_oracle(splines, c, centre)
        got = np.asarray(it(centre, deriv=1), dtype=float)
        if got.shape != (1, 3) or not np.all(np.isfinite(got)):
            return False, f"shape {got.shape} / non-finite entries {got.tolist()}"
        if not abs(got[0, 2] - o["rad"][1][0]) <= TOL_D * o["scale_r"][1][0]:
            return False, f"z-component at the centre {got[0, 2]!r}, one-sided derivative of the interpolant along +z {o['rad'][1][0]!r}"
        return True, None
    col.check(f"interpolate:deriv-cartesian:centre-z-component:{tag}:{var}", c_cart_centre, inputs=inp)

    def c_sph_values():
        P = gen
        o = interpolant_oracle(splines, c, P)
        got, layout = _sph_layouts(it(P, deriv=1, deriv_spherical=True), len(P))
        if got is None:
            return False, f"spherical derivatives of {len(P)} points have shape {layout}"
        rel = P - c
        rho = np.hypot(rel[:, 0], rel[:, 1])
        ok = rho > 1e-9 * o["r"]                               # away from the poles (there the polar derivative is a convention)
        e_t = np.array([-rel[:, 1], rel[:, 0], np.zeros(len(P))]).T
        with np.errstate(divide="ignore", invalid="ignore"):
            e_p = np.array([rel[:, 0] * rel[:, 2] / rho, rel[:, 1] * rel[:, 2] / rho, -rho]).T
        want = np.array([o["rad"][1], np.einsum("nj,nj->n", o["grad"], e_t), np.einsum("nj,nj->n", o["grad"], e_p)]).T
        sc = np.array([o["scale_r"][1], o["scale_g"] * o["r"], o["scale_g"] * o["r"]]).T
        err = (np.abs(got - want) / sc)[ok]
        if err.size and not np.max(err) <= TOL_D:
            n = int(np.flatnonzero(ok)[int(np.argmax(np.max(err, axis=1)))])
            return False, f"(d_r, d_theta, d_phi) at {P[n].tolist()}: {got[n].tolist()}, derivatives of the interpolant {want[n].tolist()}"
        # the pole: radial and azimuthal derivative (zero) are still defined
        ga, _ = _sph_layouts(it(axis, deriv=1, deriv_spherical=True), len(axis))
        oa = interpolant_oracle(splines, c, axis)
        if ga is None or not np.all(np.abs(ga[:, 0] - oa["rad"][1]) <= TOL_D * oa["scale_r"][1]):
            return False, "radial component of the spherical derivatives on the z-axis differs from the radial derivative"
        if not np.all(np.abs(ga[:, 1]) <= TOL_D * oa["scale_g"] * oa["r"]):
            return False, f"azimuthal derivative on the z-axis is {ga[:, 1].tolist()}, it vanishes there"
        return True, None
    col.check(f"interpolate:deriv-spherical:values:{tag}:{var}", c_sph_values, inputs=inp)

    # (the layout of the spherical-derivative result -- (3M,) blocks vs (M, 3) -- is not part of the property: the value check above
    #  accepts both layouts, and no shape contract is imposed)

    def c_reject():
        for kw in ({"deriv": 2}, {"deriv": 3}, {"deriv": 2, "deriv_spherical": True}):
            try:
                it(gen[:2], **kw)
                return False, f"{kw} accepted although only radial derivatives exist beyond first order"
            except ValueError:
                pass
        return True, None
    col.check(f"interpolate:higher-angular-derivatives-rejected:{tag}:{var}", c_reject, inputs=inp, nontrivial=False)


def axis_signature(it, o, axis, c):
    """The recorded behaviour on the z-axis: the polar-derivative term (and at the north pole the azimuthal one as well) is
    dropped, i.e. the result is (0, 0, z-component) on +z and (0, y-component, z-component) on -z, the kept entries correct."""
    try:
        got = np.asarray(it(axis, deriv=1), dtype=float)
        for n in range(len(axis)):
            up = axis[n, 2] - c[2] > 0
            tol = TOL_D * o["scale_g"][n]
            want = o["grad"][n].copy()
            want[0] = 0.0
            if up:
                want[1] = 0.0
            if not np.all(np.abs(got[n] - want) <= tol):
                return False
        return True
    except Exception:  # noqa: BLE001
        return False


def polynomial_contracts(col, g, spec, grid, var, inp, pts):
    """Cartesian polynomials of degree <= min(3, L) are reproduced everywhere, with gradient and radial derivatives."""
    band = min(int(np.min(grid.degrees)) // 2, 3)
    if band < 1 or grid.n_shells < 4:
        return
    ps = poly_spec(g, band)
    c = np.asarray(grid.center, dtype=float)
    fvals = poly_eval(ps, grid.points)
    inp = dict(inp, polynomial=ps)
    it = grid.interpolate(fvals)
    knots = np.asarray(grid.rgrid.points, dtype=float)
    rmax = float(knots[-1])
    box = c + rmax * 1.2 * np.array([[1, 1, 1], [-1, 1, -1], [1, -1, -1], [-1, -1, 1], [0, 0, 0.0]])
    size = 1.0 + float(np.max(np.abs(poly_eval(ps, box))))
    gen, axis, centre = pts["generic"], pts["axis"], pts["centre"]
    tag = f"degree{band}"

    def tol_at(P, nu, base):
        """base tolerance plus the rounding noise eps / h^nu of a spline through rounded data with local knot spacing h."""
        r, _ = split_points(P, c)
        # the projected knot values carry the accuracy of the tabulated angular grids (about 1e-13 .. 1e-12 absolute); a slope error
        # of one short interval, noise / h_min, spreads through the C1 conditions of the spline
        h_min = float(np.min(np.diff(knots)))
        return size * (base + 2e-12 / h_min + (2e-12 / local_spacing(knots, r) ** nu if nu else 0.0)), r

    def c_values():
        P = np.vstack([gen, axis, centre, grid.points[:: max(1, grid.size // 40)]])
        got = np.asarray(it(P), dtype=float)
        want = poly_eval(ps, P)
        t, _ = tol_at(P, 0, 1e-9)
        e, k = worst(got - want, t)
        if not e <= 1.0:
            return False, f"interpolant at {P[k].tolist()} is {got[k]!r}, the polynomial of degree {band} is {want[k]!r}"
        return True, None
    col.check(f"polynomial-reproduced:values:{tag}:{var}", c_values, inputs=inp, sample={"grid": var, "polynomial-degree": band})

    def grad_check(P, keep_mask=None):
        got = np.asarray(it(P, deriv=1), dtype=float)
        _, want = poly_eval(ps, P, grad=True)
        if got.shape != want.shape or not np.all(np.isfinite(got)):
            return False, f"shape {got.shape} / non-finite entries"
        if keep_mask is not None:
            want = want * keep_mask(P)
        t, r = tol_at(P, 1, 1e-8)
        sc = (t * (1.0 + 1.0 / np.where(r > 0, r, 1.0)))[:, None]
        e, k = worst(got - want, sc + 0 * got)
        if not e <= 1.0:
            return False, f"gradient at {P[k // 3].tolist()} is {got[k // 3].tolist()}, the gradient of the polynomial is {poly_eval(ps, P, grad=True)[1][k // 3].tolist()}"
        return True, None
    col.check(f"polynomial-reproduced:gradient:generic-points:{tag}:{var}", lambda: grad_check(gen), inputs=inp)

    def mask_axis(P):
        m = np.ones((len(P), 3))
        m[:, 0] = 0.0
        m[P[:, 2] - c[2] > 0, 1] = 0.0
        return m

    def mask_centre(P):
        return np.tile([0.0, 0.0, 1.0], (len(P), 1))
    check_with_known(col, f"polynomial-reproduced:gradient:z-axis:{tag}:{var}", "polynomial-reproduced:gradient:z-axis", lambda: grad_check(axis),
                     lambda: grad_check(axis, mask_axis)[0], ":known-polar-terms-dropped-on-z-axis", inp)
    check_with_known(col, f"polynomial-reproduced:gradient:centre:{tag}:{var}", "polynomial-reproduced:gradient:centre", lambda: grad_check(centre),
                     lambda: grad_check(centre, mask_centre)[0], ":known-angular-terms-dropped-at-centre", inp)

    def c_radial():
        P = np.vstack([gen, axis, centre])
        r, u = split_points(P, c)
        want = poly_radial_derivs(ps, c, r, u)
        for nu in (1, 2, 3):
            got = np.asarray(it(P, deriv=nu, only_radial_deriv=True), dtype=float)
            t, _ = tol_at(P, nu, 1e-7)
            bad = np.abs(got - want[nu]) > t
            if np.any(bad):
                k = int(np.argmax(bad))
                return False, f"d^{nu}/dr^{nu} at {P[k].tolist()} is {got[k]!r}, for the polynomial {want[nu][k]!r}"
        return True, None
    col.check(f"polynomial-reproduced:radial-derivatives:{tag}:{var}", c_radial, inputs=inp)


def atom_family(col, g, spec, n_func=2):
    var = variant(spec)
    inp = {"grid": spec}
    try:
        grid = make_grid(spec)
    except Exception as e:  # noqa: BLE001
        col.case(f"construct:{var}", False, f"{type(e).__name__}: {e}", inputs=inp)
        return
    degs = np.asarray(grid.degrees, dtype=int)
    band = min(int(degs.min()) // 2, L_CAP)
    has_r0 = bool(np.any(np.asarray(grid.rgrid.points) == 0.0))
    pts = eval_points(g, spec)
    inp["degrees"] = degs.tolist()

    def guarded(cid, fn, *args, **kw):
        """an exception raised while a contract is being prepared (library calls outside a check) is a failure, not a crash."""
        try:
            fn(*args, **kw)
        except Exception as e:  # noqa: BLE001
            col.case(f"{cid}:{var}", False, f"{type(e).__name__}: {e} (raised while preparing the contract)", inputs=inp)
    guarded("convert_cartesian_to_spherical", coordinates_contract, col, spec, grid, var, inp)
    guarded("integrate_angular_coordinates:arbitrary-values", brute_contracts, col, g, spec, grid, var, inp)
    for k in range(n_func):
        fs = func_spec(g, band, vanish_at_origin=True)
        fin = dict(inp, function=fs)
        fvals = eval_function(fs, grid)
        tag = f"band{band}" if band < L_CAP or int(degs.min()) // 2 == L_CAP else f"band{band}-below-limit"
        guarded(f"integrate_angular_coordinates:{tag}", angular_contracts, col, g, spec, grid, fs, fvals, tag, var, fin)
        guarded(f"radial_component_splines:knots:{tag}", spline_contracts, col, g, spec, grid, fs, fvals, tag, var, fin)
        if k == 0:
            guarded(f"interpolate:values:generic-points:{tag}", interpolant_contracts, col, g, spec, grid, fvals, tag, var, fin, pts)
    if has_r0:
        # radial factors that do not vanish at the node r = 0: values on that shell follow the documented canonical angles
        fs = func_spec(g, band, vanish_at_origin=False)
        fin = dict(inp, function=fs, directional_r0=True)
        fvals = eval_function(fs, grid, directional_r0=True)
        tag = f"band{band}-directional-at-r0"
        guarded(f"integrate_angular_coordinates:{tag}", angular_contracts, col, g, spec, grid, fs, fvals, tag, var, fin)
        guarded(f"radial_component_splines:knots:{tag}", spline_contracts, col, g, spec, grid, fs, fvals, tag, var, fin, directional=True)
    guarded("polynomial-reproduced:values", polynomial_contracts, col, g, spec, grid, var, inp, pts)


# ----------------------------------------------------------------------------------------------------------------------
# molecular grids
# ----------------------------------------------------------------------------------------------------------------------
def mol_spec(g, tier, natom):
    specs = []
    for a in range(natom):
        method = METHODS[int(g.integers(0, 3))]
        s = grid_spec(g, method, ["uniform", "mixed", "pruned"][int(g.integers(0, 3))], ["positive", "r0node", "becke"][int(g.integers(0, 3))],
                      tier, n=int(g.integers(5, 8)), min_small=7)
        s["center"] = (np.array([1.6 * a, 0.0, 0.0]) + g.normal(size=3) * 0.5).tolist()
        specs.append(s)
    return specs


def smooth_function(g, centers):
    al = g.uniform(0.3, 1.2, len(centers))
    co = g.normal(size=len(centers))
    cs = np.asarray(centers)

    def f(p):
        p = np.asarray(p, dtype=float).reshape(-1, 3)
        d2 = ((p[:, None, :] - cs[None, :, :]) ** 2).sum(-1)
        return (co * np.exp(-al * d2) * (1 + 0.3 * p[:, None, 0] - 0.2 * p[:, None, 2])).sum(1)
    return f


def mol_family(col, g, tier, k):
    natom = 2 + (k % 2)
    specs = mol_spec(g, tier, natom)
    aimkind = ["becke", "random-array", "constant-per-atom"][k % 3]
    inp = {"grids": specs, "aim": aimkind}
    var = f"{natom}atoms:{aimkind}"
    try:
        atgrids = [make_grid(s) for s in specs]
        sizes = [a.size for a in atgrids]
        total = int(np.sum(sizes))
        atnums = np.array([1, 8, 6][:natom])
        const = g.uniform(0.2, 1.0, natom)
        const /= const.sum()
        if aimkind == "becke":
            aim = BeckeWeights(order=3)
        elif aimkind == "random-array":
            aim = g.uniform(0.05, 1.0, total)
        else:
            aim = np.repeat(const, sizes)
        mol = MolGrid(atnums, atgrids, aim, store=True)
    except Exception as e:  # noqa: BLE001
        col.case(f"MolGrid.interpolate:construct:{var}", False, f"{type(e).__name__}: {e}", inputs=inp)
        return
    centers = [np.array(s["center"]) for s in specs]
    f = smooth_function(g, centers)
    fvals = f(mol.points)
    keep = fvals.copy()
    P = np.vstack([g.normal(size=(8, 3)) * 1.5 + centers[0], centers[-1] + [[0.3, 0.2, -0.4]], 0.5 * (centers[0] + centers[1])[None, :],
                   centers[0][None, :] + [[0.0, 0.0, 0.7]], centers[1][None, :]])

    def c_sum():
        aw = np.asarray(mol.aim_weights, dtype=float)
        if aw.shape != (total,):
            return False, f"aim weights of shape {aw.shape}"
        if not np.allclose(mol.points, np.vstack([a.points for a in atgrids]), rtol=0, atol=0):
            return False, "the molecular points are not the concatenated atomic points"
        it = mol.interpolate(fvals)
        if not np.array_equal(fvals, keep):
            return False, "the function values were modified"
        fresh = [make_grid(s) for s in specs]           # fresh atomic grids: no shared state with the molecular grid
        off = np.concatenate([[0], np.cumsum(sizes)])
        parts = [fr.interpolate((aw * fvals)[off[a]:off[a + 1]]) for a, fr in enumerate(fresh)]
        for kw in ({}, {"deriv": 1}, {"deriv": 1, "only_radial_deriv": True}, {"deriv": 2, "only_radial_deriv": True},
                   {"deriv": 1, "deriv_spherical": True}):
            mk = {("only_radial_derivs" if a == "only_radial_deriv" else a): b for a, b in kw.items()}
            got = np.asarray(it(P, **mk), dtype=float)
            each = [np.asarray(p(P, **kw), dtype=float) for p in parts]
            want = np.sum(each, axis=0)
            sc = np.sum(np.abs(each), axis=0) + 1e-300
            if got.shape != want.shape:
                return False, f"{kw}: shape {got.shape}, atomic interpolants give {want.shape}"
            e, j = worst(got - want, sc)
            if not e <= 1e-11:
                return False, f"{kw}: entry {j}: molecular interpolant {got.flat[j]!r}, sum over atoms of the interpolants of w_A f {want.flat[j]!r}"
        again = np.asarray(it(P), dtype=float)
        if not np.array_equal(again, np.asarray(it(P), dtype=float)):
            return False, "two evaluations of the same interpolant differ"
        return True, None
    col.check(f"MolGrid.interpolate:sum-of-atomic-interpolants:{var}", c_sum, inputs=inp, sample={"molecule": var})

    def c_scale():
        """'for every function': a function that is tiny on one atom (or everywhere) is interpolated like any other - interpolation is linear."""
        off = np.concatenate([[0], np.cumsum(sizes)])
        it = mol.interpolate(fvals)
        base = np.asarray(it(P), dtype=float)
        for c in (1e-9, 1e-13):
            got = np.asarray(mol.interpolate(c * fvals)(P), dtype=float)
            e, j = worst(got / c - base, np.abs(base) + 1e-3 * float(np.max(np.abs(base))))
            if not e <= 1e-9:
                return False, f"interpolant of {c:g} f at {P[j].tolist()} is {got[j]!r}, {c:g} times the interpolant of f is {c * base[j]!r}"
        # tiny on the last atom's segment only: compare with the explicit sum of atomic interpolants
        aw = np.asarray(mol.aim_weights, dtype=float)
        small = fvals.copy()
        small[off[-2]:] *= 1e-9
        fresh = [make_grid(s_) for s_ in specs]
        each = [np.asarray(fr.interpolate((aw * small)[off[a]:off[a + 1]])(P), dtype=float) for a, fr in enumerate(fresh)]
        want = np.sum(each, axis=0)
        got = np.asarray(mol.interpolate(small)(P), dtype=float)
        tol = 1e-13 * np.sum(np.abs(each), axis=0) + 1e-300          # rounding of the sum; the tiny atom contributes about 1e-9 of it
        if float(np.max(np.abs(each[-1]) / tol)) < 100.0:
            return True, None                                        # the tiny contribution is below rounding at every sample point: nothing to see
        bad = np.abs(got - want) > tol
        if np.any(bad):
            j = int(np.argmax(np.abs(got - want) / tol))
            return False, (f"the contribution of an atom on which w_A f is of size 1e-9 is lost: at {P[j].tolist()} got {got[j]!r}, "
                           f"sum of atomic interpolants {want[j]!r} (that atom contributes {each[-1][j]!r})")
        return True, None
    col.check(f"MolGrid.interpolate:tiny-functions-are-interpolated-too:{var}", c_scale, inputs=inp, sample={"molecule": var})

    if k < 2:
        def c_many():
            """'at arbitrary points': the value at a point does not depend on how many other points are evaluated in the same call."""
            Q = np.vstack([P, g.normal(size=(25000, 3)) * 2.0 + centers[0]])
            it = mol.interpolate(fvals)
            m = len(Q)
            h = 9000
            for kw in ({}, {"deriv": 1}, {"deriv": 1, "deriv_spherical": True}, {"deriv": 2, "only_radial_derivs": True}):
                whole = np.asarray(it(Q, **kw), dtype=float)
                a_, b_ = np.asarray(it(Q[:h], **kw), dtype=float), np.asarray(it(Q[h:], **kw), dtype=float)
                if kw.get("deriv_spherical"):
                    if whole.shape != (3 * m,):
                        return True, None          # layout not the documented flat one: nothing to compare here
                    whole, a_, b_ = whole.reshape(3, m).T, a_.reshape(3, h).T, b_.reshape(3, m - h).T
                parts = np.concatenate([a_, b_], axis=0)
                if whole.shape != parts.shape or not np.allclose(whole, parts, rtol=1e-10, atol=1e-12 * (1.0 + float(np.max(np.abs(parts))))):
                    return False, f"{kw}: evaluating {m} points in one call differs from evaluating them in two calls (max {float(np.max(np.abs(whole - parts))):.3e})"
            return True, None
        col.check(f"MolGrid.interpolate:many-points-in-one-call:{var}", c_many, inputs=inp, sample={"molecule": var, "points": 25012})

    if aimkind == "constant-per-atom":
        ps = poly_spec(g, 3)
        pv = poly_eval(ps, mol.points)
        size = 1.0 + float(np.max(np.abs(pv)))

        def c_poly():
            it = mol.interpolate(pv)
            got = np.asarray(it(P), dtype=float)
            want = poly_eval(ps, P)
            e, j = worst(got - want, size)
            if not e <= 1e-9:
                return False, f"at {P[j].tolist()}: {got[j]!r}, the cubic polynomial is {want[j]!r} (weights constant per atom, summing to one)"
            Q = P[:8]                                # generic points: off every atomic z-axis
            gg = np.asarray(it(Q, deriv=1), dtype=float)
            _, wg = poly_eval(ps, Q, grad=True)
            rmin = np.min([np.linalg.norm(Q - cc, axis=1) for cc in centers], axis=0)
            e, j = worst(gg - wg, (size * (1 + 1 / rmin))[:, None] + 0 * gg)
            if not e <= 1e-8:
                return False, f"gradient at {Q[j // 3].tolist()}: {gg[j // 3].tolist()}, polynomial {wg[j // 3].tolist()}"
            return True, None
        col.check(f"MolGrid.interpolate:cubic-polynomial-reproduced:{natom}atoms", c_poly, inputs=dict(inp, polynomial=ps))

    def c_store():
        m2 = MolGrid(atnums, atgrids, np.ones(total), store=False)
        try:
            m2.interpolate(fvals)
            return False, "interpolation without stored atomic grids did not raise"
        except ValueError:
            return True, None
    col.check("MolGrid.interpolate:requires-stored-atomic-grids", c_store, inputs=inp, nontrivial=False)


# ----------------------------------------------------------------------------------------------------------------------
# stale state: the cached harmonic basis and repeated use of one grid
# ----------------------------------------------------------------------------------------------------------------------
def state_contract(col, g, tier):
    spec = grid_spec(g, "lebedev", "mixed", "r0node", tier)
    inp = {"grid": spec}

    def chk():
        a = make_grid(spec)
        b = make_grid(spec)
        band = min(int(np.min(a.degrees)) // 2, L_CAP)
        f1 = eval_function(func_spec(g, band, True), a)
        f2 = eval_function(func_spec(g, band, True), a)
        P = eval_points(g, spec)["generic"]
        # grid a: many calls in mixed order; grid b: only the last call
        a.spherical_average(f1)
        it1 = a.interpolate(f1)
        v1 = np.asarray(it1(P), dtype=float).copy()
        a.integrate_angular_coordinates(f2)
        it2 = a.interpolate(f2)
        it1(P, deriv=1)
        v2 = np.asarray(it2(P), dtype=float)
        if not np.array_equal(np.asarray(it1(P), dtype=float), v1):
            return False, "an interpolant changed after the grid was used for another function"
        w2 = np.asarray(b.interpolate(f2)(P), dtype=float)
        if not np.allclose(v2, w2, rtol=1e-13, atol=1e-15):
            return False, "the interpolant depends on the earlier use of the grid"
        if a.basis is None or np.asarray(a.basis).shape != ((int(np.max(a.degrees)) // 2 + 1) ** 2, a.size):
            return False, "cached basis has the wrong shape"
        try:
            a.radial_component_splines(f1[:-1])
            return False, "values of the wrong size accepted"
        except ValueError:
            pass
        return True, None
    col.check("repeated-use-of-one-grid", chk, inputs=inp)

    # several grids in one process that share method and degrees but differ in rotation seed / centre: the decomposition of each
    # must be exact for its own orientation (no state may be shared between instances)
    for method in ("lebedev", "maxdet"):
        base = grid_spec(g, method, "mixed", "positive", tier)

        def chk2(base=base):
            seeds = [0, 11, 12, 0]
            centres = [[0.0, 0.0, 0.0], [0.3, -0.2, 0.5], [0.0, 0.0, 0.0], [0.1, 0.0, 0.0]]
            for sd, ctr in zip(seeds, centres):
                spec2 = dict(base, rotate=sd, center=ctr)
                gr = make_grid(spec2)
                band = min(int(np.min(gr.degrees)) // 2, L_CAP)
                fs = func_spec(g, band, True)
                fv = eval_function(fs, gr)
                splines = gr.radial_component_splines(fv)
                r = gr.rgrid.points
                want = g_radial(fs, r)                                # rows (l,m) x shells
                got = np.array([sp(r) for sp in splines])[: want.shape[0]]
                if not np.allclose(got, want, rtol=1e-9, atol=1e-9 * max(1.0, float(np.max(np.abs(want))))):
                    return False, f"grid with rotation seed {sd} built after other grids of the same method/degrees: splines miss g_lm(r_i) by {float(np.max(np.abs(got - want))):.3g}"
                vals = np.asarray(gr.interpolate(fv)(gr.points), dtype=float)
                if not np.allclose(vals, fv, rtol=1e-9, atol=1e-9 * max(1.0, float(np.max(np.abs(fv))))):
                    return False, f"grid with rotation seed {sd}: the interpolant does not reproduce the grid values"
            return True, None
        col.check(f"several-instances-same-degrees-different-rotation:{method}", chk2, inputs={"grid": base})


# ----------------------------------------------------------------------------------------------------------------------
# oracle self check (the driver's own harmonics against SciPy's complex harmonics)
# ----------------------------------------------------------------------------------------------------------------------
def oracle_selfcheck(col, g):
    def chk():
        from scipy.special import sph_harm_y
        u = g.normal(size=(12, 3))
        u /= np.linalg.norm(u, axis=1)[:, None]
        u[0] = [0, 0, 1]
        u[1] = [0, 0, -1]
        pol = np.arccos(np.clip(u[:, 2], -1, 1))
        az = np.arctan2(u[:, 1], u[:, 0])
        Y, G = cart_harmonics(8, u, grad=True)
        for row, (l, m) in enumerate(lm_rows(8)):
            cpx = sph_harm_y(l, abs(m), pol, az) * (-1.0) ** abs(m)
            want = cpx.real if m == 0 else math.sqrt(2) * (cpx.real if m > 0 else cpx.imag)
            if not np.allclose(Y[row], want, rtol=0, atol=2e-13):
                return False, f"own harmonic (l,m)=({l},{m}) differs from SciPy's"
        # own gradient against central differences of the own values
        h = 1e-6
        for a in range(3):
            e = np.zeros(3)
            e[a] = h
            up, dn = u + e, u - e
            fu = cart_harmonics(8, up / np.linalg.norm(up, axis=1)[:, None])
            fd = cart_harmonics(8, dn / np.linalg.norm(dn, axis=1)[:, None])
            tang = G - np.einsum("knj,nj->kn", G, u)[:, :, None] * u[None]
            if not np.allclose((fu - fd) / (2 * h), tang[:, :, a], rtol=0, atol=5e-7):
                return False, "own gradient of the harmonics differs from central differences"
        return True, None
    col.check("oracle:harmonics-selfcheck", chk, nontrivial=False)


# ----------------------------------------------------------------------------------------------------------------------
# entry points
# ----------------------------------------------------------------------------------------------------------------------
RULE = ("real AtomGrid (4 angular methods; uniform, per-shell, size-specified and pruned degrees incl. untabulated requests; radial "
        "grids: random, with a node at r=0, with shells below/at/above the 1e-8 switch, Becke-transformed Gauss-Legendre, Clenshaw-Curtis on "
        "[0,R]; random centres and rotation seeds) on random band-limited functions sum_{l<=min(d_i//2,6)} g_lm(r) Y_lm with closed-form "
        "radial factors: angular integrals = sqrt(4 pi) g_00(r_i) (also stacked input), shell sums = grid integral, spherical average "
        "through the knots and integrating back, splines through g_lm(r_i) for every (l,m), interpolant = f at all grid points, "
        "interpolant = sum spline x own polynomial harmonics at generic / axis / plane / extrapolated / centre / z-axis points, Cartesian, "
        "spherical and radial (orders 1-3) derivatives against the analytic derivatives of that sum and against differences of the "
        "interpolant itself, Cartesian polynomials of degree <=3 reproduced everywhere with gradient, brute-force shell sums for "
        "arbitrary values, canonical angles at r=0, MolGrid.interpolate = sum of fresh atomic interpolants of w_A f (Becke, random and "
        "per-atom-constant weights) and exact for cubics; distinct = (clause, function class, method, degree kind, radial kind, rotation, centre)")

RKINDS = ["positive", "r0node", "tiny", "becke", "cc-r0"]
DEGKINDS = ["uniform", "mixed", "pruned", "sizes"]


def safe(col, label, fn, *args, **kw):
    """never let an exception escape: a crash of the driver decides nothing, a failed case does."""
    try:
        fn(*args, **kw)
    except Exception as e:  # noqa: BLE001
        col.case(f"{label}:raised", False, f"{type(e).__name__}: {e} (raised outside a contract evaluation)", inputs={"label": label})


def family(col, g, tier, only=None):
    combos = []
    for mi, method in enumerate(METHODS):
        for di, degkind in enumerate(DEGKINDS):
            if tier == "quick":
                rks = [RKINDS[(mi + di) % 3], RKINDS[3 + (mi + di) % 2]] if degkind != "sizes" else [RKINDS[(mi + 1) % 3]]
            else:
                rks = RKINDS
            for rkind in rks:
                combos.append((method, degkind, rkind))
    reps = 1 if tier == "quick" else 3
    for rep in range(reps):
        for method, degkind, rkind in combos:
            if only and not any(o in (method, degkind, rkind) for o in only):
                continue
            spec = grid_spec(g, method, degkind, rkind, tier)
            safe(col, f"atomic-grid-contracts:{variant(spec)}", atom_family, col, g, spec, n_func=2 if tier == "quick" else 3)


def run(tier, seed, *rest):
    col = Collector(RULE)
    g = rng(seed, "C09")
    oracle_selfcheck(col, g)
    family(col, g, tier)
    for k in range(6 if tier == "quick" else 24):
        safe(col, "MolGrid.interpolate", mol_family, col, g, tier, k)
    for _ in range(1 if tier == "quick" else 4):
        safe(col, "repeated-use-of-one-grid", state_contract, col, g, tier)
    return col.result()


def _first_unknown(col):
    fails = [f for f in col.failures if ":known-" not in f["case_id"]]
    return fails[0] if fails else None


def replay(req):
    spec = req.get("spec") or {}
    text = " ".join(str(v) for v in (req.get("obligation", ""), spec.get("fn", ""), spec.get("what", ""))).lower()
    col = Collector("replay")
    g = rng(req.get("seed", 0), "C09-replay")
    if "molgrid" in text or "molecul" in text:
        for k in range(9):
            safe(col, "MolGrid.interpolate", mol_family, col, g, "quick", k)
    else:
        only = [m for m in METHODS if m in text] or None
        family(col, g, "quick", only=only)
        safe(col, "repeated-use-of-one-grid", state_contract, col, g, "quick")
        if "interpolate" not in text and "spline" not in text and "angular" not in text and "average" not in text:
            for k in range(6):
                safe(col, "MolGrid.interpolate", mol_family, col, g, "quick", k)
    f = _first_unknown(col)
    if f:
        return {"failed": True, "case_id": f["case_id"], "detail": f["detail"], "input": f["input"]}
    return {"failed": False, "detail": f"{col.evaluations} native contract evaluations passed"}


def replay_case(case):
    cid = case.get("case_id", "")
    base = cid.split(":known-")[0]
    inp = case.get("input") or {}
    col = Collector("replay-case")
    if isinstance(inp, dict) and isinstance(inp.get("grid"), dict):
        safe(col, "atomic-grid-contracts", atom_family, col, rng(0, "C09-case"), inp["grid"], n_func=2)
    else:
        out = run("quick", 0)
        col.failures = out["failures"]
    same = [f for f in col.failures if f["case_id"].split(":known-")[0] == base]
    pick = same or [f for f in col.failures if f["case_id"].split(":")[0] == base.split(":")[0] and ":known-" not in f["case_id"]]
    if pick:
        f = pick[0]
        return {"failed": True, "case_id": f["case_id"], "detail": f["detail"], "input": f["input"]}
    return {"failed": False}
