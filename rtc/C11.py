"""Bounded run-time contracts for C11 (periodic local grids) on the real PeriodicGrid, native NumPy/SciPy.

Oracle: brute-force enumeration.  For the parent points P (the grid's own points, separately checked to be the user's
points plus integer lattice combinations when wrapping was requested), lattice A (K rows), centre c and radius r, every
integer vector n in a box that exceeds the sphere by two cells per lattice direction is visited and the distance
|P_i + n A - c| is computed directly.  The box comes from an own derivation: coefficients by the Gram system
(A A^T) f = A (c - P_i), plane spacings by Gram-Schmidt (length of a_k minus its projection on the other vectors);
neither the library's SVD pseudo-inverse nor its ceil/floor bounds are used.  The returned local grid is decoded into
(parent index, integer translation) pairs and compared as a set: every pair with distance <= r - tol must be there
exactly once, no pair with distance > r + tol may be there, stored position = parent point + n A, weight = parent weight.
"""
import itertools
import warnings

import numpy as np

from grid.basegrid import Grid, LocalGrid
from grid.periodicgrid import PeriodicGrid
from rtc.common import Collector, rng

DIMS = {"1f": 1, "1c": 1, "2d": 2, "3d": 3}      # 1f: points of shape (N,), 1c: points of shape (N, 1)
QUERIES = [("point", "zero"), ("in", "empty"), ("far", "empty"), ("in", "small"), ("far", "small"), ("in", "cell"),
           ("far", "cell"), ("point", "cell"), ("in", "large"), ("far", "large")]
KNOWN_KEEP = 3      # failure records kept per recorded defect (the Collector stores at most 40 failures in total)


# ---------------------------------------------------------------------------------------------------------------
# independent linear algebra of the oracle
# ---------------------------------------------------------------------------------------------------------------
def lattice_coeffs(A, T):
    """Coefficients f (rows) of the orthogonal projection of the rows of T on span(rows of A): (A A^T) f = A t."""
    T = np.atleast_2d(np.asarray(T, dtype=float))
    if A.shape[0] == 0:
        return np.zeros((T.shape[0], 0))
    return np.linalg.solve(A @ A.T, A @ T.T).T


def plane_spacings(A):
    """Distance between adjacent lattice planes k: length of a_k minus its projection on the other lattice vectors."""
    K = A.shape[0]
    s = np.zeros(K)
    for k in range(K):
        rest = np.delete(A, k, axis=0)
        v = A[k] - lattice_coeffs(rest, A[k])[0] @ rest
        s[k] = np.linalg.norm(v)
    return s


def image_box(P, A, c, r, margin=2):
    K = A.shape[0]
    if K == 0:
        return np.zeros(0, int), np.zeros(0, int)
    f = lattice_coeffs(A, c[None, :] - P)
    s = plane_spacings(A)
    lo = np.floor(f.min(axis=0) - r / s).astype(int) - margin
    hi = np.ceil(f.max(axis=0) + r / s).astype(int) + margin
    return lo, hi


def brute_force(P, A, c, r):
    """All integer vectors n of the box (L, K) and the distances |P_i + n A - c| (L, N)."""
    K = A.shape[0]
    lo, hi = image_box(P, A, c, r)
    if K:
        ns = np.array(list(itertools.product(*[range(a, b + 1) for a, b in zip(lo, hi)])), dtype=int).reshape(-1, K)
    else:
        ns = np.zeros((1, 0), dtype=int)
    shifts = ns.astype(float) @ A if K else np.zeros((1, P.shape[1]))
    D = np.linalg.norm(P[None, :, :] + shifts[:, None, :] - c[None, None, :], axis=2)
    return ns, D


def box_count(P, A, c, r):
    lo, hi = image_box(P, A, c, r)
    return int(np.prod((hi - lo + 1).astype(float))) if len(lo) else 1


def nearest_image_distance(P, A, c):
    r0 = float(np.sum(np.linalg.norm(A, axis=1))) + 2.0 if A.shape[0] else 0.0
    _, D = brute_force(P, A, c, r0)
    return float(D.min())


# ---------------------------------------------------------------------------------------------------------------
# input family
# ---------------------------------------------------------------------------------------------------------------
def cells_for(M, K):
    if K == 0:
        return ["none"]
    return ["ortho", "negative", "longshort"] if M == 1 else ["ortho", "skew", "negative", "longshort", "rotated"]


def make_cell(g, M, K, cell):
    """K lattice vectors (rows) in M dimensions; condition number bounded so that tolerances stay meaningful."""
    if K == 0:
        return np.zeros((0, M))
    for _ in range(200):
        B = np.zeros((K, M))
        L = g.uniform(0.7, 1.5, K)
        if cell == "longshort":
            if M == 1:
                L = np.array([0.33 if g.random() < 0.5 else 2.6]) * g.uniform(0.9, 1.1, 1)
            else:
                L = g.permutation(np.array([0.33, 2.6, 0.9]))[:K] * g.uniform(0.9, 1.1, K)
                if K == 1:
                    L = np.array([0.33 if g.random() < 0.5 else 2.6])
        axes = g.permutation(M)[:K]                 # lattice vectors along randomly chosen distinct axes
        B[np.arange(K), axes] = L
        if M > 1 and cell != "ortho":
            B = B + g.uniform(-0.4, 0.4, (K, M)) * (0.35 if cell == "longshort" else 1.0)
        if cell == "negative":
            signs = g.choice([-1.0, 1.0], K)
            signs[int(g.integers(K))] = -1.0
            B = B * signs[:, None]
        if cell == "rotated":
            Q, _ = np.linalg.qr(g.normal(size=(M, M)))
            B = B @ Q
            if g.random() < 0.5:
                B = B[::-1].copy()                  # changes the handedness as well
        sv = np.linalg.svd(B, compute_uv=False)
        if sv.min() / sv.max() > (1.0 / 40.0 if cell == "longshort" else 1.0 / 12.0):
            return B
    raise RuntimeError("no admissible cell generated")


def make_points(g, A, M, pts, many):
    K = A.shape[0]
    N = int(g.integers(18, 41)) if many else int(g.integers(1, 9))   # > 16 points: the k-d tree has several leaves, ball queries come unsorted
    F = g.uniform(0.0, 1.0, (N, K)) if pts == "in" else g.uniform(-2.5, 3.5, (N, K))
    if pts == "in" and N >= 3:
        F[0, :] = 0.0                               # a point on the cell corner
    R = g.uniform(-0.8, 0.8, (N, M))
    if K == M:
        X = F @ A
    elif K == 0:
        X = R * 1.5
    else:
        X = F @ A + (R - lattice_coeffs(A, R) @ A)  # components outside the lattice span are free
    return X, g.uniform(0.1, 1.0, N)


def parent_points(inp):
    """The points the grid will hold; taken from the real constructor so that 'point' centres hit them exactly."""
    X = np.array(inp["points"], dtype=float)
    try:
        pts, W, vecs, _ = build_args(dict(inp, center=[0.0] * X.shape[1], radius=0.0))
        with warnings.catch_warnings():
            warnings.simplefilter("ignore")
            grid = PeriodicGrid(pts, W, vecs, wrap=inp["wrap"])
        P = np.asarray(grid.points, dtype=float).reshape(X.shape)
        if np.all(np.isfinite(P)):
            return P
    except Exception:  # noqa: BLE001
        pass
    return X


def make_query(g, inp, centre, radius, cap):
    """Concrete centre and radius for one (centre kind, radius kind)."""
    X = np.array(inp["points"], dtype=float)
    A = np.array(inp["realvecs"], dtype=float).reshape(inp["K"], X.shape[1])
    K, M = A.shape
    P = parent_points(inp)
    lengths = np.linalg.norm(A, axis=1) if K else np.array([1.0])
    if centre == "point":
        i0 = int(g.integers(len(P)))
        c = P[i0].copy()
        if radius != "zero" and K:
            c = c + g.integers(-2, 3, K).astype(float) @ A
    elif K == 0:
        c = (X.mean(axis=0) + g.uniform(-0.3, 0.3, M)) if centre == "in" else (X[int(g.integers(len(X)))] + g.uniform(-1.5, 1.5, M))
    else:
        fc = g.uniform(0.0, 1.0, K) if centre == "in" else g.uniform(3.0, 7.0, K) * g.choice([-1.0, 1.0], K)
        c = fc @ A + g.uniform(-0.3, 0.3, M)
    if radius == "zero":
        r = 0.0
    else:
        dmin = nearest_image_distance(P, A, c)
        if radius == "empty":
            r = 0.5 * dmin
        elif radius == "small":
            r = 1.3 * dmin + 0.02
        elif radius == "cell":
            r = max(0.9 * float(np.median(lengths)), 1.3 * dmin + 0.02)
        else:
            r = max((2.3 if M < 3 else 1.7) * float(lengths.max()), 1.3 * dmin + 0.02)
            while box_count(P, A, c, r) > cap and r > 1.3 * dmin + 0.05:
                r *= 0.85
    return c, float(r)


def build_args(inp):
    """Arguments in the form the library documents: (N,) / (N, M) points, (K,) / (K, M) lattice vectors, float / (M,) centre."""
    M = DIMS[inp["dimtag"]]
    K = inp["K"]
    flat = inp["dimtag"] == "1f"
    X = np.array(inp["points"], dtype=float).reshape(-1, M)
    A = np.array(inp["realvecs"], dtype=float).reshape(K, M)
    c = np.array(inp["center"], dtype=float).reshape(M)
    pts = X[:, 0].copy() if flat else X.copy()
    if K == 0 and inp.get("none_vecs", True):
        vecs = None
    else:
        vecs = A[:, 0].copy() if flat else A.copy()
    cen = float(c[0]) if flat else c.copy()
    return pts, np.array(inp["weights"], dtype=float), vecs, cen


def grid_specs(tier):
    reps = 2 if tier == "quick" else 20
    for rep in range(reps):
        for dimtag, M in DIMS.items():
            for K in range(M + 1):
                for cell in cells_for(M, K):
                    for wrap in (False, True):
                        for pts in ("in", "out"):
                            yield {"dimtag": dimtag, "K": K, "cell": cell, "wrap": wrap, "pts": pts, "rep": rep}


def make_grid_input(seed, ordinal, spec):
    g = rng(int(seed) * 100003 + ordinal, "C11")
    M = DIMS[spec["dimtag"]]
    A = make_cell(g, M, spec["K"], spec["cell"])
    X, W = make_points(g, A, M, spec["pts"], many=(ordinal + spec["rep"]) % 3 == 0)
    inp = dict(spec)
    inp.update({"points": X.tolist(), "weights": W.tolist(), "realvecs": A.tolist(), "none_vecs": bool((ordinal + spec["rep"]) % 2 == 0)})
    return g, inp


def grid_tag(inp):
    return f"{inp['dimtag']}:K{inp['K']}:{inp['cell']}:{'wrap' if inp['wrap'] else 'nowrap'}:{inp['pts']}"


# ---------------------------------------------------------------------------------------------------------------
# recorded defects: exact signatures
# ---------------------------------------------------------------------------------------------------------------
def mark_known(col, nfail_before, known_counts, slug):
    """Rename the failure that was just recorded; keep only a few records per recorded defect."""
    if len(col.failures) == nfail_before:
        return                                       # the Collector's list was already full: nothing was recorded
    col.failures[-1]["case_id"] += ":known-" + slug
    known_counts[slug] = known_counts.get(slug, 0) + 1
    if known_counts[slug] > KNOWN_KEEP:
        col.failures.pop()


def negative_flat_vector(inp, grid):
    """Flat 1-D points, one negative lattice vector, and the grid reports that vector itself (negative) as plane spacing."""
    if inp["dimtag"] != "1f" or inp["K"] != 1 or grid is None:
        return False
    a = float(np.array(inp["realvecs"], dtype=float).reshape(-1)[0])
    try:
        s = np.asarray(grid.spacings, dtype=float).reshape(-1)
    except Exception:  # noqa: BLE001
        return False
    return a < 0 and s.shape == (1,) and s[0] < 0 and abs(s[0] - a) <= 1e-12 * abs(a)


def shipped_range_is_empty(grid, cen, r):
    """Signature of a recorded defect (not an oracle): the shipped integer range, from the grid's own attributes, is empty."""
    try:
        fi = np.asarray(grid.frac_intvls, dtype=float)
        rec = np.asarray(grid.recivecs, dtype=float)
        fc = rec * cen if np.ndim(grid.points) == 1 else rec @ np.asarray(cen, dtype=float)
        lo = np.ceil(fi[:, 0] - fc - r / grid.spacings)
        hi = np.floor(fi[:, 1] - fc + r / grid.spacings)
        return bool(np.all(grid.spacings > 0) and np.any(lo > hi))
    except Exception:  # noqa: BLE001
        return False


def flat_without_vectors(inp, ctx, detail):
    return (inp["dimtag"] == "1f" and inp["K"] == 0 and ctx.get("phase") == "construct"
            and (detail.startswith("ValueError: operands could not be broadcast together with shapes")
                 or detail.startswith("ValueError: zero-size array to reduction operation")))


# ---------------------------------------------------------------------------------------------------------------
# contracts
# ---------------------------------------------------------------------------------------------------------------
def construct_contract(col, inp, known_counts):
    """Clauses (1), (2): reciprocal vectors, plane spacings, wrapping by integer lattice combinations, fractional extent."""
    M = DIMS[inp["dimtag"]]
    K = inp["K"]
    X = np.array(inp["points"], dtype=float).reshape(-1, M)
    A = np.array(inp["realvecs"], dtype=float).reshape(K, M)
    N = len(X)
    pts, W, vecs, _ = build_args(dict(inp, center=[0.0] * M, radius=0.0))
    pts0, W0, vecs0 = pts.copy(), W.copy(), None if vecs is None else vecs.copy()
    scale = 1.0 + float(np.abs(X).max()) + (float(np.abs(A).max()) if K else 0.0)
    ctx = {"phase": "construct", "grid": None}

    def chk():
        with warnings.catch_warnings():
            warnings.simplefilter("ignore")
            grid = PeriodicGrid(pts, W, vecs, wrap=inp["wrap"]) if inp["rep"] % 2 == 0 else PeriodicGrid(pts, W, realvecs=vecs, wrap=inp["wrap"])
        ctx["grid"] = grid
        ctx["phase"] = "verify"
        if not isinstance(grid, Grid):
            return False, "not a Grid"
        if not (np.array_equal(pts, pts0) and np.array_equal(W, W0) and (vecs is None or np.array_equal(vecs, vecs0))):
            return False, "the caller's arrays were modified"
        if np.shape(grid.points) != pts.shape or grid.size != N or np.shape(grid.weights) != (N,):
            return False, f"points {np.shape(grid.points)}, weights {np.shape(grid.weights)} for input points {pts.shape}"
        if not np.array_equal(grid.weights, W0):
            return False, "weights differ from the given weights"
        P = np.asarray(grid.points, dtype=float).reshape(N, M)
        want_vec_shape = (K,) + pts.shape[1:]
        if np.shape(grid.realvecs) != want_vec_shape or not np.array_equal(np.asarray(grid.realvecs).reshape(K, M), A):
            return False, f"realvecs {np.shape(grid.realvecs)} are not the given lattice vectors {want_vec_shape}"
        if np.shape(grid.recivecs) != want_vec_shape:
            return False, f"recivecs have shape {np.shape(grid.recivecs)}, expected {want_vec_shape}"
        R = np.asarray(grid.recivecs, dtype=float).reshape(K, M)
        if K:
            sv = np.linalg.svd(A, compute_uv=False)
            if not np.allclose(R @ A.T, np.eye(K), rtol=0, atol=1e-11 * sv.max() / sv.min()):
                return False, f"recivecs . realvecs^T is not the identity: {(R @ A.T).tolist()}"
        # wrapping: integer lattice combination added, result inside the cell, order kept; no wrapping: points untouched
        if inp["wrap"] and K:
            shift = P - X
            co = lattice_coeffs(A, shift)
            n = np.rint(co)
            if not np.allclose(shift, n @ A, rtol=0, atol=1e-11 * scale):
                i = int(np.argmax(np.linalg.norm(shift - n @ A, axis=1)))
                return False, f"wrapped point {i} = {P[i].tolist()} is not the given point {X[i].tolist()} plus an integer lattice combination"
            fr = lattice_coeffs(A, P)
            if fr.min() < -1e-9 or fr.max() > 1 + 1e-9:
                return False, f"wrapped fractional coordinates span [{fr.min():.6g}, {fr.max():.6g}], not [0, 1["
        elif not np.array_equal(P, X):
            return False, "points changed although wrap was not requested"
        fi = np.asarray(grid.frac_intvls, dtype=float)
        if fi.shape != (K, 2):
            return False, f"frac_intvls has shape {fi.shape}, expected {(K, 2)}"
        if K:
            fr = lattice_coeffs(A, P)
            if not (np.allclose(fi[:, 0], fr.min(axis=0), rtol=0, atol=1e-10 * scale) and np.allclose(fi[:, 1], fr.max(axis=0), rtol=0, atol=1e-10 * scale)):
                return False, f"frac_intvls {fi.tolist()} are not the extent of the fractional coordinates {[fr.min(axis=0).tolist(), fr.max(axis=0).tolist()]}"
        sp = np.asarray(grid.spacings, dtype=float)
        if sp.shape != (K,):
            return False, f"spacings has shape {sp.shape}, expected {(K,)}"
        if K:
            want = plane_spacings(A)
            if not np.all(sp > 0):
                return False, f"spacing between lattice planes is not positive: {sp.tolist()} (geometric distance {want.tolist()})"
            if not np.allclose(sp, want, rtol=1e-9, atol=0):
                return False, f"spacing between lattice planes {sp.tolist()}, geometric distance {want.tolist()}"
        return True, None
    cid = "construct:" + grid_tag(inp)
    nf = len(col.failures)
    ok = col.check(cid, chk, inputs=dict(inp, clause="construct"),
                   sample={"clause": "construct", "dimtag": inp["dimtag"], "K": K, "cell": inp["cell"], "wrap": inp["wrap"], "pts": inp["pts"], "N": N})
    if not ok and len(col.failures) > nf:
        detail = col.failures[-1]["detail"] or ""
        if flat_without_vectors(inp, ctx, detail):
            mark_known(col, nf, known_counts, "1d-no-lattice-constructor")
        elif detail.startswith("spacing between lattice planes is not positive") and negative_flat_vector(inp, ctx["grid"]):
            mark_known(col, nf, known_counts, "negative-1d-spacing")
    return ok


def localgrid_contract(col, inp, known_counts):
    """Clauses (3)-(6): the local grid is exactly the set of (point, translation) pairs inside the sphere, each once."""
    M = DIMS[inp["dimtag"]]
    K = inp["K"]
    flat = inp["dimtag"] == "1f"
    A = np.array(inp["realvecs"], dtype=float).reshape(K, M)
    c = np.array(inp["center"], dtype=float).reshape(M)
    r = float(inp["radius"])
    pts, W, vecs, cen = build_args(inp)
    N = len(pts)
    pts0, W0, vecs0 = pts.copy(), W.copy(), None if vecs is None else vecs.copy()
    cen0 = np.array(cen, dtype=float).copy()
    ctx = {"phase": "construct", "grid": None, "expected_empty": None, "nothing_strictly_inside": None}

    def chk():
        with warnings.catch_warnings():
            warnings.simplefilter("ignore")
            grid = PeriodicGrid(pts, W, vecs, wrap=inp["wrap"])
        ctx["grid"] = grid
        ctx["phase"] = "oracle"
        P = np.array(grid.points, dtype=float).reshape(N, M)         # parent points (checked by the construct clause)
        Pw = np.array(grid.weights, dtype=float)
        tol = 1e-9 * (1.0 + r + float(np.abs(c).max()) + float(np.abs(P).max()) + (float(np.abs(A).max()) if K else 0.0))
        ns, D = brute_force(P, A, c, r)
        must = D <= r - tol                           # images within tol of the surface may or may not be returned
        may = D <= r + tol
        ctx["expected_empty"] = not bool(may.any())
        ctx["nothing_strictly_inside"] = not bool(must.any())
        must_pairs = {(int(i), tuple(int(v) for v in ns[l])) for l, i in zip(*np.nonzero(must))}
        ctx["phase"] = "query"
        if inp.get("warm"):
            try:                                    # an earlier query on the same grid must not influence this one
                grid.get_localgrid(P[0, 0] if flat else P[0].copy(), 1e-3 + 0.37 * r)
            except Exception:  # noqa: BLE001
                pass
        arg_c = cen if flat or not inp.get("center_as_list") else [float(v) for v in cen]
        lg = grid.get_localgrid(arg_c, r)
        ctx["phase"] = "verify"
        if not isinstance(lg, LocalGrid):
            return False, f"result is a {type(lg).__name__}, not a LocalGrid"
        if not (np.array_equal(pts, pts0) and np.array_equal(W, W0) and (vecs is None or np.array_equal(vecs, vecs0)) and np.array_equal(np.asarray(cen), cen0)):
            return False, "the caller's arrays were modified"
        if not (np.array_equal(np.asarray(grid.points, dtype=float).reshape(N, M), P) and np.array_equal(grid.weights, Pw)):
            return False, "the parent grid was modified by the query"
        if not np.array_equal(np.asarray(lg.center, dtype=float).reshape(-1), c):
            return False, f"centre of the local grid {lg.center} is not the requested centre {c.tolist()}"
        n_loc = len(lg.points)
        if len(lg.weights) != n_loc or lg.indices is None or len(lg.indices) != n_loc or lg.size != n_loc:
            return False, f"inconsistent lengths: {n_loc} points, {len(lg.weights)} weights, indices {None if lg.indices is None else len(lg.indices)}"
        if n_loc:
            if np.shape(lg.points) != (n_loc,) + pts.shape[1:] or np.shape(lg.weights) != (n_loc,) or np.shape(lg.indices) != (n_loc,):
                return False, f"shapes: points {np.shape(lg.points)}, weights {np.shape(lg.weights)}, indices {np.shape(lg.indices)}"
            idx = np.asarray(lg.indices)
            if idx.dtype.kind not in "iu" or idx.min() < 0 or idx.max() >= N:
                return False, f"indices {idx.tolist()} are not valid parent indices (dtype {idx.dtype}, parent size {N})"
            LP = np.asarray(lg.points, dtype=float).reshape(n_loc, M)
            T = LP - P[idx]
            n_out = np.rint(lattice_coeffs(A, T)).astype(int) if K else np.zeros((n_loc, 0), int)
            back = P[idx] + (n_out.astype(float) @ A if K else 0.0)
            if not np.allclose(LP, back, rtol=0, atol=tol):
                l = int(np.argmax(np.linalg.norm(LP - back, axis=1)))
                return False, (f"position: local point {l} = {LP[l].tolist()} with parent index {int(idx[l])} is not the parent point "
                               f"{P[idx[l]].tolist()} plus an integer lattice translation (nearest: {n_out[l].tolist()})")
            if not np.array_equal(np.asarray(lg.weights, dtype=float), Pw[idx]):
                l = int(np.argmax(np.asarray(lg.weights) != Pw[idx]))
                return False, f"weight: local point {l} has weight {lg.weights[l]!r}, parent {int(idx[l])} has {Pw[idx[l]]!r}"
            dist = np.linalg.norm(back - c[None, :], axis=1)
            if np.any(dist > r + tol):
                l = int(np.argmax(dist))
                return False, f"outside: image {n_out[l].tolist()} of point {int(idx[l])} at distance {dist[l]:.12g} > radius {r:.12g}"
            got = [(int(i), tuple(int(v) for v in n)) for i, n in zip(idx, n_out)]
            if len(set(got)) != len(got):
                dup = sorted({p for p in got if got.count(p) > 1})[0]
                return False, f"duplicate: image {list(dup[1])} of point {dup[0]} occurs {got.count(dup)} times"
        else:
            got = []
        missing = sorted(must_pairs - set(got))
        if missing:
            i, n = missing[0]
            l = int(np.nonzero(np.all(ns == np.array(n, dtype=int).reshape(1, K), axis=1))[0][0])
            return False, (f"missing: {len(missing)} of {len(must_pairs)} images inside the sphere are absent, e.g. point {i} translated by "
                           f"{list(n)} lattice vectors at distance {D[l, i]:.12g} <= radius {r:.12g}")
        if K == 0 and n_loc:
            plain = Grid(pts.copy(), W.copy()).get_localgrid(cen, r)
            if sorted(np.asarray(plain.indices).tolist()) != sorted(np.asarray(lg.indices).tolist()):
                return False, f"plain-grid: without lattice vectors indices {sorted(lg.indices.tolist())}, Grid.get_localgrid gives {sorted(plain.indices.tolist())}"
        return True, None
    cid = f"localgrid:{grid_tag(inp)}:{inp['centre']}-{inp['rkind']}"
    nf = len(col.failures)
    ok = col.check(cid, chk, inputs=dict(inp, clause="localgrid"),
                   sample={"clause": "localgrid", "dimtag": inp["dimtag"], "K": K, "cell": inp["cell"], "wrap": inp["wrap"], "pts": inp["pts"],
                           "N": N, "centre": inp["centre"], "radius": r})
    if not ok and len(col.failures) > nf:
        detail = col.failures[-1]["detail"] or ""
        if flat_without_vectors(inp, ctx, detail):
            mark_known(col, nf, known_counts, "1d-no-lattice-constructor")
        elif negative_flat_vector(inp, ctx["grid"]) and ((ctx["phase"] == "query" and (detail.startswith("AssertionError") or detail == "ValueError: need at least one array to concatenate"))
                                                        or (ctx["phase"] == "verify" and detail.startswith("missing:"))):
            # negative spacing turns the enlargement of the integer range by r/s into a reduction: assertion, or images lost
            mark_known(col, nf, known_counts, "negative-1d-spacing")
        elif ctx["phase"] == "query" and ctx["nothing_strictly_inside"] and detail == "ValueError: need at least one array to concatenate":
            mark_known(col, nf, known_counts, "empty-sphere")
        elif (ctx["phase"] == "query" and ctx["nothing_strictly_inside"] and detail.startswith("AssertionError")
              and shipped_range_is_empty(ctx["grid"], cen, r)):
            mark_known(col, nf, known_counts, "empty-range-assertion")
    return ok


def validation_contract(col):
    def chk():
        g2 = PeriodicGrid(np.array([[0.1, 0.2], [0.6, 0.7]]), np.ones(2), np.array([[1.0, 0.0], [0.2, 1.0]]))
        for bad_c, bad_r, what in (([0.1, 0.2], -0.1, "negative radius"), ([0.1, 0.2], float("nan"), "nan radius"),
                                   ([0.1, 0.2, 0.3], 0.5, "centre of wrong length"), (0.1, 0.5, "scalar centre for 2-D points")):
            try:
                g2.get_localgrid(np.array(bad_c), bad_r)
                return False, f"{what} accepted"
            except ValueError:
                pass
        for bad_vecs, what in ((np.array([[1.0, 0.0], [2.0, 0.0]]), "singular lattice vectors"), (np.eye(3)[:, :2], "more lattice vectors than dimensions"),
                               (np.eye(3)[:2], "lattice vectors of another dimension")):
            try:
                PeriodicGrid(np.array([[0.1, 0.2], [0.6, 0.7]]), np.ones(2), bad_vecs)
                return False, f"{what} accepted"
            except ValueError:
                pass
        return True, None
    col.check("argument-validation", chk)


# ---------------------------------------------------------------------------------------------------------------
# drivers
# ---------------------------------------------------------------------------------------------------------------
def family(tier, seed, want=None):
    """Yields ('construct', inp) and ('localgrid', inp); want(spec) filters grid specifications."""
    cap = 2500 if tier == "quick" else 6000
    for ordinal, spec in enumerate(grid_specs(tier)):
        if want is not None and not want(spec):
            continue
        g, ginp = make_grid_input(seed, ordinal, spec)
        yield "construct", ginp
        for q, (centre, rkind) in enumerate(QUERIES):
            c, r = make_query(g, ginp, centre, rkind, cap)
            inp = dict(ginp)
            inp.update({"centre": centre, "rkind": rkind, "center": c.tolist(), "radius": r, "warm": bool((ordinal + q) % 2),
                        "center_as_list": bool((ordinal + q) % 3 == 0)})
            yield "localgrid", inp


def run(tier, seed, *rest):
    col = Collector("real PeriodicGrid on points of shape (N,), (N,1), (N,2), (N,3) with 0..dim lattice vectors (orthogonal along permuted axes, skewed, "
                    "sign-flipped, long/short 8:1, rotated, left-handed; condition <= 40), wrap on/off, points inside the cell or spread over 6 cells, "
                    "1..8 or 18..40 points; per grid 10 queries: radius 0 on a point, empty spheres, just-non-empty, about one cell, several cells; centres inside, "
                    "3..7 cells away and on images of points; local grid decoded to (parent index, integer translation) pairs and compared with brute-force "
                    "enumeration over a box two cells wider than the sphere; constructor: reciprocal identity, Gram-Schmidt plane spacings, wrapping by "
                    "integer combinations, fractional extent; distinct = (clause, point shape, K, cell kind, wrap, point spread, centre kind, radius kind)")
    known_counts = {}
    for clause, inp in family(tier, seed):
        if clause == "construct":
            construct_contract(col, inp, known_counts)
        else:
            localgrid_contract(col, inp, known_counts)
    validation_contract(col)
    return col.result()


def pick(failures):
    for f in failures:
        if ":known-" not in f["case_id"]:
            return f
    return failures[0]


def replay(req):
    spec = req.get("spec") or {}
    dim, K, cell, wrap = spec.get("dim"), spec.get("K"), spec.get("cell"), spec.get("wrap")
    dimtags = {1: ("1f", "1c"), 2: ("2d",), 3: ("3d",)}.get(dim, (dim,) if dim in DIMS else tuple(DIMS))
    if spec.get("flat") is True:
        dimtags = ("1f",)

    def want(s):
        return (s["dimtag"] in dimtags and (K is None or s["K"] == K) and (cell is None or s["cell"] == cell) and (wrap is None or s["wrap"] == bool(wrap)))
    col = Collector("replay")
    known_counts = {}
    for sd in (req.get("seed", 0), req.get("seed", 0) + 1):
        for clause, inp in family("quick", sd, want):
            if spec.get("clause") not in (None, clause):
                continue
            (construct_contract if clause == "construct" else localgrid_contract)(col, inp, known_counts)
    # a recorded defect answers a replay request only if the request was aimed (dimension, K, cell, clause ...) or says so
    aimed = bool(spec.get("known_ok", any(spec.get(k) is not None for k in ("dim", "K", "cell", "wrap", "flat", "clause"))))
    fails = [f for f in col.failures if aimed or ":known-" not in f["case_id"]]
    if fails:
        f = pick(fails)
        return {"failed": True, "case_id": f["case_id"], "detail": f["detail"], "input": f["input"]}
    return {"failed": False, "detail": f"{col.evaluations} native evaluations, no failure other than recorded defects"}


def replay_case(case):
    inp = case.get("input")
    col = Collector("replay-case")
    known_counts = {}
    if isinstance(inp, dict) and "points" in inp and "dimtag" in inp:
        if inp.get("clause") == "localgrid" or "center" in inp:
            localgrid_contract(col, inp, known_counts)
        else:
            construct_contract(col, inp, known_counts)
    elif str(case.get("case_id", "")).startswith("argument-validation"):
        validation_contract(col)
    else:
        return replay({"seed": 0})
    if col.failures:
        f = col.failures[0]
        return {"failed": True, "case_id": f["case_id"], "detail": f["detail"], "input": f["input"]}
    return {"failed": False}
