"""Bounded run-time contracts for C03 (radial transforms) on the real classes, native NumPy.

Oracle: finite differences of the real `transform` (independent of the hand-written derivative
formulas), round trips, end points incl. the infinite ones with trim_inf on/off.
"""
import itertools
import math

import numpy as np

from grid import rtransform as rt
from rtc.common import Collector, parse_num, rng

TOL = 2e-4


def make(cls, p, trim=None):
    kw = {}
    if trim is not None and cls in ("BeckeRTransform", "MultiExpRTransform", "KnowlesRTransform", "HandyRTransform", "HandyModRTransform"):
        kw["trim_inf"] = trim
    C = getattr(rt, cls)
    if cls in ("BeckeRTransform", "MultiExpRTransform"):
        return C(p["rmin"], p["R"], **kw)
    if cls == "LinearFiniteRTransform":
        return C(p["rmin"], p["rmax"])
    if cls == "IdentityRTransform":
        return C()
    if cls in ("LinearInfiniteRTransform", "ExpRTransform", "PowerRTransform"):
        return C(p["rmin"], p["rmax"], p["b"])
    if cls == "HyperbolicRTransform":
        return C(p["a"], p["b"])
    if cls == "KnowlesRTransform":
        return C(p["rmin"], p["R"], p["k"], **kw)
    if cls == "HandyRTransform":
        return C(p["rmin"], p["R"], p["m"], **kw)
    if cls == "HandyModRTransform":
        return C(p["rmin"], p["rmax"], p["m"], **kw)
    raise KeyError(cls)


def sample_params(cls, g, hint=None):
    hint = hint or {}

    def pick(name, lo, hi, integer=False):
        v = hint.get(name)
        if v is not None and lo <= v <= hi and g.random() < 0.5:
            return int(round(v)) if integer and abs(v - round(v)) < 1e-9 else float(v)
        if integer and g.random() < 0.6:
            return int(g.integers(max(1, math.ceil(lo)), max(2, math.floor(hi)) + 1))
        return float(g.uniform(lo, hi))
    p = {}
    if cls in ("BeckeRTransform", "MultiExpRTransform", "KnowlesRTransform", "HandyRTransform"):
        p["rmin"] = pick("rmin", 0.0, 1.0)
        p["R"] = pick("R", 0.3, 3.0)
    if cls == "KnowlesRTransform":
        p["k"] = pick("k", 1, 4.5, integer=True)
    if cls == "HandyRTransform":
        p["m"] = pick("m", 1, 4.5, integer=True)
    if cls in ("LinearFiniteRTransform",):
        p["rmin"] = pick("rmin", 0.0, 1.0)
        p["rmax"] = p["rmin"] + float(g.uniform(0.5, 20))
    if cls in ("LinearInfiniteRTransform", "ExpRTransform", "PowerRTransform"):
        p["rmin"] = pick("rmin", 1e-3, 0.5)
        p["rmax"] = p["rmin"] + float(g.uniform(2, 30))
        p["b"] = pick("b", 1.0, 40.0)
    if cls == "HyperbolicRTransform":
        p["a"] = pick("a", 0.1, 3.0)
        p["b"] = float(g.uniform(0.001, 0.09))
    if cls == "HandyModRTransform":
        p["m"] = pick("m", 1, 4.5, integer=True)
        p["rmin"] = pick("rmin", 0.0, 1.0)
        p["rmax"] = p["rmin"] + 2 ** p["m"] - 1 + float(g.uniform(0.5, 30))
    return p


def interior_points(cls, p, g, n=7):
    if cls in ("BeckeRTransform", "LinearFiniteRTransform", "MultiExpRTransform", "KnowlesRTransform", "HandyRTransform", "HandyModRTransform"):
        return np.sort(g.uniform(-0.9, 0.9, n))
    if cls == "HyperbolicRTransform":
        return np.sort(g.uniform(0.2, 0.8 / p["b"] / max(n - 1, 1) * (n - 1) if False else 8.0, n))
    if cls in ("LinearInfiniteRTransform", "ExpRTransform", "PowerRTransform"):
        return np.sort(g.uniform(0.1, p["b"], n))
    return np.sort(g.uniform(0.1, 10, n))


def fd(f, x, order, h):
    """Central finite differences of orders 1..3, O(h^2)."""
    if order == 1:
        return (f(x + h) - f(x - h)) / (2 * h)
    if order == 2:
        return (f(x + h) - 2 * f(x) + f(x - h)) / h**2
    return (f(x + 2 * h) - 2 * f(x + h) + 2 * f(x - h) - f(x - 2 * h)) / (2 * h**3)


def richardson(f, x, order, h):
    a = fd(f, x, order, h)
    b = fd(f, x, order, h / 2)
    return (4 * b - a) / 3


EPS = 2.3e-16


def fd_tolerance(fvals_scale, ref, got, order, h):
    """Allowed deviation: relative TOL plus the rounding noise of the difference quotient (eps*|f|/h^order)."""
    return TOL * (np.abs(ref) + np.abs(got)) + 400 * EPS * fvals_scale / h**order + 1e-12


def check_derivs(tf, xs, which):
    """deriv/deriv2/deriv3 against Richardson-extrapolated central differences of the real transform and of the
    next lower derivative method (both must disagree for a failure)."""
    order = {"deriv": 1, "deriv2": 2, "deriv3": 3}[which]
    got = np.asarray(getattr(tf, which)(xs), dtype=float)
    if got.shape != xs.shape:
        return False, f"{which} returned shape {got.shape} for input shape {xs.shape}"
    f = lambda t: np.asarray(tf.transform(np.asarray(t, dtype=float)), dtype=float)
    h = {1: 1e-4, 2: 1e-3, 3: 4e-3}[order]
    ref = richardson(f, xs, order, h)
    scale = np.abs(f(xs)) + 1.0
    bad = np.abs(got - ref) > fd_tolerance(scale, ref, got, order, h / 2)
    if order > 1:
        low = {"deriv2": "deriv", "deriv3": "deriv2"}[which]
        g1 = lambda t: np.asarray(getattr(tf, low)(np.asarray(t, dtype=float)), dtype=float)
        ref2 = richardson(g1, xs, 1, 1e-4)
        bad2 = np.abs(got - ref2) > fd_tolerance(np.abs(g1(xs)) + 1.0, ref2, got, 1, 5e-5)
        bad = bad & bad2
    if np.any(bad):
        i = int(np.argmax(bad))
        return False, f"{which}({xs[i]:.6g}) = {got[i]:.10g}, finite difference of transform gives {ref[i]:.10g}"
    return True, None


def run_contracts(col, cls, p, g, tag):
    tf = make(cls, p)
    xs = interior_points(cls, p, g)
    pid = f"{cls}:{tag}"
    inp = {"cls": cls, "params": p, "x": xs.tolist()}
    for which in ("deriv", "deriv2", "deriv3"):
        col.check(f"{cls}:{which}", lambda which=which: check_derivs(tf, xs, which), inputs=inp,
                  sample={"class": cls, "params": p, "method": which})

    def roundtrip():
        rr = tf.transform(xs)
        back = np.asarray(tf.inverse(rr), dtype=float)
        e = np.max(np.abs(back - xs) / (1 + np.abs(xs)))
        if not e < 1e-7:
            return False, f"inverse(transform(x)) deviates by {e:.3g}"
        fwd = np.asarray(tf.transform(np.asarray(tf.inverse(rr), dtype=float)), dtype=float)
        e2 = np.max(np.abs(fwd - rr) / (1 + np.abs(rr)))
        return e2 < 1e-7, f"transform(inverse(r)) deviates by {e2:.3g}"
    col.check(f"{cls}:roundtrip", roundtrip, inputs=inp)

    def monotone():
        rr = np.asarray(tf.transform(xs), dtype=float)
        d = np.diff(rr)
        sgn = -1 if cls == "MultiExpRTransform" else 1
        if not np.all(sgn * d > 0):
            return False, "transform is not strictly monotone with the declared orientation"
        d1 = np.asarray(tf.deriv(xs), dtype=float)
        return bool(np.all(sgn * d1 > 0)), "deriv has the wrong sign"
    col.check(f"{cls}:monotone", monotone, inputs=inp)

    def inverse_derivs():
        rr = np.asarray(tf.transform(xs), dtype=float)
        finv = lambda t: np.asarray(tf.inverse(np.asarray(t, dtype=float)), dtype=float)
        c0, c1 = tf.codomain
        lo_c, hi_c = min(c0, c1), max(c0, c1)
        dist = np.minimum(np.abs(rr - lo_c), np.where(np.isfinite(hi_c), np.abs(hi_c - rr), np.inf))
        dist = np.minimum(dist, 1.0 + np.abs(rr))
        for order, name in ((1, "deriv_inverse"), (2, "deriv2_inverse"), (3, "deriv3_inverse")):
            got = np.asarray(getattr(tf, name)(rr), dtype=float)
            hh = {1: 1e-3, 2: 4e-3, 3: 1.5e-2}[order] * dist          # step relative to the distance from the nearest codomain end
            ref = np.array([richardson(finv, np.array([ri]), order, hi)[0] for ri, hi in zip(rr, hh)])
            tol = 2e-2 * (np.abs(ref) + np.abs(got)) + 4000 * EPS * (np.abs(xs) + 1.0) / (hh / 2) ** order + 1e-10
            err = np.abs(got - ref) - tol
            if np.any(err > 0):
                i = int(np.argmax(err))
                return False, f"{name}({rr[i]:.6g}) = {got[i]:.8g}, finite difference of inverse gives {ref[i]:.8g}"
        itf = rt.InverseRTransform(tf)
        for a, b in (("deriv", "deriv_inverse"), ("deriv2", "deriv2_inverse"), ("deriv3", "deriv3_inverse")):
            u = np.asarray(getattr(itf, a)(rr), dtype=float)
            v = np.asarray(getattr(tf, b)(rr), dtype=float)
            if not np.allclose(u, v, rtol=1e-9, atol=1e-12):
                return False, f"InverseRTransform.{a} differs from {b}"
        if not np.allclose(itf.transform(rr), tf.inverse(rr)) or not np.allclose(itf.inverse(xs), tf.transform(xs)):
            return False, "InverseRTransform.transform/inverse do not delegate"
        return True, None
    if cls != "HyperbolicRTransform":
        col.check(f"{cls}:inverse-derivs", inverse_derivs, inputs=inp)

    def near_ends():
        """Interior points close to the (possibly infinite) ends: still finite, strictly monotone, and inverted by `inverse`."""
        lo, hi = tf.domain
        if cls not in ("BeckeRTransform", "KnowlesRTransform", "HandyRTransform", "MultiExpRTransform"):
            return True, None
        ks = np.array([8.0, 13.0, 20.0, 27.0, 33.0, 40.0])
        # only the end that is mapped to infinity: rounding makes the map flat next to the finite end
        for pts in ((lo + (hi - lo) * 2.0 ** -ks[::-1],) if cls == "MultiExpRTransform" else (hi - (hi - lo) * 2.0 ** -ks,)):
            pts = np.sort(pts)
            with np.errstate(all="ignore"):
                rr = np.asarray(tf.transform(pts), dtype=float)
            if not np.all(np.isfinite(rr)):
                return False, f"non-finite value at an interior point near the end: {pts[~np.isfinite(rr)][0]!r}"
            sgn = -1 if cls == "MultiExpRTransform" else 1
            if not np.all(sgn * np.diff(rr) > 0):
                i = int(np.argmin(sgn * np.diff(rr)))
                return False, f"not strictly monotone near the end: transform({pts[i]!r}) = {rr[i]!r}, transform({pts[i+1]!r}) = {rr[i+1]!r}"
            back = np.asarray(tf.inverse(rr), dtype=float)
            err = np.abs(back - pts) / np.maximum(np.minimum(np.abs(pts - lo), np.abs(hi - pts)), 1e-300)
            if np.any(err > 1e-3):
                i = int(np.argmax(err))
                return False, f"inverse(transform({pts[i]!r})) = {back[i]!r}"
        return True, None
    col.check(f"{cls}:near-ends", near_ends, inputs=inp)

    def trimming():
        """"infinity represented by a large finite number when trimming is on": trimming replaces infinite values and nothing else."""
        if cls not in ("BeckeRTransform", "KnowlesRTransform", "HandyRTransform", "MultiExpRTransform", "HandyModRTransform"):
            return True, None
        on, off = make(cls, p, True), make(cls, p, False)
        lo, hi = on.domain
        ks = np.arange(2.0, 54.0, 3.0)
        end = lo if cls == "MultiExpRTransform" else hi
        pts = end - (end - (lo + hi) / 2) * 2.0 ** -ks
        for which in ("transform", "deriv", "deriv2", "deriv3"):
            with np.errstate(all="ignore"):
                a = np.asarray(getattr(on, which)(pts), dtype=float)
                b = np.asarray(getattr(off, which)(pts), dtype=float)
            fin = np.isfinite(b)
            if not np.array_equal(a[fin], b[fin]):
                i = int(np.argmax(a[fin] != b[fin]))
                return False, f"{which}({pts[fin][i]!r}) = {a[fin][i]!r} with trim_inf, {b[fin][i]!r} without: a finite value was changed"
            if np.any(np.isnan(a)) or np.any(np.isinf(a) & fin):
                return False, f"{which}: non-finite value with trim_inf at an interior point"
        return True, None
    col.check(f"{cls}:trimming-only-replaces-infinities", trimming, inputs=inp)

    def lazy_scale():
        """b-scaled maps constructed without b: the scale is taken from the first grid that is transformed and kept afterwards; every clause
        holds for that b."""
        if cls not in ("LinearInfiniteRTransform", "ExpRTransform", "PowerRTransform"):
            return True, None
        tfl = getattr(rt, cls)(p["rmin"], p["rmax"])
        first = np.sort(g.uniform(0.1, p["b"], 6))
        r1 = np.asarray(tfl.transform(first), dtype=float)
        if tfl.b is None or not np.isclose(float(tfl.b), float(first.max()), rtol=1e-14):
            return False, f"scale after the first transformed grid is {tfl.b!r}, the largest grid value is {first.max()!r}"
        b0 = float(tfl.b)
        ref = getattr(rt, cls)(p["rmin"], p["rmax"], b0)
        other = np.sort(g.uniform(0.1, 3 * p["b"], 5))
        for which, arg in (("transform", other), ("deriv", other), ("deriv2", other), ("deriv3", other), ("inverse", np.asarray(ref.transform(other))),
                           ("deriv_inverse", np.asarray(ref.transform(other)))):
            a = np.asarray(getattr(tfl, which)(arg), dtype=float)
            bb = np.asarray(getattr(ref, which)(arg), dtype=float)
            if float(tfl.b) != b0:
                return False, f"the scale changed from {b0!r} to {tfl.b!r} in a later call of {which}"
            if not np.allclose(a, bb, rtol=1e-13, atol=0):
                return False, f"{which} with the lazily set scale differs from the same transform constructed with b = {b0!r}"
        if not np.allclose(r1, ref.transform(first), rtol=1e-13) or not np.isclose(r1[-1], p["rmax"], rtol=1e-12):
            return False, "first transformed grid does not end at rmax"
        # a single point given as a zero-dimensional array: the scale taken from it is a value, not the caller's (mutable) array
        for first_call in ("transform", "deriv", "inverse", "set_maximum_parameter_b"):
            tf0 = getattr(rt, cls)(p["rmin"], p["rmax"])
            buf = np.array([[0.5 * p["b"] + 1.0]])
            pt = buf[0, 0, ...]                      # 0-d view of the caller's buffer
            getattr(tf0, first_call)(pt)
            b_then = float(tf0.b)
            buf *= 0.5
            if float(tf0.b) != b_then:
                return False, f"scale taken from a 0-d array in {first_call} follows the caller's later in-place change: {b_then!r} -> {float(tf0.b)!r}"
        return True, None
    col.check(f"{cls}:lazy-scale", lazy_scale, inputs=inp)

    def scalar_vs_array():
        if cls == "HyperbolicRTransform":
            return True, None
        for which in ("transform", "deriv", "deriv2", "deriv3"):
            arr = np.asarray(getattr(tf, which)(xs), dtype=float)
            if cls in ("LinearInfiniteRTransform", "ExpRTransform", "PowerRTransform") and which != "transform":
                continue  # these use x.size and document arrays only
            sc = np.array([float(np.asarray(getattr(tf, which)(float(v)))) for v in xs])
            if not np.allclose(arr, sc, rtol=1e-12, atol=1e-14):
                return False, f"{which}: scalar and array evaluation differ"
        return True, None
    col.check(f"{cls}:scalar-vs-array", scalar_vs_array, inputs=inp)

    def integer_nodes():
        # hand-built nodes are often integer-typed (np.array([-1, 0, 1])): every method answers as for the same values given as floats
        lo, hi = (float(v) for v in tf.domain)
        first = int(np.floor(lo)) + 1 if np.isfinite(lo) else -2
        ks = [k for k in range(first, first + 6) if lo < k < hi and (not hasattr(tf, "b") or tf.b is None or k <= float(tf.b))]
        if not ks:
            return True, None
        xi = np.array(ks)
        xf = xi.astype(float)
        for which in ("transform", "deriv", "deriv2", "deriv3"):
            with np.errstate(all="ignore"):
                a = np.asarray(getattr(tf, which)(xi), dtype=float)
                b_ = np.asarray(getattr(tf, which)(xf), dtype=float)
            if a.shape != b_.shape or not np.allclose(a, b_, rtol=1e-12, atol=0, equal_nan=True):
                return False, f"{which}: integer-typed nodes {ks} give {a.tolist()}, the same nodes as floats {b_.tolist()}"
        if list(xi) != ks or xi.dtype.kind != "i":
            return False, "the caller's integer array was modified"
        return True, None
    col.check(f"{cls}:integer-nodes", integer_nodes, inputs=inp)


def endpoints(col, cls, p):
    inp = {"cls": cls, "params": p}

    def ends():
        for trim in (True, False):
            tf = make(cls, p, trim)
            lo, hi = tf.domain
            c0, c1 = tf.codomain
            sgn = -1 if cls == "MultiExpRTransform" else 1
            if cls in ("LinearInfiniteRTransform", "ExpRTransform", "PowerRTransform"):
                v = np.asarray(tf.transform(np.array([0.0, p["b"]])), dtype=float)
                if not np.allclose(v, [c0, c1], rtol=1e-10):
                    return False, f"transform([0,b]) = {v}, codomain {tf.codomain}"
                continue
            if cls == "HyperbolicRTransform":
                v = tf.transform(np.array([0.0]))
                if abs(v[0]) > 1e-14:
                    return False, "transform(0) != 0"
                continue
            if cls == "IdentityRTransform":
                continue
            with np.errstate(all="ignore"):
                v = np.asarray(tf.transform(np.array([lo, hi], dtype=float)), dtype=float)
            exp = [c0, c1] if sgn > 0 else [c1, c0]
            for got, want in zip(v, exp):
                if np.isinf(want):
                    if trim and not (np.isfinite(got) and got >= 1e15):
                        return False, f"trim_inf=True: infinite end point mapped to {got}"
                    if not trim and not (np.isinf(got) and got > 0):
                        return False, f"trim_inf=False: infinite end point mapped to {got}"
                elif not abs(got - want) <= 1e-10 * (1 + abs(want)):
                    return False, f"end point mapped to {got}, codomain end is {want}"
            # scalar end points as well
            with np.errstate(all="ignore"):
                s = float(np.asarray(tf.transform(float(lo if sgn > 0 else hi))))
            if not abs(s - c0) <= 1e-10 * (1 + abs(c0)):
                return False, f"scalar end point mapped to {s}, expected {c0}"
        return True, None
    col.check(f"{cls}:endpoints", ends, inputs=inp)


CLASSES = ["BeckeRTransform", "LinearFiniteRTransform", "IdentityRTransform", "LinearInfiniteRTransform", "ExpRTransform",
           "PowerRTransform", "HyperbolicRTransform", "MultiExpRTransform", "KnowlesRTransform", "HandyRTransform", "HandyModRTransform"]


def run(tier, seed, *rest):
    col = Collector("real transform classes x random admissible parameters (integer and non-integer k, m in [1,4.5]) x 7 interior "
                    "points; contract: deriv^k vs Richardson finite differences of transform, round trips, monotonicity, inverse-derivative "
                    "methods vs differences of inverse, end points with trim_inf on/off; a case is non-trivial/distinct per (class, contract)")
    reps = 6 if tier == "quick" else 40
    for cls in CLASSES:
        g = rng(seed, cls)
        for k in range(reps):
            p = sample_params(cls, g)
            if k == 0 and cls in ("KnowlesRTransform", "HandyRTransform", "HandyModRTransform"):
                key = "k" if cls == "KnowlesRTransform" else "m"
                p[key] = 3
                if cls == "HandyModRTransform":
                    p["rmax"] = p["rmin"] + 2 ** 3 - 1 + 5.0
            if k == 1 and cls in ("KnowlesRTransform", "HandyRTransform", "HandyModRTransform"):
                key = "k" if cls == "KnowlesRTransform" else "m"
                p[key] = 2.5
                if cls == "HandyModRTransform":
                    p["rmax"] = p["rmin"] + 2 ** 2.5 - 1 + 5.0
            run_contracts(col, cls, p, g, k)
            endpoints(col, cls, p)
    return col.result()


def replay(req):
    """Search for a native failure of the contract named by the obligation, guided by the solver model."""
    spec = req.get("spec") or {}
    cls = spec.get("cls")
    what = spec.get("what")
    model = {k: parse_num(v) for k, v in (req.get("model") or {}).items()}
    hint = {k: v for k, v in model.items() if v is not None}
    if cls not in CLASSES:
        return {"failed": False, "detail": f"no native replay for {cls}"}
    g = rng(req.get("seed", 0), cls + str(what))
    col = Collector("replay")
    for k in range(200):
        p = sample_params(cls, g, hint)
        try:
            run_contracts(col, cls, p, g, k)
            endpoints(col, cls, p)
        except Exception as e:  # noqa: BLE001
            return {"failed": True, "case_id": f"{cls}:construct", "detail": f"{type(e).__name__}: {e}", "input": p}
        want = {"deriv": "deriv", "deriv2": "deriv2", "deriv3": "deriv3", "inverse": "roundtrip", "transform_of_inverse": "roundtrip",
                "monotone": "monotone", "ends": "endpoints", "array": "scalar-vs-array"}.get(what)
        for f in col.failures:
            if want is None or f["case_id"].endswith(want) or True:
                return {"failed": True, "case_id": f["case_id"], "detail": f["detail"], "input": f["input"]}
    return {"failed": False, "detail": "200 guided concretisations satisfied every run-time contract"}


def replay_case(case):
    inp = case.get("input") or {}
    cls = inp.get("cls")
    col = Collector("replay-case")
    g = rng(0, cls)
    run_contracts(col, cls, inp["params"], g, 0)
    endpoints(col, cls, inp["params"])
    if col.failures:
        f = col.failures[0]
        return {"failed": True, "case_id": f["case_id"], "detail": f["detail"], "input": f["input"]}
    return {"failed": False}
