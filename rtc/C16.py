"""Bounded run-time contracts for C16 (Poisson solvers) on the real functions, native NumPy/SciPy.

Oracles (none of them uses grid.coulomb, grid.ode or the library's spherical harmonics):
  * normalised s-type Gaussian  c (a/pi)^{3/2} exp(-a d^2)         ->  V = c erf(sqrt(a) d)/d
  * harmonic-polynomial Gaussian  c P_l(x-C) exp(-a d^2), P_l a homogeneous harmonic polynomial of degree l (all m for l = 1, 2, two for l = 3)
        ->  V = c P_l(x-C) 4 pi/(2l+1) [ gamma(l+3/2, a d^2) / (2 a^{l+3/2} d^{2l+1}) + exp(-a d^2)/(2a) ]   (Green's function of the radial problem)
  * Laplacian of the same functions: (4 a^2 d^2 - (4l+6) a) f
  * the fitted core model of solve_poisson_robust is read from the shipped JSON file and summed with the s-type closed form above.
Every contract is driven by a JSON-serialisable "spec" (grid, density terms, options, evaluation points, tolerance), so that a recorded
failure can be re-run by replay_case.
"""
import os

os.environ.setdefault("OMP_NUM_THREADS", "1")
os.environ.setdefault("OPENBLAS_NUM_THREADS", "1")

import copy
import json
import time
import warnings

import numpy as np
from scipy.special import erf, gamma, gammainc

from grid import poisson as _poisson
from grid.atomgrid import AtomGrid
from grid.becke import BeckeWeights
from grid.molgrid import MolGrid
from grid.onedgrid import GaussLegendre, Trapezoidal
from grid.poisson import solve_poisson_bvp, solve_poisson_ivp
from grid.rtransform import BeckeRTransform, HandyModRTransform, InverseRTransform, LinearFiniteRTransform
from rtc.common import Collector, rng

try:
    from grid.robust_poisson import solve_poisson_robust
except ImportError:  # pragma: no cover
    solve_poisson_robust = None
interpolate_laplacian = getattr(_poisson, "interpolate_laplacian", None)

warnings.simplefilter("ignore")

_trace = None          # development hook: a list collects (case id, error, tolerance, seconds)

TF = {"Becke": BeckeRTransform, "HandyMod": HandyModRTransform, "LinearFinite": LinearFiniteRTransform}
RULE = {"GaussLegendre": GaussLegendre, "Trapezoidal": Trapezoidal}

# homogeneous harmonic polynomials: name -> (degree, function of centred coordinates)
POLY = {
    "x": (1, lambda p: p[:, 0]),
    "y": (1, lambda p: p[:, 1]),
    "z": (1, lambda p: p[:, 2]),
    "xy": (2, lambda p: p[:, 0] * p[:, 1]),
    "yz": (2, lambda p: p[:, 1] * p[:, 2]),
    "xz": (2, lambda p: p[:, 0] * p[:, 2]),
    "x2-y2": (2, lambda p: p[:, 0] ** 2 - p[:, 1] ** 2),
    "3z2-r2": (2, lambda p: 2 * p[:, 2] ** 2 - p[:, 0] ** 2 - p[:, 1] ** 2),
    "xyz": (3, lambda p: p[:, 0] * p[:, 1] * p[:, 2]),
    "z(5z2-3r2)": (3, lambda p: p[:, 2] * (2 * p[:, 2] ** 2 - 3 * p[:, 0] ** 2 - 3 * p[:, 1] ** 2)),
}
L1 = ["x", "y", "z"]
L2 = ["xy", "yz", "xz", "x2-y2", "3z2-r2"]
L3 = ["xyz", "z(5z2-3r2)"]


# ----------------------------------------------------------------------------------------------------------------- oracles
def _centred(p, t):
    q = np.asarray(p, dtype=float) - np.asarray(t.get("at", [0.0, 0.0, 0.0]), dtype=float)
    return q, np.sum(q * q, axis=1)


def term_rho(t, p):
    q, d2 = _centred(p, t)
    a = t["a"]
    if t["t"] == "s":
        return t["c"] * (a / np.pi) ** 1.5 * np.exp(-a * d2)
    return t["c"] * POLY[t["t"]][1](q) * np.exp(-a * d2)


def term_pot(t, p):
    q, d2 = _centred(p, t)
    a = t["a"]
    d = np.sqrt(d2)
    if t["t"] == "s":
        with np.errstate(divide="ignore", invalid="ignore"):
            v = erf(np.sqrt(a) * d) / d
        return t["c"] * np.where(d < 1e-9, 2.0 * np.sqrt(a / np.pi), v)
    l, P = POLY[t["t"]]
    inner = gammainc(l + 1.5, a * d2) * gamma(l + 1.5) / (2.0 * a ** (l + 1.5))
    with np.errstate(divide="ignore", invalid="ignore"):
        rad = np.where(d < 1e-9, 0.0, inner / d ** (2 * l + 1)) + np.exp(-a * d2) / (2.0 * a)
    return t["c"] * P(q) * 4.0 * np.pi / (2 * l + 1) * rad


def term_lap(t, p):
    """Laplacian of the *function* term_rho."""
    q, d2 = _centred(p, t)
    a = t["a"]
    l = 0 if t["t"] == "s" else POLY[t["t"]][0]
    return (4.0 * a * a * d2 - (4 * l + 6) * a) * term_rho(t, p)


def dens(terms, p):
    return sum((term_rho(t, p) for t in terms), np.zeros(len(p)))


def pot(terms, p):
    return sum((term_pot(t, p) for t in terms), np.zeros(len(p)))


def lap(terms, p):
    return sum((term_lap(t, p) for t in terms), np.zeros(len(p)))


def charge(terms):
    return float(sum(t["c"] for t in terms if t["t"] == "s"))


_CORE = None
_SYM = {1: "H", 6: "C", 7: "N", 8: "O", 17: "Cl"}


def core_terms(z, centre):
    """The shipped core model of element z as s-type terms (read from the data file, not through grid.coulomb)."""
    global _CORE
    if _CORE is None:
        from importlib.resources import files
        with files("grid.data").joinpath("atomic_gauss_params.json").open("r", encoding="utf-8") as f:
            _CORE = json.load(f)
    d = _CORE[_SYM[int(z)]]
    return [{"t": "s", "a": float(a), "c": float(c), "at": [float(x) for x in centre]} for c, a in zip(d["coeffs_s"], d["alphas_s"])]


# ------------------------------------------------------------------------------------------------------------------- grids
def build(gs):
    tf = TF[gs["tf"]["name"]](*gs["tf"]["args"], **gs["tf"].get("kw", {}))
    ags = []
    for a in gs["atoms"]:
        rad = tf.transform_1d_grid(RULE[gs["rule"]](int(a["n"])))
        ags.append(AtomGrid(rad, degrees=[int(a["degree"])], center=np.asarray(a["center"], dtype=float)))
    if gs.get("mol"):
        grid = MolGrid(np.asarray(gs["atnums"]), ags, BeckeWeights(order=3), store=True)
    else:
        grid = ags[0]
    return grid, ags, InverseRTransform(tf)


def centres(gs):
    return [np.asarray(a["center"], dtype=float) for a in gs["atoms"]]


def mkpts(g, cs, lo, hi, k=30):
    """k points at distances lo..hi from a randomly chosen centre and at least lo from every centre."""
    out = []
    while len(out) < k:
        d = g.normal(size=3)
        d /= np.linalg.norm(d)
        p = cs[int(g.integers(len(cs)))] + d * g.uniform(lo, hi)
        if min(np.linalg.norm(p - c) for c in cs) >= lo:
            out.append(p)
    return np.array(out)


def atom_grid(tfname, args, kw, n, degree, rule="GaussLegendre", center=(0.0, 0.0, 0.0)):
    return {"tf": {"name": tfname, "args": [float(x) if not isinstance(x, int) else x for x in args], "kw": kw}, "rule": rule,
            "atoms": [{"n": int(n), "degree": int(degree), "center": [float(x) for x in center]}]}


def anisotropic(spec):
    cs = centres(spec["grid"])
    if len(cs) > 1:
        return True
    return any(t["t"] != "s" or np.linalg.norm(np.asarray(t.get("at", [0, 0, 0])) - cs[0]) > 0 for t in spec["density"])


# --------------------------------------------------------------------------------------------------------------- solving
def _boundary(spec, q, ags, kw):
    """Explicit boundary value: u_00(r_max) = boundary with V = u_00 Y_00 / r and Y_00 = 1/sqrt(4 pi).  A boundary value that is off by D adds the
    homogeneous solution D r / r_max to u_00, i.e. the constant D Y_00 / r_max to the potential ("shifted": this constant is spec["shift"])."""
    b = q * np.sqrt(4.0 * np.pi)
    if spec["options"]["boundary"] == "shifted":
        r = ags[0].rgrid.points
        cut = kw.get("remove_large_pts", 1e6)
        rmax = float(np.max(r if cut is None else r[r <= cut]))
        b += spec["shift"] * rmax * np.sqrt(4.0 * np.pi)
    return float(b)


def solve(spec, terms=None, vals=None, grid_objs=None):
    """Call the real solver named in the spec; returns (callable, grid, values handed in)."""
    grid, ags, itf = grid_objs or build(spec["grid"])
    if vals is None:
        vals = dens(spec["density"] if terms is None else terms, grid.points)
    opts = spec.get("options", {})
    np.random.seed(int(spec.get("np_seed", 12345)))     # the library draws its default initial guess from the global generator
    solver = spec["solver"]
    if solver == "bvp":
        kw = {}
        if "include_origin" in opts:
            kw["include_origin"] = opts["include_origin"]
        if "remove_large_pts" in opts:
            kw["remove_large_pts"] = opts["remove_large_pts"]
        if opts.get("boundary") in ("exact", "shifted"):
            kw["boundary"] = _boundary(spec, charge(spec["density"] if terms is None else terms), ags, kw)
        if opts.get("zero_guess"):
            r = ags[0].rgrid.points
            n = r.size + (1 if kw.get("include_origin", True) and np.all(r > 0) else 0)
            if kw.get("remove_large_pts", 1e6) is not None:
                n -= int(np.sum(r > kw.get("remove_large_pts", 1e6)))
            kw["ode_params"] = {"initial_guess_y": np.zeros((2, n))}
        elif opts.get("ode_params") is not None:
            kw["ode_params"] = dict(opts["ode_params"])
        return solve_poisson_bvp(grid, vals, itf, **kw), grid, vals
    if solver == "ivp":
        kw = {}
        if "r_interval" in opts:
            kw["r_interval"] = tuple(opts["r_interval"])
        if opts.get("ode_params") is not None:
            kw["ode_params"] = dict(opts["ode_params"])
        return solve_poisson_ivp(grid, vals, itf, **kw), grid, vals
    if solver == "robust":
        kw = {k: opts[k] for k in ("include_origin", "remove_large_pts") if k in opts}
        if "split2" in opts:
            kw["split2"] = opts["split2"]
        if opts.get("alphas_basis") is not None:
            kw["alphas_basis"] = np.asarray(opts["alphas_basis"], dtype=float)
        cs = np.array(centres(spec["grid"]))
        if opts.get("boundary") in ("exact", "shifted"):     # boundary value of the *residual* problem, forwarded through **bvp_kwargs
            q = charge(spec["density"] if terms is None else terms) - sum(charge(core_terms(z, c)) for z, c in zip(spec["atnums"], cs))
            kw["boundary"] = _boundary(spec, q, ags, kw)
        return solve_poisson_robust(grid, vals, itf, np.asarray(spec["atnums"]), cs, **kw), grid, vals
    raise ValueError(solver)


def _note(cid, err, tol, t0):
    if _trace is not None:
        _trace.append((cid, err, tol, round(time.time() - t0, 2)))


def eval_accuracy(spec):
    """V = solver(rho) matches the analytic Coulomb potential at the evaluation points; returns (ok, detail)."""
    t0 = time.time()
    pts = np.asarray(spec["points"], dtype=float)
    V, grid, vals = solve(spec)
    keep = vals.copy()
    p0 = pts.copy()
    got = np.asarray(V(pts), dtype=float)
    if got.shape != (len(pts),):
        return False, f"potential has shape {got.shape} for {len(pts)} points"
    if not np.array_equal(pts, p0):
        return False, "the evaluation points were modified"
    if not np.array_equal(vals, keep):
        return False, "the density values were modified"
    if not np.all(np.isfinite(got)):
        return False, "non-finite potential value"
    want = pot(spec["density"], pts)
    if spec.get("options", {}).get("boundary") == "shifted":
        want = want + spec["shift"]
    err = float(np.max(np.abs(got - want)))
    k = int(np.argmax(np.abs(got - want)))
    # "rel": potentials of many-electron cores are O(Z): the documented absolute accuracy refers to unit charges
    tol = spec["tol"] * (max(1.0, float(np.max(np.abs(want)))) if spec.get("rel") else 1.0)
    _note(spec.get("cid"), err, tol, t0)
    if not err <= tol:
        return False, (f"max |V - V_analytic| = {err:.3e} > {tol:.1e} (scale {np.max(np.abs(want)):.3g}); at point {pts[k].tolist()}: "
                       f"{got[k]:.8g} vs {want[k]:.8g}")
    # the returned potential is a pointwise function without state: a sub-batch gives the same values, a second call too
    sub = np.asarray(V(pts[3:9]), dtype=float)
    again = np.asarray(V(pts), dtype=float)
    if not np.allclose(sub, got[3:9], rtol=1e-10, atol=1e-12) or not np.allclose(again, got, rtol=1e-10, atol=1e-12):
        return False, "the returned potential is not a pure pointwise function (sub-batch or second call differs)"
    # finite at the nuclei (the documented convention there is u(0) = 0)
    at_nuc = np.asarray(V(np.array(centres(spec["grid"]))), dtype=float)
    if not np.all(np.isfinite(at_nuc)):
        return False, "non-finite potential at a grid centre"
    # arbitrary points include points very close to (not on) a nucleus: with the origin node in the mesh u(0) = 0 and u/r is smooth there, so the
    # potential a few 1e-9 bohr from the centre agrees with the potential 1e-6 bohr from it (no oracle needed: continuity of the returned function)
    if spec["solver"] in ("bvp", "robust") and spec.get("options", {}).get("include_origin", True) and not anisotropic(spec):
        u = np.array([0.6, 0.0, 0.8])
        for c in centres(spec["grid"]):
            c = np.asarray(c, dtype=float)
            near = np.asarray(V(np.array([c + 3e-9 * u, c + 1e-6 * u, c + 1e-4 * u])), dtype=float)
            scale = max(1.0, float(np.max(np.abs(near))))
            if not (np.all(np.isfinite(near)) and abs(near[0] - near[1]) <= 1e-3 * scale + 10 * abs(near[1] - near[2])):
                return False, (f"potential 3e-9 bohr from the centre {c.tolist()} is {near[0]:.8g}, but {near[1]:.8g} at 1e-6 bohr and {near[2]:.8g} at 1e-4 bohr "
                               f"(the returned function is not continuous towards the nucleus)")
    return True, None


KNOWN_ORIGIN = ":known-origin-node-nonconvergence"
KNOWN_NNLS = ":known-nnls-iteration-limit"
KNOWN_INFLATION = ":known-split2-charge-inflating-fit"


def accuracy_contract(col, cid, spec):
    spec = dict(spec, cid=cid)
    ok = col.check(cid, lambda: eval_accuracy(spec), inputs={"contract": "accuracy", "spec": spec},
                   sample={"case": cid, "solver": spec["solver"], "terms": [(t["t"], round(t["a"], 3)) for t in spec["density"]][:4]})
    if ok or col.last_failure is None:
        return ok
    # Recorded finding: with the r = 0 node in the mesh (include_origin=True, the default) the per-(l,m) boundary-value problems with l >= 1 and a
    # non-negligible right-hand side pile mesh nodes up at the origin until max_nodes is exhausted (status 1).  Signature: exactly that error, an
    # anisotropic density, the origin node present, and the *same* input solved within tolerance once the origin node is left out.
    detail = str(col.last_failure.get("detail") or "")
    opts = spec.get("options", {})
    if (spec["solver"] == "bvp" and opts.get("include_origin", True) and anisotropic(spec)
            and "didn't converge, got status: 1" in detail and detail.startswith("ValueError")):
        spec2 = copy.deepcopy(spec)
        spec2["options"]["include_origin"] = False
        spec2["options"].pop("zero_guess", None)
        try:
            ok2, _ = eval_accuracy(spec2)
        except Exception:  # noqa: BLE001
            ok2 = False
        if ok2:
            col.last_failure["case_id"] = cid + KNOWN_ORIGIN
    # Recorded finding: the split-2 fit calls scipy.optimize.nnls with its default iteration limit on the badly conditioned default basis; on some
    # ordinary two-centre densities it raises.  Signature: exactly that RuntimeError with split2=True while the same input passes with split2=False.
    if (spec["solver"] == "robust" and opts.get("split2") and detail.startswith("RuntimeError") and "Maximum number of iterations" in detail):
        spec2 = copy.deepcopy(spec)
        spec2["options"]["split2"] = False
        try:
            ok2, _ = eval_accuracy(spec2)
        except Exception:  # noqa: BLE001
            ok2 = False
        if ok2:
            col.last_failure["case_id"] = cid + KNOWN_NNLS
    # Recorded finding: the split-2 fit is an unweighted least-squares fit over the grid points (crowded at the nuclei); on some two-centre densities
    # it puts tens of electrons into the most diffuse basis function and the numerical solver has to cancel them, which ruins the result.
    # Signature: accuracy failure with split2=True, the same input passes with split2=False, and the real fit routine applied to the residual
    # returns coefficients whose sum exceeds the residual's charge by more than 5 (1 + |charge|).
    if spec["solver"] == "robust" and opts.get("split2") and detail.startswith("max |V - V_analytic|"):
        try:
            same = split2_inflation_signature(spec)
        except Exception:  # noqa: BLE001
            same = False
        if same:
            col.last_failure["case_id"] = cid + KNOWN_INFLATION
    return ok


def split2_inflation_signature(spec):
    try:
        from grid.robust_poisson import _DEFAULT_ALPHAS_BASIS, _fit_residual_gaussians
    except ImportError:
        return False
    grid, ags, itf = build(spec["grid"])
    cs = centres(spec["grid"])
    core = []
    for z, c in zip(spec["atnums"], cs):
        core += core_terms(z, c)
    res = dens(spec["density"], grid.points) - dens(core, grid.points)
    basis = spec["options"].get("alphas_basis")
    basis = _DEFAULT_ALPHAS_BASIS if basis is None else np.asarray(basis, dtype=float)
    coeffs = _fit_residual_gaussians(grid.points, res, np.array(cs), basis)[0]
    q = charge(spec["density"]) - charge(core)
    if not abs(float(np.sum(coeffs)) - q) > 5.0 * (1.0 + abs(q)):
        return False
    spec2 = copy.deepcopy(spec)
    spec2["options"]["split2"] = False
    spec2["tol"] = 1e-2
    return bool(eval_accuracy(spec2)[0])


def eval_linearity(spec):
    """V[a rho1 + b rho2] = a V[rho1] + b V[rho2] (same mesh, same initial guess)."""
    t0 = time.time()
    pts = np.asarray(spec["points"], dtype=float)
    objs = build(spec["grid"])
    a, b = spec["ab"]
    g = objs[0]
    r1, r2 = dens(spec["density"], g.points), dens(spec["density2"], g.points)
    v1 = solve(spec, vals=r1, grid_objs=objs)[0](pts)
    v2 = solve(spec, vals=r2, grid_objs=objs)[0](pts)
    v12 = solve(spec, vals=a * r1 + b * r2, grid_objs=objs)[0](pts)
    scale = 1.0 + float(np.max(np.abs(v12)))
    err = float(np.max(np.abs(v12 - a * v1 - b * v2))) / scale
    _note(spec.get("cid"), err, spec["tol"], t0)
    if not err <= spec["tol"]:
        return False, f"|V[a r1 + b r2] - a V[r1] - b V[r2]| / (1 + max|V|) = {err:.3e} > {spec['tol']:.1e} for a, b = {a:.4g}, {b:.4g}"
    # homogeneity of degree one, also for a negative factor
    vm = solve(spec, vals=-3.0 * r1, grid_objs=objs)[0](pts)
    err = float(np.max(np.abs(vm + 3.0 * v1))) / (1.0 + 3.0 * float(np.max(np.abs(v1))))
    if not err <= spec["tol"]:
        return False, f"V[-3 rho] differs from -3 V[rho] by {err:.3e} (relative)"
    return True, None


def eval_mol_identity(spec):
    """The molecular solution is the sum over atoms of the atomic solutions for w_A rho (w_A = the grid's own atom-in-molecule weights)."""
    t0 = time.time()
    pts = np.asarray(spec["points"], dtype=float)
    grid, ags, itf = build(spec["grid"])
    vals = dens(spec["density"], grid.points)
    if spec["solver"] == "bvp":
        whole = solve(spec, vals=vals, grid_objs=(grid, ags, itf))[0](pts)
    else:
        whole = interpolate_laplacian(grid, vals)(pts)
    np.random.seed(int(spec.get("np_seed", 12345)))
    parts = np.zeros(len(pts))
    kw = {k: v for k, v in spec.get("options", {}).items() if k in ("include_origin", "remove_large_pts")}
    w = np.asarray(grid.aim_weights, dtype=float)
    lo = 0
    for ag in ags:
        hi = lo + ag.size
        if spec["solver"] == "bvp":
            parts += solve_poisson_bvp(ag, (vals * w)[lo:hi], itf, **kw)(pts)
        else:
            parts += interpolate_laplacian(ag, (vals * w)[lo:hi])(pts)
        lo = hi
    if lo != grid.size:
        return False, "atomic grids do not tile the molecular grid"
    scale = 1.0 + float(np.max(np.abs(parts)))
    err = float(np.max(np.abs(whole - parts))) / scale
    _note(spec.get("cid"), err, spec["tol"], t0)
    if not err <= spec["tol"]:
        return False, f"molecular result differs from the sum of the atomic results for w_A rho by {err:.3e} (relative)"
    return True, None


def eval_laplacian(spec):
    """interpolate_laplacian(f) matches the analytic Laplacian; it is linear in f; r < cutoff is evaluated at r = cutoff."""
    t0 = time.time()
    pts = np.asarray(spec["points"], dtype=float)
    grid, ags, itf = build(spec["grid"])
    vals = dens(spec["density"], grid.points)
    keep = vals.copy()
    L = interpolate_laplacian(grid, vals)
    p0 = pts.copy()
    got = np.asarray(L(pts), dtype=float)
    if got.shape != (len(pts),) or not np.all(np.isfinite(got)):
        return False, f"shape {got.shape} or non-finite values"
    if not np.array_equal(pts, p0) or not np.array_equal(vals, keep):
        return False, "an input array was modified"
    # the caller reuses its work array for the next function: the callable already returned keeps answering for the values it was given
    vals[:] = dens(spec["density2"], grid.points)
    again = np.asarray(L(pts), dtype=float)
    vals[:] = keep
    if not np.allclose(again, got, rtol=1e-12, atol=1e-12 * (1.0 + float(np.max(np.abs(got))))):
        return False, (f"the returned callable follows a later in-place change of the caller's value array: "
                       f"max change {float(np.max(np.abs(again - got))):.3e}")
    want = lap(spec["density"], pts)
    scale = max(1.0, float(np.max(np.abs(want))))
    err = float(np.max(np.abs(got - want))) / scale
    k = int(np.argmax(np.abs(got - want)))
    _note(spec.get("cid"), err, spec["tol"], t0)
    if not err <= spec["tol"]:
        return False, f"max |lap - analytic| / scale = {err:.3e} > {spec['tol']:.1e}; at {pts[k].tolist()}: {got[k]:.8g} vs {want[k]:.8g}"
    # linearity (splines and harmonic projection are linear): exact up to rounding
    vals2 = dens(spec["density2"], grid.points)
    a, b = spec["ab"]
    l2 = np.asarray(interpolate_laplacian(grid, vals2)(pts), dtype=float)
    l12 = np.asarray(interpolate_laplacian(grid, a * vals + b * vals2)(pts), dtype=float)
    s2 = 1.0 + float(np.max(np.abs(l12)))
    if not np.max(np.abs(l12 - a * got - b * l2)) / s2 <= 1e-9:
        return False, f"not linear in the function values: deviation {np.max(np.abs(l12 - a * got - b * l2)) / s2:.3e}"
    # cutoff: a point closer to a (single) centre than the cutoff is evaluated on the sphere r = cutoff, same direction
    if len(ags) == 1:
        c = centres(spec["grid"])[0]
        cut = float(spec.get("cutoff", 0.05))
        dirs = pts[:6] - c
        dirs /= np.linalg.norm(dirs, axis=1)[:, None]
        inside = c + dirs * cut * np.linspace(0.2, 0.9, 6)[:, None]
        onsph = c + dirs * cut
        li = np.asarray(L(inside, cut), dtype=float)
        lo = np.asarray(L(onsph * 1.0, cut * (1 - 1e-12)), dtype=float)
        if not np.allclose(li, lo, rtol=1e-6, atol=1e-6 * scale):
            return False, f"points inside the cutoff sphere are not evaluated at r = cutoff: {li[:3]} vs {lo[:3]}"
        dflt = np.asarray(L(pts), dtype=float)
        expl = np.asarray(L(pts, 1e-6), dtype=float)
        if not np.allclose(dflt, expl, rtol=1e-12, atol=1e-12):
            return False, "default cutoff is not 1e-6"
    return True, None


def eval_robust_structure(spec):
    """solve_poisson_robust(rho) = analytic core potential + numerical potential of (rho - core density)  [split2 = False]."""
    t0 = time.time()
    pts = np.asarray(spec["points"], dtype=float)
    objs = build(spec["grid"])
    grid = objs[0]
    vals = dens(spec["density"], grid.points)
    keep = vals.copy()
    core = []
    for z, c in zip(spec["atnums"], centres(spec["grid"])):
        core += core_terms(z, c)
    got = np.asarray(solve(spec, vals=vals, grid_objs=objs)[0](pts), dtype=float)
    if not np.array_equal(vals, keep):
        return False, "the density values were modified"
    plain = dict(spec, solver="bvp")
    num = np.asarray(solve(plain, vals=vals - dens(core, grid.points), grid_objs=objs)[0](pts), dtype=float)
    want = pot(core, pts) + num
    err = float(np.max(np.abs(got - want))) / (1.0 + float(np.max(np.abs(want))))
    _note(spec.get("cid"), err, spec["tol"], t0)
    if not err <= spec["tol"]:
        return False, f"robust - (core potential + plain solver on the residual) = {err:.3e} (relative) > {spec['tol']:.1e}"
    return True, None


def eval_robust_vs_plain(spec):
    """On a smooth density the robust and the plain solver agree (both within the documented accuracy of the analytic potential)."""
    t0 = time.time()
    pts = np.asarray(spec["points"], dtype=float)
    objs = build(spec["grid"])
    vals = dens(spec["density"], objs[0].points)
    rob = np.asarray(solve(spec, vals=vals, grid_objs=objs)[0](pts), dtype=float)
    pla = np.asarray(solve(dict(spec, solver="bvp"), vals=vals, grid_objs=objs)[0](pts), dtype=float)
    want = pot(spec["density"], pts)
    e1, e2, e3 = (float(np.max(np.abs(x))) for x in (rob - want, pla - want, rob - pla))
    _note(spec.get("cid"), max(e1, e2, e3), spec["tol"], t0)
    if not max(e1, e2) <= spec["tol"]:
        return False, f"error against the analytic potential: robust {e1:.3e}, plain {e2:.3e} > {spec['tol']:.1e}"
    if not e3 <= spec["tol"]:
        return False, f"robust and plain solver differ by {e3:.3e} > {spec['tol']:.1e}"
    return True, None


EVAL = {"accuracy": eval_accuracy, "linearity": eval_linearity, "mol-identity": eval_mol_identity, "laplacian": eval_laplacian,
        "robust-structure": eval_robust_structure, "robust-vs-plain": eval_robust_vs_plain}


KNOWN_LAST = ":known-last-atom-values-on-every-atom"


def laplacian_last_atom_signature(spec):
    """Recorded finding: on a grid with several atoms interpolate_laplacian evaluates every atom with the value slice of the *last* atom (the
    per-atom closure is looked up by name after the loop).  Equal atomic sizes: the result is exactly sum_A L_A[(w f)|last atom]; different sizes:
    the spline construction of the first atom raises the size-mismatch error although every atomic piece alone is fine."""
    pts = np.asarray(spec["points"], dtype=float)
    grid, ags, itf = build(spec["grid"])
    if len(ags) < 2:
        return False
    vals = dens(spec["density"], grid.points)
    last = (vals * np.asarray(grid.aim_weights, dtype=float))[grid.size - ags[-1].size:]
    if all(ag.size == ags[-1].size for ag in ags):
        whole = np.asarray(interpolate_laplacian(grid, vals)(pts), dtype=float)
        wrong = sum(np.asarray(interpolate_laplacian(ag, last)(pts), dtype=float) for ag in ags)
        return bool(np.max(np.abs(whole - wrong)) <= 1e-9 * (1.0 + np.max(np.abs(wrong))))
    try:
        interpolate_laplacian(grid, vals)(pts)
    except ValueError as e:
        first_bad = next(ag for ag in ags if ag.size != ags[-1].size)
        return "size of values does not match" in str(e) and f"{last.size}" in str(e) and f"{first_bad.size}" in str(e)
    return False


def contract(col, kind, cid, spec):
    if kind == "accuracy":
        return accuracy_contract(col, cid, spec)
    spec = dict(spec, cid=cid)
    ok = col.check(cid, lambda: EVAL[kind](spec), inputs={"contract": kind, "spec": spec}, sample={"case": cid})
    if not ok and col.last_failure is not None and kind == "mol-identity" and spec["solver"] == "laplacian":
        try:
            same = laplacian_last_atom_signature(spec)
        except Exception:  # noqa: BLE001
            same = False
        if same:
            col.last_failure["case_id"] = cid + KNOWN_LAST
    return ok


# ---------------------------------------------------------------------------------------------------------- input families
def scaled_term(g, name, a, pts, centre=(0.0, 0.0, 0.0), lo=0.4, hi=1.0):
    """A harmonic-polynomial Gaussian whose potential has magnitude lo..hi at the evaluation points."""
    t = {"t": name, "a": float(a), "c": 1.0, "at": [float(x) for x in centre]}
    m = float(np.max(np.abs(term_pot(t, pts))))
    t["c"] = float(g.uniform(lo, hi) * g.choice([1.0, -1.0]) / m)
    return t


def s_terms(g, k, centre=(0.0, 0.0, 0.0), amin=0.5, amax=4.0):
    """1-3 normalised s-type Gaussians, exponents 0.5-4, some negative coefficients."""
    out = []
    for j in range(k):
        c = float(g.uniform(0.3, 1.0)) * (1.0 if j == 0 or g.random() < 0.6 else -0.5)
        out.append({"t": "s", "a": float(g.uniform(amin, amax)), "c": c, "at": [float(x) for x in centre]})
    return out


def becke_args(g, rmins=(1e-5, 1e-6, 1e-4)):
    return [float(rmins[int(g.integers(len(rmins)))]), float(g.uniform(1.0, 2.0))]


def fam_bvp_atomic_s(col, g, tier):
    """On-centre sums of s-type Gaussians, r = 0 node in the mesh (default include_origin=True): boundary/large-point/origin options."""
    variants = [
        ("becke:origin-added:boundary-auto", "Becke", {}, "GaussLegendre", {}),
        ("becke:origin-added:boundary-given", "Becke", {}, "GaussLegendre", {"boundary": "exact", "remove_large_pts": 12.0}),
        ("becke:origin-added:boundary-given-shifted", "Becke", {}, "GaussLegendre", {"boundary": "shifted", "remove_large_pts": 40.0}),
        ("becke:origin-added:large-pts-removed", "Becke", {}, "GaussLegendre", {"remove_large_pts": 25.0}),
        ("becke:origin-added:large-pts-kept", "Becke", {}, "GaussLegendre", {"remove_large_pts": None, "zero_guess": True}),
        ("becke-trim-inf:origin-in-grid", "Becke0", {"trim_inf": True}, "Trapezoidal", {"include_origin": True}),
        ("linear-finite:origin-added", "LinearFinite", {}, "Trapezoidal", {}),
        ("becke:no-origin", "Becke", {}, "GaussLegendre", {"include_origin": False}),
        ("handymod:no-origin", "HandyMod", {}, "GaussLegendre", {"include_origin": False}),
    ]
    reps = 1 if tier == "quick" else 5
    for rep in range(reps):
        for name, tfn, kw, rule, opts in variants:
            centre = g.normal(size=3) * (0.0 if rep == 0 else 1.0)          # a displaced atom: the solver has to centre the points
            if tfn == "Becke":
                tf, n = ("Becke", becke_args(g), kw), int(g.integers(58, 77))
            elif tfn == "Becke0":
                tf, n = ("Becke", [0.0, float(g.uniform(1.0, 2.0))], kw), int(g.integers(180, 260))
            elif tfn == "LinearFinite":
                tf, n = ("LinearFinite", [1e-4, float(g.uniform(30.0, 50.0))], kw), int(g.integers(380, 460))
            else:
                tf, n = ("HandyMod", [float(g.choice([0.0, 1e-5])), float(g.uniform(40.0, 70.0)), int(g.choice([2, 3]))], kw), int(g.integers(58, 77))
            gs = atom_grid(tf[0], tf[1], tf[2], n, int(g.choice([3, 5, 7])), rule=rule, center=centre)
            no_origin = opts.get("include_origin", True) is False
            if no_origin and tfn == "Becke":
                gs["atoms"][0]["n"] = int(g.integers(64, 77))
            pts = mkpts(g, [centre], 0.6 if no_origin else 0.05, 6.0)      # without the origin node the error is about r_1 V(0) / r
            terms = s_terms(g, int(g.integers(1, 4)), centre, amax=3.0 if no_origin else 4.0)
            spec = {"solver": "bvp", "grid": gs, "density": terms, "options": dict(opts), "points": pts.tolist(),
                    "tol": 1e-2 if no_origin else 2e-3, "np_seed": int(g.integers(1 << 30))}
            if opts.get("boundary") == "shifted":
                spec["shift"] = float(g.uniform(0.2, 0.5) * g.choice([1.0, -1.0]))
            contract(col, "accuracy", f"solve_poisson_bvp:atomic-s:{name}", spec)


def aniso_terms(g, pts, centre, kinds):
    terms = []
    for k in kinds:
        if k == "off":
            d = g.normal(size=3)
            d *= g.uniform(0.05, 0.3) / np.linalg.norm(d)
            terms.append({"t": "s", "a": float(g.uniform(0.5, 3.0)), "c": float(g.uniform(0.4, 0.8)), "at": (np.asarray(centre) + d).tolist()})
        elif k == "s":
            terms += [dict(t, c=0.8 * t["c"]) for t in s_terms(g, 1, centre, amax=3.0)]
        else:
            name = {1: L1, 2: L2, 3: L3}[k][int(g.integers(len({1: L1, 2: L2, 3: L3}[k])))]
            terms.append(scaled_term(g, name, g.uniform(0.5, 4.0), pts, centre))
    return terms


def fam_bvp_atomic_aniso(col, g, tier):
    """p/d/f-type and off-centre Gaussians on an atomic grid without the origin node; every l = 1, 2 polynomial appears (m ordering)."""
    plans = [("p", [1, 1]), ("d", [2, 2]), ("pdf", [1, 2, 3]), ("off-centre-s", ["off"]), ("s+p+off", ["s", 1, "off"]), ("f", [3, 1])]
    reps = 1 if tier == "quick" else 5
    for rep in range(reps):
        for i, (name, kinds) in enumerate(plans):
            centre = g.normal(size=3) * (0.0 if (rep + i) % 2 == 0 else 0.7)
            if (i + rep) % 2 == 0:
                tfn, tf = "becke", ("Becke", becke_args(g, (1e-5, 1e-4)), {})
            else:
                tfn, tf = "handymod", ("HandyMod", [float(g.choice([0.0, 1e-5])), float(g.uniform(40.0, 70.0)), int(g.choice([2, 3]))], {})
            has_s = any(k in ("s", "off") for k in kinds)
            deg = int(g.choice([9, 11])) if "off" in kinds else int(g.choice([7, 9]))
            gs = atom_grid(tf[0], tf[1], tf[2], int(g.integers(64 if has_s else 58, 77)), deg, center=centre)
            # without the origin node u(r_1) = 0 replaces u(0) = 0: an s-type part is off by about r_1 V(0) / r, so stay away from the nucleus
            pts = mkpts(g, [centre], 0.6 if has_s else 0.4, 4.0)
            terms = aniso_terms(g, pts, centre, kinds)
            spec = {"solver": "bvp", "grid": gs, "density": terms, "options": {"include_origin": False}, "points": pts.tolist(),
                    "tol": 1e-2 if has_s else 5e-3, "np_seed": int(g.integers(1 << 30))}
            contract(col, "accuracy", f"solve_poisson_bvp:atomic-{name}:{tfn}:no-origin", spec)
    # one polynomial at a time, all of l = 1 and l = 2: a permutation of the m-list or a wrong l in a single equation cannot hide
    names = L1 + L2 if tier != "quick" else [L1[int(g.integers(3))], L2[int(g.integers(5))]]
    for name in names:
        gs = atom_grid("Becke", becke_args(g, (1e-5, 1e-4)), {}, int(g.integers(58, 77)), 7)
        pts = mkpts(g, [np.zeros(3)], 0.4, 4.0)
        terms = [scaled_term(g, name, g.uniform(0.5, 4.0), pts)]
        spec = {"solver": "bvp", "grid": gs, "density": terms, "options": {"include_origin": False, "remove_large_pts": 200.0},
                "points": pts.tolist(), "tol": 3e-3, "np_seed": int(g.integers(1 << 30))}
        contract(col, "accuracy", f"solve_poisson_bvp:atomic-single-{name}:becke:no-origin", spec)


def fam_bvp_origin_aniso(col, g, tier):
    """Anisotropic density with the default include_origin=True (recorded finding: the l >= 1 equations do not converge at the r = 0 node)."""
    cases = [("p", [{"t": "z", "a": 0.5, "c": 0.3}], 7, 60)]
    if tier != "quick":
        cases += [("p-x", [{"t": "x", "a": 0.5, "c": 0.3}], 7, 60), ("d", [{"t": "3z2-r2", "a": 0.5, "c": 0.15}], 11, 60)]
    for name, terms, deg, n in cases:
        gs = atom_grid("Becke", [1e-5, 1.5], {}, n, deg)
        pts = mkpts(rng(0, "C16-origin-" + name), [np.zeros(3)], 0.4, 4.0)
        spec = {"solver": "bvp", "grid": gs, "density": [dict(t, at=[0.0, 0.0, 0.0]) for t in terms], "options": {"include_origin": True},
                "points": pts.tolist(), "tol": 1e-2, "np_seed": 1}
        contract(col, "accuracy", f"solve_poisson_bvp:atomic-{name}:becke:origin-added", spec)


def mol_grid(g, tfspec, degs, ns, atnums, rmin=1.2, rmax=2.5):
    R = float(g.uniform(rmin, rmax))
    d = g.normal(size=3)
    d /= np.linalg.norm(d)
    c0 = g.normal(size=3) * 0.3
    cs = [c0 - d * R / 2, c0 + d * R / 2]
    return {"tf": {"name": tfspec[0], "args": tfspec[1], "kw": tfspec[2]}, "rule": "GaussLegendre", "mol": True, "atnums": [int(z) for z in atnums],
            "atoms": [{"n": int(n), "degree": int(dg), "center": [float(x) for x in c]} for n, dg, c in zip(ns, degs, cs)]}


def fam_bvp_mol(col, g, tier):
    """Two-centre molecular grids (different radial sizes and degrees per atom), s-type Gaussians on both nuclei."""
    reps = 1 if tier == "quick" else 6
    for rep in range(reps):
        if (rep + int(g.integers(2))) % 2 == 0:
            tfn, tf = "becke", ("Becke", becke_args(g, (1e-5, 1e-6)), {})
        else:
            tfn, tf = "handymod", ("HandyMod", [0.0, float(g.uniform(40.0, 60.0)), 2], {})
        gs = mol_grid(g, tf, (int(g.choice([13, 15])), int(g.choice([15, 17]))), (int(g.integers(58, 70)), int(g.integers(58, 70))), (1, 8))
        cs = centres(gs)
        pts = mkpts(g, cs, 0.4, 4.0)
        terms = [dict(t) for c in cs for t in s_terms(g, 1, c, amax=2.5)]
        if rep % 2 == 1:
            terms += s_terms(g, 1, 0.5 * (cs[0] + cs[1]), amin=0.5, amax=1.0)       # bond-centred charge
        spec = {"solver": "bvp", "grid": gs, "density": terms, "options": {"include_origin": False}, "points": pts.tolist(), "tol": 1e-2,
                "np_seed": int(g.integers(1 << 30))}
        contract(col, "accuracy", f"solve_poisson_bvp:two-centre:{tfn}:no-origin", spec)
    # structural identity on cheap grids (accuracy is irrelevant here)
    for rep in range(1 if tier == "quick" else 3):
        gs = mol_grid(g, ("Becke", becke_args(g), {}), (int(g.choice([5, 7])), int(g.choice([7, 9]))), (int(g.integers(40, 50)), int(g.integers(50, 60))), (1, 8), 1.0, 3.0)
        cs = centres(gs)
        terms = [dict(t) for c in cs for t in s_terms(g, 1, c, amax=2.5)]
        spec = {"solver": "bvp", "grid": gs, "density": terms, "options": {"include_origin": False}, "points": mkpts(g, cs, 0.4, 4.0).tolist(),
                "tol": 1e-6, "np_seed": int(g.integers(1 << 30))}
        contract(col, "mol-identity", "solve_poisson_bvp:two-centre:sum-over-atoms", spec)


def fam_ivp(col, g, tier):
    """Initial-value solver: spherically symmetric densities on atomic grids; linearity; moment-free l > 0 components."""
    variants = [("default-interval", None, None, (62, 77)), ("interval-300-1e-2", [300.0, 1e-2], None, (58, 77)),
                ("interval-100-1e-3", [100.0, 1e-3], None, (58, 77)), ("interval-300-1e-2:tight-ode", [300.0, 1e-2], {"rtol": 1e-10, "atol": 1e-10}, (58, 77))]
    reps = 1 if tier == "quick" else 5
    for rep in range(reps):
        for name, interval, op, nr in variants:
            centre = g.normal(size=3) * (0.0 if rep == 0 else 1.0)
            args = becke_args(g, (0.0, 1e-5, 1e-6))
            if interval is None:
                args[1] = float(g.uniform(1.3, 2.0))
            gs = atom_grid("Becke", args, {}, int(g.integers(*nr)), int(g.choice([3, 5])), center=centre)
            pts = mkpts(g, [centre], 0.3, 5.0)
            opts = {}
            if interval is not None:
                opts["r_interval"] = interval
            if op is not None:
                opts["ode_params"] = op
            spec = {"solver": "ivp", "grid": gs, "density": s_terms(g, int(g.integers(1, 4)), centre), "options": opts, "points": pts.tolist(),
                    "tol": 1e-2, "np_seed": 7}
            contract(col, "accuracy", f"solve_poisson_ivp:atomic-s:becke:{name}", spec)
    for rep in range(reps):
        gs = atom_grid("Becke", becke_args(g, (1e-5, 1e-6)), {}, int(g.integers(60, 77)), 3)
        pts = mkpts(g, [np.zeros(3)], 0.3, 5.0)
        spec = {"solver": "ivp", "grid": gs, "density": s_terms(g, 2), "density2": s_terms(g, 1), "ab": [float(g.uniform(0.5, 2)), float(g.uniform(-2, -0.5))],
                "options": {"r_interval": [300.0, 1e-2], "ode_params": {"rtol": 1e-10, "atol": 1e-10}}, "points": pts.tolist(), "tol": 1e-5, "np_seed": 7}
        contract(col, "linearity", "solve_poisson_ivp:linearity", spec)
        # l > 0 equations of the initial-value formulation: zero start values at r_max are exact when the multipole moment vanishes
        name = L1[int(g.integers(3))]
        l = POLY[name][0]
        a, b = float(g.uniform(0.8, 1.5)), float(g.uniform(2.0, 3.0))
        gs = atom_grid("Becke", becke_args(g, (1e-5, 1e-6)), {}, int(g.integers(64, 77)), 5)
        pts = mkpts(g, [np.zeros(3)], 0.4, 5.0)
        t1 = scaled_term(g, name, a, pts)
        t2 = dict(t1, a=b, c=-t1["c"] * (b / a) ** (l + 1.5))
        spec = {"solver": "ivp", "grid": gs, "density": [t1, t2], "options": {"r_interval": [50.0, 0.05]}, "points": pts.tolist(), "tol": 1e-2, "np_seed": 7}
        contract(col, "accuracy", f"solve_poisson_ivp:atomic-moment-free-l{l}:becke:interval-50-0.05", spec)


def fam_linearity(col, g, tier):
    reps = 1 if tier == "quick" else 4
    for rep in range(reps):
        gs = atom_grid("Becke", becke_args(g), {}, int(g.integers(58, 77)), 5)
        pts = mkpts(g, [np.zeros(3)], 0.05, 6.0)
        spec = {"solver": "bvp", "grid": gs, "density": s_terms(g, 2), "density2": s_terms(g, 1), "ab": [float(g.uniform(0.5, 2)), float(g.uniform(-2, -0.5))],
                "options": {"zero_guess": True}, "points": pts.tolist(), "tol": 1e-6, "np_seed": 3}
        contract(col, "linearity", "solve_poisson_bvp:linearity:atomic-s:origin-added", spec)
        gs = atom_grid("HandyMod", [0.0, float(g.uniform(40.0, 70.0)), 2], {}, int(g.integers(58, 77)), 7)
        pts = mkpts(g, [np.zeros(3)], 0.4, 4.0)
        spec = {"solver": "bvp", "grid": gs, "density": aniso_terms(g, pts, np.zeros(3), ["s", 1, 2]), "density2": aniso_terms(g, pts, np.zeros(3), [1, 3]),
                "ab": [float(g.uniform(-2, -0.5)), float(g.uniform(0.5, 2))], "options": {"include_origin": False, "zero_guess": True},
                "points": pts.tolist(), "tol": 1e-6, "np_seed": 3}
        contract(col, "linearity", "solve_poisson_bvp:linearity:atomic-spd:no-origin", spec)


def fam_laplacian(col, g, tier):
    if interpolate_laplacian is None:
        return
    plans = [("s", ["s"]), ("p", [1]), ("d", [2]), ("f", [3]), ("spdf", ["s", 1, 2, 3])]
    reps = 1 if tier == "quick" else 5
    for rep in range(reps):
        for i, (name, kinds) in enumerate(plans):
            centre = g.normal(size=3) * (0.0 if (rep + i) % 2 == 0 else 0.8)
            if (i + rep) % 2 == 0:
                tfn, tf = "becke", ("Becke", becke_args(g), {})
            else:
                tfn, tf = "handymod", ("HandyMod", [0.0, float(g.uniform(40.0, 70.0)), 2], {})
            gs = atom_grid(tf[0], tf[1], tf[2], int(g.integers(140, 200)), int(g.choice([7, 9])), center=centre)
            pts = mkpts(g, [centre], 0.3, 3.0)
            spec = {"solver": "laplacian", "grid": gs, "density": aniso_terms(g, pts, centre, kinds), "density2": aniso_terms(g, pts, centre, [1, "s"]),
                    "ab": [float(g.uniform(0.5, 2)), float(g.uniform(-2, -0.5))], "points": pts.tolist(), "tol": 1e-2, "cutoff": float(g.uniform(0.02, 0.1))}
            contract(col, "laplacian", f"interpolate_laplacian:atomic-{name}:{tfn}", spec)
    for rep in range(reps):
        for name in ("equal-sizes", "different-sizes"):
            n1, d1 = int(g.integers(40, 50)), int(g.choice([5, 7]))
            n2, d2 = (n1, d1) if name == "equal-sizes" else (int(g.integers(50, 60)), int(g.choice([7, 9])))
            gs = mol_grid(g, ("Becke", becke_args(g), {}), (d1, d2), (n1, n2), (1, 8), 1.0, 3.0)
            cs = centres(gs)
            terms = [dict(t) for c in cs for t in s_terms(g, 1, c, amax=2.5)]
            spec = {"solver": "laplacian", "grid": gs, "density": terms, "options": {}, "points": mkpts(g, cs, 0.4, 3.0).tolist(), "tol": 1e-9}
            contract(col, "mol-identity", f"interpolate_laplacian:two-centre:{name}:sum-over-atoms", spec)


def fam_robust(col, g, tier):
    if solve_poisson_robust is None:
        return
    reps = 1 if tier == "quick" else 4
    for rep in range(reps):
        # exact cancellation: rho = fitted core model -> the numerical part vanishes, V is the closed-form core potential
        for z in ((1, 6, 17) if rep % 2 == 0 else (7, 8)):
            for split2 in (False, True):
                centre = g.normal(size=3) * (0.0 if z == 1 else 0.6)
                gs = atom_grid("Becke", becke_args(g), {}, int(g.integers(50, 70)), int(g.choice([5, 7])), center=centre)
                spec = {"solver": "robust", "atnums": [z], "grid": gs, "density": core_terms(z, centre), "options": {"split2": split2},
                        "points": mkpts(g, [centre], 0.05, 5.0).tolist(), "tol": 1e-7, "np_seed": int(g.integers(1 << 30))}
                contract(col, "accuracy", f"solve_poisson_robust:core-model:Z{z}:split2-{split2}", spec)
        for zs in (((1, 8),) if rep % 2 == 0 else ((6, 17), (8, 1))):
            gs = mol_grid(g, ("Becke", becke_args(g), {}), (int(g.choice([5, 7])), int(g.choice([7, 9]))), (int(g.integers(40, 50)), int(g.integers(50, 60))), zs, 1.0, 3.0)
            cs = centres(gs)
            terms = core_terms(zs[0], cs[0]) + core_terms(zs[1], cs[1])
            for split2 in (False, True):
                spec = {"solver": "robust", "atnums": list(zs), "grid": gs, "density": terms, "options": {"split2": split2},
                        "points": mkpts(g, cs, 0.05, 5.0).tolist(), "tol": 1e-7, "np_seed": int(g.integers(1 << 30))}
                contract(col, "accuracy", f"solve_poisson_robust:core-model:two-centre:split2-{split2}", spec)
        # robust = core + numeric(residual); agreement with the plain solver and the analytic potential on smooth densities
        for z in ((1, 6) if rep % 2 == 0 else (7, 8)):
            # the residual contains the (negative) sharp core Gaussians: the mesh has to resolve them
            gs = atom_grid("Becke", becke_args(g), {}, int(g.integers(58, 77)) if z == 1 else int(g.integers(90, 121)), 5)
            pts = mkpts(g, [np.zeros(3)], 0.1, 5.0)
            terms = s_terms(g, int(g.integers(1, 3)), amax=3.0)
            spec = {"solver": "robust", "atnums": [z], "grid": gs, "density": terms, "options": {}, "points": pts.tolist(), "tol": 1e-7,
                    "np_seed": int(g.integers(1 << 30))}
            contract(col, "robust-structure", f"solve_poisson_robust:core-plus-residual:Z{z}", spec)
            contract(col, "robust-vs-plain", f"solve_poisson_robust:smooth-density:Z{z}", dict(spec, tol=2e-3))
            # the greedy non-negative fit may move charge into very diffuse or very sharp functions: documented accuracy of the split solver is 1-5 %
            contract(col, "accuracy", f"solve_poisson_robust:smooth-density:Z{z}:split2-True", dict(spec, tol=3e-2, options={"split2": True}))
        # keyword arguments reach the boundary-value solver: a shifted boundary value of the residual problem shifts the potential by a constant
        gs = atom_grid("Becke", becke_args(g), {}, int(g.integers(58, 77)), 3)
        spec = {"solver": "robust", "atnums": [1], "grid": gs, "density": core_terms(1, [0, 0, 0]) + s_terms(g, 1, amax=3.0),
                "options": {"boundary": "shifted", "remove_large_pts": 40.0}, "shift": float(g.uniform(0.2, 0.5)),
                "points": mkpts(g, [np.zeros(3)], 0.1, 5.0).tolist(), "tol": 2e-3, "np_seed": int(g.integers(1 << 30))}
        contract(col, "accuracy", "solve_poisson_robust:bvp-kwargs-forwarded:boundary-shifted", spec)
        # split 2: members of the fit basis on top of the core model are removed analytically (single centre: exact)
        basis = sorted(float(x) for x in g.uniform(0.3, 5.0, 3))
        gs = atom_grid("Becke", becke_args(g), {}, int(g.integers(58, 77)), 5)
        terms = core_terms(1, [0, 0, 0]) + [{"t": "s", "a": basis[0], "c": float(g.uniform(0.3, 1)), "at": [0.0, 0.0, 0.0]},
                                              {"t": "s", "a": basis[2], "c": float(g.uniform(0.3, 1)), "at": [0.0, 0.0, 0.0]}]
        spec = {"solver": "robust", "atnums": [1], "grid": gs, "density": terms, "options": {"split2": True, "alphas_basis": basis},
                "points": mkpts(g, [np.zeros(3)], 0.05, 5.0).tolist(), "tol": 1e-6, "np_seed": int(g.integers(1 << 30))}
        contract(col, "accuracy", "solve_poisson_robust:split2:basis-members:exact", spec)
        one = float(g.uniform(0.4, 3.0))
        terms = core_terms(1, [0, 0, 0]) + [{"t": "s", "a": one, "c": float(g.uniform(0.3, 1)), "at": [0.0, 0.0, 0.0]}]
        spec = {"solver": "robust", "atnums": [1], "grid": gs, "density": terms, "options": {"split2": True, "alphas_basis": [one]},
                "points": mkpts(g, [np.zeros(3)], 0.05, 5.0).tolist(), "tol": 1e-6, "np_seed": int(g.integers(1 << 30))}
        contract(col, "accuracy", "solve_poisson_robust:split2:single-basis-member:exact", spec)
        # a purely negative residual cannot be fitted (empty fit): numerical path
        terms = core_terms(1, [0, 0, 0]) + [{"t": "s", "a": float(g.uniform(0.5, 3)), "c": -float(g.uniform(0.3, 1)), "at": [0.0, 0.0, 0.0]}]
        spec = {"solver": "robust", "atnums": [1], "grid": gs, "density": terms, "options": {"split2": True},
                "points": mkpts(g, [np.zeros(3)], 0.05, 5.0).tolist(), "tol": 2e-3, "np_seed": int(g.integers(1 << 30))}
        contract(col, "accuracy", "solve_poisson_robust:split2:negative-residual:empty-fit", spec)
        # heteronuclear molecule, smooth density on top of both cores, options forwarded to the boundary-value solver
        gs = mol_grid(g, ("Becke", becke_args(g, (1e-5, 1e-6)), {}), (int(g.choice([11, 13])), int(g.choice([13, 15]))), (int(g.integers(58, 70)), int(g.integers(58, 70))), (1, 8))
        cs = centres(gs)
        extra = [dict(t) for c in cs for t in s_terms(g, 1, c, amax=2.0)]
        terms = core_terms(1, cs[0]) + core_terms(8, cs[1]) + extra
        for split2 in ((False, True) if tier != "quick" else (bool(g.integers(2)),)):
            spec = {"solver": "robust", "atnums": [1, 8], "grid": gs, "density": terms, "options": {"split2": split2, "include_origin": False},
                    "points": mkpts(g, cs, 0.4, 4.0).tolist(), "tol": 3e-2 if split2 else 1e-2, "rel": True, "np_seed": int(g.integers(1 << 30))}
            contract(col, "accuracy", f"solve_poisson_robust:two-centre:core+smooth:split2-{split2}", spec)
        # split 2 on two well separated centres: sharp basis members on both atoms are removed analytically up to their tiny overlap
        gs = mol_grid(g, ("Becke", becke_args(g), {}), (int(g.choice([5, 7])), int(g.choice([7, 9]))), (int(g.integers(40, 50)), int(g.integers(50, 60))), (8, 1), 2.6, 3.2)
        cs = centres(gs)
        big = float(g.uniform(3.5, 5.0))
        terms = core_terms(8, cs[0]) + core_terms(1, cs[1]) + [{"t": "s", "a": big, "c": float(g.uniform(0.3, 1)), "at": cs[0].tolist()},
                                                                {"t": "s", "a": big, "c": float(g.uniform(0.3, 1)), "at": cs[1].tolist()}]
        spec = {"solver": "robust", "atnums": [8, 1], "grid": gs, "density": terms, "options": {"split2": True, "alphas_basis": [big], "include_origin": False},
                "points": mkpts(g, cs, 0.3, 4.0).tolist(), "tol": 1e-4, "rel": True, "np_seed": int(g.integers(1 << 30))}
        contract(col, "accuracy", "solve_poisson_robust:split2:two-centre:basis-members", spec)


def _raises(fn, exc):
    try:
        fn()
    except exc:
        return True
    except Exception:  # noqa: BLE001
        return False
    return False


def fam_validation(col):
    tf = BeckeRTransform(1e-5, 1.5)
    itf = InverseRTransform(tf)
    ag = AtomGrid(tf.transform_1d_grid(GaussLegendre(30)), degrees=[3])
    vals = dens([{"t": "s", "a": 1.0, "c": 1.0}], ag.points)

    def bvp():
        if not _raises(lambda: solve_poisson_bvp(ag, vals, itf, boundary=1), TypeError):
            return False, "integer boundary accepted"
        if not _raises(lambda: solve_poisson_bvp(ag, vals, itf, include_origin=1), TypeError):
            return False, "non-boolean include_origin accepted"
        if not _raises(lambda: solve_poisson_bvp(ag, vals, itf, remove_large_pts=10), TypeError):
            return False, "integer remove_large_pts accepted"
        if not _raises(lambda: solve_poisson_bvp(ag, vals, tf), ValueError):
            return False, "transform with domain starting below zero accepted"
        mg = MolGrid(np.array([1]), [ag], np.ones(ag.size), store=False)
        if not _raises(lambda: solve_poisson_bvp(mg, vals, itf), ValueError):
            return False, "molecular grid without stored atomic grids accepted"
        return True, None
    col.check("solve_poisson_bvp:argument-validation", bvp)

    def ivp():
        if not _raises(lambda: solve_poisson_ivp(ag, vals, itf, r_interval=(1e-3, 100.0)), ValueError):
            return False, "increasing r_interval accepted"
        mg = MolGrid(np.array([1]), [ag], np.ones(ag.size), store=False)
        if not _raises(lambda: solve_poisson_ivp(mg, vals, itf), ValueError):
            return False, "molecular grid without stored atomic grids accepted"
        return True, None
    col.check("solve_poisson_ivp:argument-validation", ivp)

    if interpolate_laplacian is not None:
        def lapl():
            mg = MolGrid(np.array([1]), [ag], np.ones(ag.size), store=False)
            if not _raises(lambda: interpolate_laplacian(mg, vals), ValueError):
                return False, "molecular grid without stored atomic grids accepted"
            return True, None
        col.check("interpolate_laplacian:argument-validation", lapl)

    if solve_poisson_robust is not None:
        def rob():
            z, c = np.array([1]), np.zeros((1, 3))
            if not _raises(lambda: solve_poisson_robust(ag, vals[:-1], itf, z, c), ValueError):
                return False, "density of the wrong length accepted"
            if not _raises(lambda: solve_poisson_robust(ag, vals.reshape(-1, 1), itf, z, c), ValueError):
                return False, "two-dimensional density accepted"
            if not _raises(lambda: solve_poisson_robust(ag, vals, itf, np.array([2]), c), ValueError):
                return False, "element without a fitted core accepted"
            if not _raises(lambda: solve_poisson_robust(ag, vals, itf, np.array([1, 1]), c), ValueError):
                return False, "atnums and atcoords of different lengths accepted"
            for bad in ([], [1.0, -2.0], [0.0], [[1.0, 2.0]]):
                if not _raises(lambda bad=bad: solve_poisson_robust(ag, vals, itf, z, c, split2=True, alphas_basis=bad), ValueError):
                    return False, f"alphas_basis={bad} accepted"
            V = solve_poisson_robust(ag, vals, itf, z, c)
            if not _raises(lambda: V(np.zeros(3)), ValueError) or not _raises(lambda: V(np.zeros((4, 2))), ValueError):
                return False, "evaluation points of the wrong shape accepted"
            if np.asarray(V(np.zeros((0, 3)))).shape != (0,):
                return False, "empty set of evaluation points does not give an empty result"
            return True, None
        col.check("solve_poisson_robust:argument-validation", rob)


FAMILIES = [("bvp-s", fam_bvp_atomic_s), ("bvp-aniso", fam_bvp_atomic_aniso), ("bvp-origin", fam_bvp_origin_aniso), ("bvp-mol", fam_bvp_mol),
            ("ivp", fam_ivp), ("linearity", fam_linearity), ("laplacian", fam_laplacian), ("robust", fam_robust)]

RULE_TEXT = ("real solve_poisson_bvp / solve_poisson_ivp / interpolate_laplacian / solve_poisson_robust on sums of 1-3 Gaussians (exponents 0.5-4; s, every p and d, "
             "two f harmonic-polynomial types, off-centre and bond-centred s) against closed-form Coulomb potentials at 30 points: atomic grids (displaced "
             "centres, Becke / Becke-trim_inf+Trapezoidal / HandyMod m=2,3 / LinearFinite radial maps, odd and even sizes, degrees 3-17) and heteronuclear "
             "two-centre Becke-weighted grids; options boundary None/given/given-and-shifted (constant shift D Y00/r_max), include_origin True/False/origin already in grid, remove_large_pts "
             "1e6/None/25/200, r_interval and ode tolerances; tolerance 1e-2 (documented) or 2e-3/3e-3 on meshes that resolve the density 10x better; "
             "linearity and homogeneity to 1e-6 (fixed initial guess), molecular = sum over atoms of w_A rho, robust = closed-form core + plain solver on "
             "the residual (1e-7), exact cancellation for rho = core model of H, C, N, O, Cl and two-centre pairs, split-2 exactness for basis members, "
             "Laplacian values/linearity/cutoff, argument validation; distinct = (function, density class, radial map, option variant)")


def run(tier, seed, *rest):
    col = Collector(RULE_TEXT)
    only = [r for r in rest if not str(r).startswith("-")]
    for name, fam in FAMILIES:
        if only and name not in only:
            continue
        fam(col, rng(seed, "C16-" + name), tier)
    if not only or "validation" in only:
        fam_validation(col)
    return col.result()


def _first(failures):
    f = failures[0]
    for cand in failures:       # prefer failures that are not the recorded finding
        if ":known-" not in cand["case_id"]:
            f = cand
            break
    return {"failed": True, "case_id": f["case_id"], "detail": f["detail"], "input": f["input"]}


def replay(req):
    """Search natively for a failing input of the clause named by the obligation (focused part of the quick family)."""
    name = (str(req.get("obligation", "")) + " " + json.dumps(req.get("spec") or {})).lower()
    pick = []
    if "ivp" in name:
        pick += ["ivp"]
    if "laplacian" in name:
        pick += ["laplacian"]
    if "robust" in name:
        pick += ["robust"]
    if "molgrid" in name or "interpolate_molgrid" in name:
        pick += ["bvp-mol", "laplacian"]
    if "bvp" in name:
        pick += ["bvp-s", "bvp-aniso", "linearity"]
    out = run("quick", req.get("seed", 0), *dict.fromkeys(pick)) if pick else run("quick", req.get("seed", 0))
    if out["failures"]:
        return _first(out["failures"])
    return {"failed": False, "detail": f"{out['evaluations']} native contract evaluations passed"}


def replay_case(case):
    inp = case.get("input") or {}
    col = Collector("replay-case")
    cid = str(case.get("case_id", "case")).split(":known-")[0]
    if isinstance(inp, dict) and inp.get("contract") in EVAL:
        spec = {k: v for k, v in inp["spec"].items() if k != "cid"}
        contract(col, inp["contract"], cid, spec)
    else:
        fam_validation(col)
    if col.failures:
        return _first(col.failures)
    return {"failed": False}
