"""Bounded run-time contracts for C17 (Coulomb potentials of Gaussians), native NumPy/SciPy.

Oracle: the electrostatic potential of the *documented* spherically symmetric density computed by
multiprecision quadrature  V(r) = 4 pi [ (1/r) int_0^r rho s^2 ds + int_r^inf rho s ds ]  (mpmath, 30 digits),
independent of the closed forms under test.
"""
import json

import mpmath as mp
import numpy as np

from grid import coulomb
from rtc.common import Collector, rng

mp.mp.dps = 30


def rho(kind, normalized, alpha):
    a = mp.mpf(alpha)
    if kind == "s":
        pre = (a / mp.pi) ** mp.mpf(1.5) if normalized else mp.mpf(1)
        return lambda s: pre * mp.e ** (-a * s * s)
    pre = (mp.mpf(2) / 3) * a ** mp.mpf(2.5) / mp.pi ** mp.mpf(1.5) if normalized else mp.mpf(1)
    return lambda s: pre * s * s * mp.e ** (-a * s * s)


def oracle(kind, normalized, alpha, r):
    f = rho(kind, normalized, alpha)
    r = mp.mpf(r)
    w = 1 / mp.sqrt(mp.mpf(alpha))
    outer_pts = [r, r + w, r + 4 * w, r + 12 * w, r + 40 * w]
    outer = mp.quad(lambda s: f(s) * s, outer_pts)
    if r == 0:
        return 4 * mp.pi * outer
    inner_pts = [0] + [p for p in (w / 4, w, 4 * w, 12 * w) if p < r] + [r]
    inner = mp.quad(lambda s: f(s) * s * s, inner_pts)
    return 4 * mp.pi * (inner / r + outer)


def known_wrong_p(alpha, r, normalized):
    """The p-type formula as shipped (tail coefficient +4/3, r->0 value 10/3): signature of the recorded finding."""
    a = mp.mpf(alpha)
    r = mp.mpf(r)
    sa = mp.sqrt(a)
    if r < mp.mpf("1e-12"):
        v = mp.mpf(10) / 3 * sa / mp.sqrt(mp.pi)
    else:
        v = mp.erf(sa * r) / r + mp.mpf(4) / 3 * sa / mp.sqrt(mp.pi) * mp.e ** (-a * r * r)
    if not normalized:
        v *= mp.mpf(3) / 2 * mp.pi ** mp.mpf(1.5) / a ** mp.mpf(2.5)
    return v


FN = {"s": coulomb.coulomb_gaussian_s, "p": coulomb.coulomb_gaussian_p}


def value_contract(col, kind, normalized, alpha, radii):
    fn = FN[kind]
    radii = np.asarray(radii, dtype=float)
    keep = radii.copy()
    inp = {"fn": fn.__name__, "alpha": alpha, "normalized": normalized, "r": radii.tolist()}

    def chk():
        got = np.asarray(fn(radii, alpha, normalized=normalized), dtype=float)
        if got.shape != radii.shape:
            return False, f"shape {got.shape} for input {radii.shape}"
        if not np.array_equal(radii, keep):
            return False, "input radii were modified"
        bad = []
        for ri, gi in zip(radii, got):
            want = oracle(kind, normalized, alpha, ri)
            if not abs(mp.mpf(float(gi)) - want) <= mp.mpf("2e-10") * (1 + abs(want)):
                bad.append((float(ri), float(gi), float(want)))
        if bad:
            ri, gi, want = bad[0]
            return False, f"V({ri:.6g}) = {gi:.12g}, Coulomb integral of the documented density gives {want:.12g}"
        return True, None
    ok = col.check(f"{fn.__name__}:values", chk, inputs=inp, sample={"fn": fn.__name__, "alpha": alpha, "normalized": normalized, "r": radii[:3].tolist()})
    if not ok and kind == "p":
        # classify: is it exactly the recorded wrong formula?
        try:
            got = np.asarray(fn(radii, alpha, normalized=normalized), dtype=float)
            same = all(abs(mp.mpf(float(g)) - known_wrong_p(alpha, ri, normalized)) <= mp.mpf("1e-10") * (1 + abs(known_wrong_p(alpha, ri, normalized)))
                       for ri, g in zip(radii, got))
        except Exception:  # noqa: BLE001
            same = False
        if same:
            col.last_failure["case_id"] = "coulomb_gaussian_p:values:known-tail-coefficient"


def structural_contracts(col, g):
    for kind in ("s", "p"):
        fn = FN[kind]

        def raises_ok():
            for bad_alpha in (0.0, -1.0):
                try:
                    fn(np.array([1.0]), bad_alpha)
                    return False, f"alpha={bad_alpha} accepted"
                except ValueError:
                    pass
            try:
                fn(np.array([1.0, -1e-3]), 1.0)
                return False, "negative radius accepted"
            except ValueError:
                pass
            v = fn(2.0, 1.3)
            if np.asarray(v).shape != (1,):
                return False, f"scalar input gives shape {np.asarray(v).shape}"
            ro = np.array([0.5, 1.5])
            ro.setflags(write=False)
            fn(ro, 0.7)
            return True, None
        col.check(f"{fn.__name__}:validation", raises_ok)

        def continuity():
            for alpha in (1e-3, 0.37, 1.0, 52.0, 1e4):
                for nrm in (True, False):
                    lo = fn(np.array([0.0, 0.9e-12]), alpha, normalized=nrm)
                    hi = fn(np.array([1.0e-12, 1.1e-12]), alpha, normalized=nrm)
                    if not np.allclose(lo, hi[0], rtol=1e-9) or not np.allclose(hi[0], hi[1], rtol=1e-9):
                        return False, f"discontinuous across the small-r switch for alpha={alpha}: {lo} vs {hi}"
            return True, None
        col.check(f"{fn.__name__}:continuity", continuity)


def superposition_contract(col, g, with_p, close=False):
    n, ks, kp = int(g.integers(1, 7)), int(g.integers(1, 5)), int(g.integers(1, 4))
    pts = g.normal(size=(n, 3)) * 2
    Cs, cs, als = g.normal(size=(ks, 3)), g.normal(size=ks), g.uniform(0.2, 9, ks)
    Cp, cp, alp = g.normal(size=(kp, 3)), g.normal(size=kp), g.uniform(0.2, 9, kp)
    if g.random() < 0.4:
        pts[0] = Cs[0]          # a point exactly on a centre
    layout = "random"
    if close:
        # "all centre sets": contracted shells (repeated centres), finite-difference multipoles and slightly off-site functions (consecutive
        # centres a tiny distance apart, also far from the origin), the first p centre next to the last s centre
        layout = ("repeated", "nearly-coincident", "nearly-coincident-far")[int(g.integers(0, 3))]
        shift = g.normal(size=3) * (40.0 if layout.endswith("far") else 0.0)
        eps = 0.0 if layout == "repeated" else float(10.0 ** g.uniform(-9, -3.5))
        Cs = Cs[:1] + shift + eps * g.normal(size=(ks, 3))
        Cp = Cs[-1:] + eps * g.normal(size=(kp, 3))
        pts = pts + shift
        cs[1::2] *= -1
    nrm = bool(g.integers(0, 2))
    snap = [a.copy() for a in (pts, Cs, cs, als, Cp, cp, alp)]

    def chk():
        kw = dict(centers_p=Cp, coeffs_p=cp, alphas_p=alp) if with_p else {}
        got = coulomb.coulomb_potential(pts, Cs, cs, als, normalized=nrm, **kw)
        want = np.zeros(n)
        for k in range(ks):
            want += cs[k] * coulomb.coulomb_gaussian_s(np.linalg.norm(pts - Cs[k], axis=1), als[k], normalized=nrm)
        if with_p:
            for k in range(kp):
                want += cp[k] * coulomb.coulomb_gaussian_p(np.linalg.norm(pts - Cp[k], axis=1), alp[k], normalized=nrm)
        if got.shape != (n,) or not np.allclose(got, want, rtol=1e-12, atol=1e-13):
            return False, "coulomb_potential differs from the coefficient-weighted sum of the single-centre potentials"
        for a, b in zip((pts, Cs, cs, als, Cp, cp, alp), snap):
            if not np.array_equal(a, b):
                return False, "an argument array was modified"
        return True, None
    col.check(f"coulomb_potential:superposition:{'sp' if with_p else 's'}" + (f":{layout}" if close else ""), chk,
              inputs={"n": n, "ks": ks, "kp": kp, "normalized": nrm, "layout": layout, "centers_s": Cs.tolist(), "centers_p": Cp.tolist()},
              sample={"points": n, "s_centres": ks, "p_centres": kp if with_p else 0, "layout": layout})


def params_contract(col):
    from grid.utils import num2sym
    data = json.load(open(coulomb.files("grid.data").joinpath("atomic_gauss_params.json")))
    keys = set(data.keys())
    for z, sym in sorted(num2sym.items()):
        def chk(z=z, sym=sym):
            res = []
            for key in (z, np.int64(z), sym, sym.lower(), f" {sym} "):
                try:
                    c, a = coulomb.load_atomic_gaussian_params(key)
                    res.append((c, a))
                except ValueError:
                    if sym in keys:
                        return False, f"{key!r}: parameters are shipped but loading raised"
                    res.append(None)
            if sym not in keys:
                return all(x is None for x in res), "loaded parameters for an element that is not shipped"
            c0, a0 = res[0]
            if c0.shape != a0.shape or c0.ndim != 1 or c0.size == 0:
                return False, f"Z={z}: arrays of shapes {c0.shape} {a0.shape}"
            if not np.all(a0 > 0) or not np.all(np.isfinite(c0)):
                return False, f"Z={z}: non-positive exponent or non-finite coefficient"
            for x in res[1:]:
                if x is None or not (np.array_equal(x[0], c0) and np.array_equal(x[1], a0)):
                    return False, f"Z={z}: symbol/number/repeated look-ups disagree"
            # returned arrays are fresh: editing them does not change later calls
            c0[:] = -1.0
            c1, _ = coulomb.load_atomic_gaussian_params(z)
            if np.any(c1 == -1.0):
                return False, f"Z={z}: editing the returned array changed the next call"
            return True, None
        col.check(f"load_atomic_gaussian_params:{z}", chk, nontrivial=sym in keys)

    def unknown():
        for bad in (0, 119, -3, "Xx", ""):
            try:
                coulomb.load_atomic_gaussian_params(bad)
                return False, f"{bad!r} accepted"
            except ValueError:
                pass
        return True, None
    col.check("load_atomic_gaussian_params:unknown", unknown)


def run(tier, seed, *rest):
    col = Collector("real coulomb_gaussian_s/p (normalized and not) against 30-digit Coulomb integrals of the documented density for "
                    "alpha in 10^-3..10^4 and r in {0, below/at/above the 1e-12 switch, fractions of 1/sqrt(alpha), up to 1e6}; "
                    "continuity across the switch; argument validation; coulomb_potential against explicit superposition on random, "
                    "repeated and nearly coincident centre sets; load_atomic_gaussian_params for every Z=1..118 by number/symbol (exhaustive); distinct = (function, contract, element)")
    g = rng(seed, "C17")
    alphas = [1e-3, 0.05, 0.37, 1.0, 7.3, 150.0, 1e4] if tier == "quick" else list(10 ** np.linspace(-3, 4, 22))
    for kind in ("s", "p"):
        for nrm in (True, False):
            for alpha in alphas:
                w = 1 / np.sqrt(alpha)
                radii = [0.0, 3e-13, 1e-12, 2e-12, 1e-6 * w, 0.1 * w, 0.7 * w, 1.9 * w, 6 * w, 40 * w, 1e6]
                radii += list(g.uniform(0, 5 * w, 3 if tier == "quick" else 10))
                value_contract(col, kind, nrm, float(alpha), radii)
    structural_contracts(col, g)
    for k in range(6 if tier == "quick" else 40):
        superposition_contract(col, g, with_p=False)
        superposition_contract(col, g, with_p=True)
        superposition_contract(col, g, with_p=False, close=True)
        superposition_contract(col, g, with_p=True, close=True)
    params_contract(col)
    return col.result()


def replay(req):
    spec = req.get("spec") or {}
    fn = spec.get("fn")
    col = Collector("replay")
    g = rng(req.get("seed", 0), "C17-replay")
    if fn in ("coulomb_gaussian_s", "coulomb_gaussian_p"):
        kind = "s" if fn.endswith("_s") else "p"
        norms = [spec["normalized"]] if "normalized" in spec else [True, False]
        for nrm in norms:
            for alpha in (0.37, 1.0, 7.3, 150.0, 1e-2):
                w = 1 / np.sqrt(alpha)
                value_contract(col, kind, nrm, alpha, [0.0, 3e-13, 1e-12, 0.1 * w, 0.7 * w, 1.9 * w, 6 * w, 40 * w] + list(g.uniform(0, 5 * w, 4)))
        structural_contracts(col, g)
    else:
        for k in range(20):
            superposition_contract(col, g, with_p=bool(k % 2), close=k % 4 >= 2)
    fails = [f for f in col.failures if fn is None or f["case_id"].startswith(fn) or fn == "coulomb_potential"]
    if fails:
        f = fails[0]
        return {"failed": True, "case_id": f["case_id"], "detail": f["detail"], "input": f["input"]}
    return {"failed": False, "detail": f"{col.evaluations} native contract evaluations passed"}


def replay_case(case):
    inp = case.get("input") or {}
    col = Collector("replay-case")
    if "alpha" in inp:
        kind = "s" if inp["fn"].endswith("_s") else "p"
        value_contract(col, kind, inp["normalized"], inp["alpha"], inp["r"])
    else:
        g = rng(0, "C17")
        structural_contracts(col, g)
        for k in range(12):
            superposition_contract(col, g, with_p=bool(k % 2), close=k % 4 >= 2)
    if col.failures:
        f = col.failures[0]
        return {"failed": True, "case_id": f["case_id"], "detail": f["detail"], "input": f["input"]}
    return {"failed": False}
