"""Bounded run-time contracts for C04 (transform_1d_grid) on the real classes, native NumPy."""
import numpy as np

from grid import onedgrid as og
from grid import rtransform as rt
from grid.basegrid import OneDGrid
from rtc.common import Collector, rng

RULES_PM1 = [("GaussLegendre", {}), ("GaussChebyshev", {}), ("GaussChebyshevType2", {}), ("ClenshawCurtis", {}), ("FejerFirst", {}),
             ("Trapezoidal", {}), ("MidPoint", {}), ("Simpson", {}), ("TanhSinh", {"delta": 0.1}), ("GaussChebyshevLobatto", {}), ("TrefethenCC", {})]
RULES_POS = [("UniformInteger", {}), ("GaussLaguerre", {"alpha": 0.5})]


def transforms_for(domain_kind, g, n):
    rmin = float(g.uniform(0.0, 0.3))
    if domain_kind == "pm1":
        m = int(g.integers(1, 4))
        return [("BeckeRTransform", rt.BeckeRTransform(rmin, float(g.uniform(0.5, 2)))),
                ("LinearFiniteRTransform", rt.LinearFiniteRTransform(rmin, rmin + float(g.uniform(1, 9)))),
                ("MultiExpRTransform", rt.MultiExpRTransform(rmin, float(g.uniform(0.5, 2)))),
                ("KnowlesRTransform", rt.KnowlesRTransform(rmin, float(g.uniform(0.5, 2)), int(g.integers(1, 4)))),
                ("HandyRTransform", rt.HandyRTransform(rmin, float(g.uniform(0.5, 2)), m)),
                ("HandyModRTransform", rt.HandyModRTransform(rmin, rmin + 2**m + float(g.uniform(3, 20)), m))]
    out = [("IdentityRTransform", rt.IdentityRTransform()),
           ("LinearInfiniteRTransform", rt.LinearInfiniteRTransform(rmin + 0.01, rmin + 10)),
           ("ExpRTransform", rt.ExpRTransform(rmin + 0.01, rmin + 10)),
           ("PowerRTransform", rt.PowerRTransform(rmin + 0.01, rmin + 10)),
           ("HyperbolicRTransform", rt.HyperbolicRTransform(float(g.uniform(0.5, 2)), 0.5 / max(n - 1, 1)))]
    return out


def structure_contract(col, rule, rkw, tname, tf, grid):
    inp = {"rule": rule, "rule_kwargs": rkw, "n": int(grid.size), "transform": tname}
    decreasing = tname == "MultiExpRTransform"

    def chk():
        p0, w0 = grid.points.copy(), grid.weights.copy()
        with np.errstate(all="ignore"):
            new = tf.transform_1d_grid(grid)
            want_p = np.asarray(tf.transform(grid.points), dtype=float)
            jac = np.abs(np.asarray(tf.deriv(grid.points), dtype=float))
        if not isinstance(new, OneDGrid):
            return False, "result is not a OneDGrid"
        if not (np.array_equal(grid.points, p0) and np.array_equal(grid.weights, w0)):
            return False, "the input grid was modified"
        if not np.allclose(new.points, want_p, rtol=1e-14, atol=0, equal_nan=True):
            return False, "nodes are not the mapped nodes"
        if np.any(np.isnan(new.weights)) or np.any(np.isnan(new.points)):
            k = int(np.argmax(np.isnan(new.weights) | np.isnan(new.points)))
            return False, f"nan weight/node at old node x = {grid.points[k]!r} (the Jacobian there is finite or +-inf, never undefined)"
        inf_end = grid.points == (grid.domain[0] if decreasing else grid.domain[1])
        if np.any(~np.isfinite(new.weights) & ~inf_end):
            k = int(np.argmax(~np.isfinite(new.weights) & ~inf_end))
            return False, f"non-finite weight at old node x = {grid.points[k]!r}, which is not the end mapped to infinity"
        fin = np.isfinite(jac) & np.isfinite(new.weights)
        if not np.allclose(new.weights[fin], (jac * grid.weights)[fin], rtol=1e-13, atol=0):
            k = int(np.argmax(np.abs(new.weights[fin] - (jac * grid.weights)[fin])))
            return False, f"weights are not |r'(x)| * w: node {k}: {new.weights[fin][k]!r} vs {(jac * grid.weights)[fin][k]!r}"
        # independent Jacobian: central differences of the real forward map at interior nodes
        lo_d, hi_d = grid.domain
        x = np.asarray(grid.points, dtype=float)          # integer-typed nodes: the oracle differentiates at the same values as floats
        h = 1e-6 * np.maximum(1.0, np.abs(x))
        # the five-point formula has relative truncation error ~ (h / distance to the nearest singular end)^4: keep to nodes at least 100 h away
        # from both ends of the domain (the map may have a pole there); the proof layer covers every x
        inner = fin & (x - 100 * h > lo_d) & ((x + 100 * h < hi_d) if np.isfinite(hi_d) else True)
        if tname == "HyperbolicRTransform":
            inner = np.zeros_like(fin)
        if np.any(inner):
            xs = x[inner].astype(float)
            hh = h[inner]
            with np.errstate(all="ignore"):
                f = lambda t: np.asarray(tf.transform(t), dtype=float)
                fdj = np.abs((f(xs - 2 * hh) - 8 * f(xs - hh) + 8 * f(xs + hh) - f(xs + 2 * hh)) / (12 * hh))
            ok_fd = np.isfinite(fdj)
            want_w = (fdj * grid.weights[inner])[ok_fd]
            got_w = np.abs(new.weights[inner][ok_fd])
            if not np.allclose(got_w, want_w, rtol=2e-5, atol=1e-12 * np.max(np.abs(want_w), initial=1.0)):
                k = int(np.argmax(np.abs(got_w - want_w) / (np.abs(want_w) + 1e-300)))
                return False, f"|weight| {got_w[k]!r} differs from |dr/dx| (finite difference) times the old weight {want_w[k]!r}"
        if np.all(grid.weights >= 0) and np.any(new.weights[fin] < 0):
            return False, f"non-negative weights became negative (min {new.weights[fin].min():.4g})"
        lo, hi = new.domain
        with np.errstate(all="ignore"):
            ends = np.sort(np.asarray(tf.transform(np.array(grid.domain, dtype=float)), dtype=float))
        if not (lo <= hi and np.allclose([lo, hi], ends, rtol=1e-14, equal_nan=True)):
            return False, f"domain {tuple(float(v) for v in new.domain)} is not an ordered image of {grid.domain}"
        if np.any(new.points < lo - 1e-7) or np.any(new.points > hi + 1e-7):
            return False, "a node lies outside the new domain"
        return True, None
    cid = f"structure:{tname}"
    ok = col.check(cid, chk, inputs=inp, sample=inp)
    if not ok and tname == "HyperbolicRTransform" and "domain (0.0, nan)" in (col.last_failure["detail"] or ""):
        col.last_failure["case_id"] = cid + ":known-nan-domain-end"
    if not ok and "should not be above domain" in (col.last_failure["detail"] or ""):
        # signature of the recorded finding: an infinite domain end was replaced by 1e16 (trim_inf) and a finite node is mapped beyond it
        try:
            with np.errstate(all="ignore"):
                mapped = np.asarray(tf.transform(grid.points), dtype=float)
                ends = np.asarray(tf.transform(np.array(grid.domain, dtype=float)), dtype=float)
            if np.max(np.abs(ends)) == 1e16 and np.any(np.isfinite(mapped) & (np.abs(mapped) > 1e16)):
                col.last_failure["case_id"] = cid + ":known-finite-node-beyond-trimmed-infinity"
        except Exception:  # noqa: BLE001
            pass
    if not ok and decreasing:
        # signature of the recorded finding: weights are exactly deriv * w (signed Jacobian) for a decreasing map
        try:
            with np.errstate(all="ignore"):
                new = tf.transform_1d_grid(grid)
                signed = np.asarray(tf.deriv(grid.points), dtype=float) * grid.weights
            fin = np.isfinite(signed)
            if np.allclose(new.weights[fin], signed[fin], rtol=1e-13, atol=0) and np.allclose(new.points, tf.transform(grid.points), equal_nan=True):
                col.last_failure["case_id"] = cid + ":known-signed-jacobian"
        except Exception:  # noqa: BLE001
            pass


def integral_contracts(col, g, tier):
    ns = [40, 75] if tier == "quick" else [30, 40, 75, 120]
    for n in ns:
        gl = og.GaussLegendre(n)
        # transported exactness: GL mapped linearly to [a, b] integrates degree <= 2n-1 exactly
        a, b = float(g.uniform(-2, 0.5)), float(g.uniform(1, 4))

        def exact(a=a, b=b, n=n, gl=gl):
            new = rt.LinearFiniteRTransform(a, b).transform_1d_grid(gl)
            for deg in (0, 1, 2, 5, min(2 * n - 1, 25)):
                got = new.integrate(new.points**deg)
                want = (b ** (deg + 1) - a ** (deg + 1)) / (deg + 1)
                if not abs(got - want) <= 1e-10 * (1 + abs(want)) * max(1.0, abs(b)) ** deg:
                    return False, f"int_{a:.3g}^{b:.3g} x^{deg} = {got!r}, exact {want!r}"
            return True, None
        col.check("transported-exactness:LinearFinite", exact, inputs={"n": n, "a": a, "b": b}, sample={"n": n, "a": a, "b": b})
        # reference integrals over [0, inf): int exp(-r) = 1, int r^2 exp(-r) = 2, positive integrand -> positive integral
        for tname, tf in (("BeckeRTransform", rt.BeckeRTransform(0.0, 1.0)), ("KnowlesRTransform", rt.KnowlesRTransform(0.0, 2.0, 2)),
                          ("HandyRTransform", rt.HandyRTransform(0.0, 1.0, 2)), ("MultiExpRTransform", rt.MultiExpRTransform(0.0, 1.0))):
            def ref(tf=tf, gl=gl, tname=tname):
                with np.errstate(all="ignore"):
                    new = tf.transform_1d_grid(gl)
                    v1 = new.integrate(np.exp(-new.points))
                    v2 = new.integrate(new.points**2 * np.exp(-new.points))
                if not (v1 > 0 and v2 > 0):
                    return False, f"integral of a positive function is {v1:.6g} (and {v2:.6g})"
                if abs(v1 - 1) > 1e-5 or abs(v2 - 2) > 1e-3:
                    return False, f"int exp(-r) = {v1!r}, int r^2 exp(-r) = {v2!r}"
                return True, None
            cid = f"reference-integral:{tname}"
            ok = col.check(cid, ref, inputs={"n": n, "transform": tname})
            if not ok and tname == "MultiExpRTransform":
                with np.errstate(all="ignore"):
                    new = tf.transform_1d_grid(gl)
                    v1 = new.integrate(np.exp(-new.points))
                if abs(v1 + 1) < 1e-6:     # exactly the sign-flipped value
                    col.last_failure["case_id"] = cid + ":known-signed-jacobian"


def domain_mismatch(col):
    def chk():
        gl = og.GaussLegendre(10)
        try:
            rt.IdentityRTransform().transform_1d_grid(gl)
            return False, "grid on [-1,1] accepted by a transform with domain [0, inf)"
        except ValueError:
            pass
        try:
            rt.BeckeRTransform(0, 1).transform_1d_grid(np.arange(3.0))
            return False, "non-grid accepted"
        except TypeError:
            pass
        return True, None
    col.check("argument-validation", chk)


def trimming_contract(col, g, n):
    """"Infinity represented by a large finite number when trimming is on": trim_inf changes infinite values only.  Many-node rules put nodes
    so close to the singular end that the (finite) Jacobian there is huge; the transported grid of the trimming transform must agree with the
    one of the same transform without trimming wherever the latter is finite."""
    rmin = float(g.uniform(0.0, 0.3))
    R = float(g.uniform(0.8, 2))
    pairs = [("BeckeRTransform", lambda t: rt.BeckeRTransform(rmin, R, trim_inf=t)),
             ("KnowlesRTransform", lambda t: rt.KnowlesRTransform(rmin, R, 3, trim_inf=t)),
             ("HandyRTransform", lambda t: rt.HandyRTransform(rmin, R, 3, trim_inf=t)),
             ("MultiExpRTransform", lambda t: rt.MultiExpRTransform(rmin, R, trim_inf=t))]
    for tname, mk in pairs:
        for rule in ("GaussLegendre", "GaussChebyshev"):
            grid = getattr(og, rule)(n)
            inp = {"rule": rule, "n": n, "transform": tname, "rmin": rmin, "R": R}

            def chk(mk=mk, grid=grid):
                with np.errstate(all="ignore"):
                    a = mk(True).transform_1d_grid(grid)
                    b = mk(False).transform_1d_grid(grid)
                for what, u, v in (("nodes", a.points, b.points), ("weights", a.weights, b.weights)):
                    fin = np.isfinite(v)
                    if not np.array_equal(u[fin], v[fin]):
                        k = int(np.argmax(u[fin] != v[fin]))
                        return False, f"trim_inf changed a finite value: {what} {u[fin][k]!r} with trimming, {v[fin][k]!r} without (old node {grid.points[fin][k]!r})"
                    if np.any(~np.isfinite(u)):
                        return False, f"non-finite {what} although trimming is on"
                return True, None
            cid = f"trimming-only-replaces-infinities:{tname}"
            ok = col.check(cid, chk, inputs=inp, sample=inp)
            if not ok and "should not be above domain" in (col.last_failure["detail"] or ""):
                # signature of the recorded finding: the infinite domain end became 1e16 and a finite node is mapped beyond it
                with np.errstate(all="ignore"):
                    mapped = np.asarray(mk(True).transform(grid.points), dtype=float)
                    ends = np.asarray(mk(True).transform(np.array(grid.domain, dtype=float)), dtype=float)
                if np.max(np.abs(ends)) == 1e16 and np.any(np.isfinite(mapped) & (np.abs(mapped) > 1e16)):
                    col.last_failure["case_id"] = cid + ":known-finite-node-beyond-trimmed-infinity"


def run(tier, seed, *rest):
    col = Collector("13 real 1-D rules (odd and even n) x 11 real transforms with random admissible parameters: nodes mapped, weights = |r'| w, "
                    "sign preservation, ordered image domain containing the nodes, input untouched; transported exactness of Gauss-Legendre under "
                    "linear maps; reference integrals on [0,inf) incl. the decreasing multi-exponential map; rules with 150..400 (thorough: ..1000) nodes through "
                    "trimming and non-trimming variants of the same transform agree on every finite value; distinct = (contract, transform)")
    g = rng(seed, "C04")
    sizes = [7, 10] if tier == "quick" else [3, 7, 10, 21, 50]
    for n in sizes:
        for rule, kw in RULES_PM1:
            nn = n if rule not in ("Simpson", "TanhSinh") or n % 2 else n + 1
            grid = getattr(og, rule)(nn, **kw)
            for tname, tf in transforms_for("pm1", g, nn):
                structure_contract(col, rule, kw, tname, tf, grid)
        for rule, kw in RULES_POS:
            grid = getattr(og, rule)(n, **kw)
            for tname, tf in transforms_for("pos", g, n):
                if tname == "HyperbolicRTransform" and rule != "UniformInteger":
                    continue      # the hyperbolic map is only defined below its pole x < 1/b: integer grids with b (n-1) < 1
                structure_contract(col, rule, kw, tname, tf, grid)
    # grids whose domain is a strict sub-interval of the transform's domain (chained transforms, hand-built grids)
    for n in sizes[:2]:
        gl = og.GaussLegendre(n)
        a, b = sorted(g.uniform(-0.9, 0.9, 2))
        sub = OneDGrid(0.5 * (b - a) * gl.points + 0.5 * (a + b), 0.5 * (b - a) * gl.weights, (float(a), float(b)))
        half = rt.LinearFiniteRTransform(-1.0, 0.0).transform_1d_grid(gl)
        for grid, label in ((sub, "sub-interval"), (half, "chained-linear")):
            for tname, tf in transforms_for("pm1", g, n):
                structure_contract(col, f"GaussLegendre[{label}]", {}, tname, tf, grid)
        lag = og.GaussLaguerre(n)
        fin = OneDGrid(lag.points / (1 + lag.points) * 5.0, lag.weights, (0.0, 5.0))
        for tname, tf in transforms_for("pos", g, n):
            if tname != "HyperbolicRTransform":
                structure_contract(col, "hand-built[(0,5)]", {}, tname, tf, fin)
    # hand-built rules with integer-typed nodes (np.array([-1, 0, 1])): same contracts, and Simpson's exactness is transported by a linear map
    for k in range(2 if tier == "quick" else 6):
        a, b = float(g.uniform(-2, 0.5)), float(g.uniform(1, 4))
        simpson = OneDGrid(np.array([-1, 0, 1]), np.array([1.0, 4.0, 1.0]) / 3.0, (-1, 1))
        mid = OneDGrid(np.array([0]), np.array([2.0]), (-1, 1))
        lin = rt.LinearFiniteRTransform(a, b)
        for grid, label in ((simpson, "Simpson"), (mid, "midpoint")):
            structure_contract(col, f"hand-built-integer-nodes[{label}]", {}, "LinearFiniteRTransform", lin, grid)
            for tname, tf in transforms_for("pm1", g, 3):
                if label == "midpoint":
                    structure_contract(col, f"hand-built-integer-nodes[{label}]", {}, tname, tf, grid)

        def exact(a=a, b=b, lin=lin, simpson=simpson):
            new = lin.transform_1d_grid(simpson)
            for deg in (0, 1, 2, 3):
                got = new.integrate(new.points**deg)
                want = (b ** (deg + 1) - a ** (deg + 1)) / (deg + 1)
                if not abs(got - want) <= 1e-12 * (1 + abs(want)) * max(1.0, abs(b), abs(a)) ** deg:
                    return False, f"Simpson on integer-typed nodes mapped to [{a:.4g}, {b:.4g}]: int x^{deg} = {got!r}, exact {want!r}"
            return True, None
        col.check("transported-exactness:LinearFinite:integer-nodes", exact, inputs={"a": a, "b": b}, sample={"a": a, "b": b})
    integral_contracts(col, g, tier)
    for n in ([150, 400] if tier == "quick" else [60, 150, 400, 1000]):
        trimming_contract(col, g, n)
    domain_mismatch(col)
    return col.result()


def replay(req):
    out = run("quick", req.get("seed", 0))
    fails = [f for f in out["failures"]]
    if fails:
        f = fails[0]
        for cand in fails:      # prefer failures that are not the recorded finding
            if "known" not in cand["case_id"]:
                f = cand
                break
        return {"failed": True, "case_id": f["case_id"], "detail": f["detail"], "input": f["input"]}
    return {"failed": False, "detail": f"{out['evaluations']} native evaluations passed"}


def replay_case(case):
    return replay({"seed": 0})
