"""Exhaustive native layer for C12: every integer request for every method against the 'least supported >= request' oracle,
every table entry against its data file, and the size->degree converter on random sequences."""
import bisect
from importlib.resources import files

import numpy as np

from grid import angular
from grid.angular import AngularGrid
from rtc.common import Collector, rng

METHODS = {"lebedev": ("LEBEDEV", "grid.data.lebedev"), "spherical": ("SPHERICAL", "grid.data.spherical_design"),
           "maxdet": ("MAX_DET", "grid.data.maxdet"), "ahrens_beylkin": ("AHRENS_BEYLKIN", "grid.data.ahrens_beylkin")}


def oracle(keys_sorted, q):
    for k in keys_sorted:
        if k >= q:
            return k
    return None


def lookups(col, method, only=None):
    name, pkg = METHODS[method]
    deg_t = getattr(angular, name + "_DEGREES")
    npt_t = getattr(angular, name + "_NPOINTS")
    dkeys, skeys = sorted(deg_t), sorted(npt_t)
    bad = []
    n = 0
    for q in range(0, max(dkeys) + 1):
        n += 1
        want = oracle(dkeys, q)
        try:
            d, s = AngularGrid._get_degree_and_size(degree=q, size=None, method=method)
        except Exception as e:  # noqa: BLE001
            bad.append(("degree", q, f"{type(e).__name__}: {e}"))
            continue
        if d != want or s != deg_t[want]:
            bad.append(("degree", q, f"resolved to ({d},{s}), smallest supported not below is ({want},{deg_t[want]})"))
    for q in range(0, max(skeys) + 1):
        n += 1
        want = oracle(skeys, q)
        try:
            d, s = AngularGrid._get_degree_and_size(degree=None, size=q, method=method)
        except Exception as e:  # noqa: BLE001
            bad.append(("size", q, f"{type(e).__name__}: {e}"))
            continue
        if s != want or d != npt_t[want]:
            bad.append(("size", q, f"resolved to ({d},{s}), smallest supported not below is ({npt_t[want]},{want})"))
    for q, kw in ((max(dkeys) + 1, "degree"), (max(skeys) + 1, "size"), (-1, "degree"), (-1, "size")):
        n += 1
        try:
            AngularGrid._get_degree_and_size(**{"degree": None, "size": None, kw: q, "method": method})
            bad.append((kw, q, "out-of-range request accepted"))
        except ValueError:
            pass
    col.evaluations += n - 1
    col.case(f"{method}:lookups", not bad, detail=None if not bad else f"{bad[0][0]}={bad[0][1]}: {bad[0][2]} ({len(bad)} wrong look-ups)",
             inputs={"method": method, "first_bad": bad[:3]}, sample={"method": method, "requests": n})


def files_contract(col, method, quick):
    name, pkg = METHODS[method]
    deg_t = getattr(angular, name + "_DEGREES")
    for d, s in deg_t.items():
        def chk(d=d, s=s):
            path = files(pkg).joinpath(f"{method}_{d}_{s}.npz")
            if not path.is_file():
                return False, f"missing data file {method}_{d}_{s}.npz"
            data = np.load(path)
            if len(data["points"]) != s:
                return False, f"{method}_{d}_{s}.npz holds {len(data['points'])} points"
            if len(data["weights"]) not in (1, s):
                return False, f"{method}_{d}_{s}.npz holds {len(data['weights'])} weights"
            return True, None
        col.check(f"{method}:file:{d}", chk)
    # the constructor reports the matching pair for requests by degree and by size (spot checks incl. in-between values)
    dk = sorted(deg_t)
    picks = sorted(set([0, 1, dk[0], dk[-1], dk[len(dk) // 2] - 1 if dk[len(dk) // 2] - 1 >= 0 else 0, dk[len(dk) // 3]]))
    for q in picks:
        def chk2(q=q):
            want = oracle(dk, q)
            g = AngularGrid(degree=q, method=method, cache=False)
            if g.degree != want or g.size != deg_t[want] or g.points.shape != (deg_t[want], 3) or g.weights.shape != (deg_t[want],):
                return False, f"AngularGrid(degree={q}) has degree {g.degree}, size {g.size}, points {g.points.shape}"
            g2 = AngularGrid(size=deg_t[want], method=method, cache=False)
            return (g2.degree == want and g2.size == deg_t[want]), f"AngularGrid(size={deg_t[want]}) -> ({g2.degree},{g2.size})"
        col.check(f"{method}:construct:{q}", chk2)
    # requests by size through the constructor, from zero up (with and without an explicit degree argument beside it: the size wins)
    sk = sorted(deg_t.values())
    for q in sorted(set([0, 1, sk[0] - 1, sk[0], sk[0] + 1, sk[len(sk) // 2] - 1, sk[-1]])):
        def chk3(q=q):
            want_s = oracle(sk, q)
            want_d = next(d for d, s in deg_t.items() if s == want_s)
            import warnings as _w
            for kw in ({"size": q}, {"degree": dk[1], "size": q}, {"degree": None, "size": np.int64(q)}):
                with _w.catch_warnings():
                    _w.simplefilter("ignore")
                    g = AngularGrid(method=method, cache=False, **kw)
                if g.degree != want_d or g.size != want_s or len(g.points) != want_s:
                    return False, f"AngularGrid({kw}, method={method!r}) builds (degree, size) = ({g.degree}, {g.size}); smallest supported size >= {q} is {want_s} (degree {want_d})"
            return True, None
        col.check(f"{method}:construct-by-size:{q}", chk3, inputs={"method": method, "size": q})


def converter_contract(col, g, method, k):
    name, _ = METHODS[method]
    npt_t = getattr(angular, name + "_NPOINTS")
    sk = sorted(npt_t)
    n = int(g.integers(1, 12))
    sizes = g.integers(0, sk[-1] + 1, n)
    if k % 2:
        sizes = np.array([int(g.choice(sk)) - int(g.integers(0, 2)) for _ in range(n)]).clip(min=0)
    if k % 4 == 2:
        # adversarial for in-place rewrites: unsorted, with duplicates, and sizes that coincide with degrees of other entries
        pool = list(sk[:12]) + [npt_t[s] for s in sk[:12]] + [s - 1 for s in sk[1:8]]
        sizes = np.array([int(g.choice(pool)) for _ in range(n)]).clip(min=0)
        g.shuffle(sizes)
    sizes_in = sizes.tolist() if k % 3 == 0 else sizes

    def chk():
        keep = np.array(sizes).copy()
        got = AngularGrid.convert_angular_sizes_to_degrees(sizes_in, method)
        want = [npt_t[oracle(sk, int(s))] for s in sizes]
        if list(got) != want:
            return False, f"sizes {list(sizes)} -> {list(got)}, element-wise rule gives {want}"
        if not np.array_equal(np.array(sizes_in), keep):
            return False, "input sequence was modified"
        return True, None
    col.check(f"{method}:converter", chk, inputs={"method": method, "sizes": [int(x) for x in sizes]})


def history_contract(col, g, k):
    """Grids built after other grids (other methods, same degree; cache on/off) report the pair of their own method's table
    and carry exactly that many points."""
    ms = list(METHODS)
    seq = [(ms[int(g.integers(0, 4))], bool(g.integers(0, 2))) for _ in range(4)]
    deg = int(g.choice([3, 5, 7, 9, 11, 13, 14, 15, 17, 19, 21]))

    def chk():
        for method, cache in seq:
            name, _ = METHODS[method]
            deg_t = getattr(angular, name + "_DEGREES")
            want = oracle(sorted(deg_t), deg)
            gr = AngularGrid(degree=deg, method=method, cache=cache)
            if gr.degree != want or gr.size != deg_t[want] or len(gr.points) != deg_t[want] or len(gr.weights) != deg_t[want]:
                return False, (f"after history {seq}: AngularGrid(degree={deg}, method={method}) reports ({gr.degree},{gr.size}) with "
                               f"{len(gr.points)} points; table pair is ({want},{deg_t[want]})")
        return True, None
    col.check("history:cross-method", chk, inputs={"sequence": seq, "degree": deg}, sample={"sequence": seq, "degree": deg})


def run(tier, seed, *rest):
    col = Collector("every integer degree 0..max and size 0..max for all four methods against the 'smallest supported not below' oracle "
                    "(exhaustive), out-of-range requests rejected, every table entry against its data file (exists, point count), constructor "
                    "spot checks, size->degree converter on random sequences; distinct = (method, contract, table entry)", label="exhaustive")
    col.exhaustive = True
    g = rng(seed, "C12")
    for method in METHODS:
        lookups(col, method)
        files_contract(col, method, tier == "quick")
        for k in range(12 if tier == "quick" else 80):
            converter_contract(col, g, method, k)
    for k in range(10 if tier == "quick" else 60):
        history_contract(col, g, k)
    return col.result()


def replay(req):
    spec = req.get("spec") or {}
    methods = [spec["method"]] if spec.get("method") in METHODS else list(METHODS)
    col = Collector("replay")
    g = rng(req.get("seed", 0), "C12r")
    for method in methods:
        lookups(col, method)
        files_contract(col, method, True)
        for k in range(24):
            converter_contract(col, g, method, k)
    for k in range(20):
        history_contract(col, g, k)
    if col.failures:
        f = col.failures[0]
        return {"failed": True, "case_id": f["case_id"], "detail": f["detail"], "input": f["input"]}
    return {"failed": False, "detail": f"{col.evaluations} native evaluations passed"}


def replay_case(case):
    return replay({"spec": {"method": (case.get("input") or {}).get("method")}})
