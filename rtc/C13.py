"""Bounded run-time contracts for C13 (rectilinear grids) on the real classes, native NumPy."""
import itertools
import os
import tempfile

import numpy as np

from grid.basegrid import OneDGrid
from grid.cubic import Tensor1DGrids, UniformGrid
from rtc.common import Collector, rng

SCHEMES = ["Rectangle", "Trapezoid", "Alternative", "Fourier1", "Fourier2"]


def rand_axes(g, dim, skew=True):
    a = np.diag(g.uniform(0.2, 1.0, dim))
    if skew:
        a = a + g.uniform(-0.15, 0.15, (dim, dim))
    if g.random() < 0.3:
        a[0] = -a[0]
    return a


def index_contract(col, g, dim):
    shape = tuple(int(x) for x in g.integers(2, 7, dim))
    pts = np.zeros((int(np.prod(shape)), dim))
    grid = UniformGrid(np.zeros(dim), np.eye(dim), np.array(shape), weight="Rectangle")
    inp = {"shape": shape}

    def chk():
        seen = set()
        for co in itertools.product(*[range(s) for s in shape]):
            f = grid.coordinates_to_index(co)
            want = 0
            for c, s in zip(co, shape):
                want = want * s + c
            if int(f) != want:
                return False, f"coordinates_to_index{co} = {f}, row-major index is {want}"
            back = tuple(int(x) for x in grid.index_to_coordinates(int(f)))
            if back != co:
                return False, f"index_to_coordinates({f}) = {back}, expected {co}"
            seen.add(int(f))
        if seen != set(range(int(np.prod(shape)))):
            return False, "index map is not a bijection"
        for f in range(int(np.prod(shape))):
            co = grid.index_to_coordinates(f)
            if int(grid.coordinates_to_index(co)) != f or not all(0 <= c < s for c, s in zip(co, shape)):
                return False, f"index {f} decodes to {co}"
        try:
            grid.index_to_coordinates(-1)
            return False, "negative index accepted"
        except ValueError:
            pass
        return True, None
    col.check(f"index-maps:{dim}d", chk, inputs=inp, sample={"shape": shape})


def tensor_contract(col, g, dim):
    ns = [int(x) for x in g.integers(2, 6, dim)]
    grids = [OneDGrid(np.sort(g.normal(size=n)), g.uniform(0.1, 1, n)) for n in ns]
    inp = {"sizes": ns}

    def chk():
        t = Tensor1DGrids(*grids)
        if tuple(t.shape) != tuple(ns) or t.size != int(np.prod(ns)):
            return False, f"shape {t.shape}, size {t.size}"
        for co in itertools.product(*[range(n) for n in ns]):
            f = int(t.coordinates_to_index(co))
            want_p = np.array([gr.points[c] for gr, c in zip(grids, co)])
            want_w = np.prod([gr.weights[c] for gr, c in zip(grids, co)])
            if not np.allclose(t.points[f], want_p, rtol=0, atol=0) or not np.isclose(t.weights[f], want_w, rtol=1e-14):
                return False, f"node {co}: point {t.points[f]} weight {t.weights[f]}, expected {want_p} {want_w}"
        # separable integrand factorises
        fs = [lambda x: 1 + x + 0.3 * x**2, lambda y: np.cos(y), lambda z: np.exp(-z * z)][:dim]
        vals = np.prod([f(t.points[:, d]) for d, f in enumerate(fs)], axis=0)
        want = np.prod([gr.integrate(f(gr.points)) for gr, f in zip(grids, fs)])
        if not np.isclose(t.integrate(vals), want, rtol=1e-12):
            return False, "separable integrand does not factorise"
        axes_pts = t.get_points_along_axes()
        for a, gr in zip(axes_pts, grids):
            if not np.array_equal(a, gr.points):
                return False, "get_points_along_axes does not return the 1D nodes"
        return True, None
    col.check(f"tensor:{dim}d", chk, inputs=inp, sample={"sizes": ns})


def shipped_fourier2(shape, axes):
    """Reference of the *recorded* behaviour of the 'Fourier2' scheme in 3D (known finding: these weights do not sum to the volume)."""
    vol = abs(np.linalg.det(axes * shape[:, None])) * np.prod((shape - 1) / shape)

    def f2(m):
        gd = np.arange(1, m + 1)
        gp = np.arange(1, m)
        g2 = np.outer((2.0 * gd - 1) / m, gp)
        w = 4.0 * np.einsum("ij,j->i", np.sin(g2 * np.pi), np.sin(gp * np.pi / 2.0) ** 2.0 / gp) / (np.pi * m)
        w += 2.0 * np.sin(np.pi * m / 2.0) ** 2.0 * np.sin((gd - 0.5) * np.pi) / (m**2.0 * np.pi)
        return w
    return np.ravel(np.einsum("ijk,i,j,k->ijk", np.ones(shape), f2(shape[0]), f2(shape[1]), f2(shape[2])) * vol)


def uniform_contract(col, g, dim, scheme):
    shape = np.array([int(x) for x in g.integers(2, 7, dim)])
    origin = g.normal(size=dim)
    axes = rand_axes(g, dim)
    inp = {"dim": dim, "scheme": scheme, "shape": shape.tolist(), "origin": origin.tolist(), "axes": axes.tolist()}

    def chk():
        grid = UniformGrid(origin, axes, shape, weight=scheme)
        n = int(np.prod(shape))
        if grid.points.shape != (n, dim) or grid.weights.shape != (n,):
            return False, f"points {grid.points.shape} weights {grid.weights.shape}"
        for co in itertools.product(*[range(s) for s in shape]):
            f = int(grid.coordinates_to_index(co))
            want = origin + np.asarray(co, float) @ axes
            if not np.allclose(grid.points[f], want, rtol=1e-13, atol=1e-13):
                return False, f"node {co}: {grid.points[f]}, expected origin + sum c_i a_i = {want}"
        vol = abs(np.linalg.det(axes * shape[:, None]))
        dev = abs(grid.weights.sum() - vol) / vol
        bound = float(np.sum(1.0 / shape))
        if not dev <= bound + 1e-12:
            return False, f"weights sum to {grid.weights.sum():.6g}, box volume {vol:.6g}: relative deviation {dev:.3g} > sum 1/M = {bound:.3g}"
        return True, None
    cid = f"uniform:{dim}d:{scheme}"
    ok = col.check(cid, chk, inputs=inp, sample={"dim": dim, "scheme": scheme, "shape": shape.tolist()})
    if not ok and scheme == "Fourier2":
        d = col.last_failure["detail"] or ""
        # signature of the recorded finding: raises IndexError in 2D (uses shape[2]); weights sum to zero in 3D
        zero_sum = False
        if dim == 3:
            try:
                w_now = UniformGrid(origin, axes, shape, weight=scheme).weights
                zero_sum = np.allclose(w_now, shipped_fourier2(shape, axes), rtol=1e-12, atol=1e-15)
            except Exception:  # noqa: BLE001
                zero_sum = False
        if (dim == 2 and d.startswith("IndexError: index 2 is out of bounds")) or zero_sum:
            col.last_failure["case_id"] = cid + ":known"


def shipped_from_molecule(nums, coords, spacing, ext, rotate):
    """Reference of the *recorded* behaviour (known finding): box centred on the centre of nuclear charge, axes = spacing * v."""
    com = np.dot(nums, coords) / np.sum(nums)
    if rotate:
        it = np.zeros((3, 3))
        for i in range(len(nums)):
            xyz = coords[i] - com
            r = np.linalg.norm(xyz) ** 2.0
            it += nums[i] * (np.diag([r, r, r]) - np.outer(xyz, xyz))
        _, v = np.linalg.eigh(it)
        new = np.dot(coords - com, v)
        axes = spacing * v
    else:
        new = coords
        axes = np.diag([spacing] * 3)
    shape = np.array(np.ceil((new.max(axis=0) - new.min(axis=0) + 2.0 * ext) / spacing), int)
    return com - np.dot(0.5 * shape, axes), axes, shape


def molecule_contract(col, g, k):
    natom = int(g.integers(1, 6))
    nums = g.integers(1, 18, natom).astype(float)
    coords = g.normal(size=(natom, 3)) * g.uniform(0.5, 3.0)
    if k % 3 == 0 and natom > 1:
        nums[0] = 80.0       # heavy atom far from the others: strongly asymmetric centre of charge
        coords[0] = [0, 0, 6.0]
    spacing = float(g.uniform(0.3, 0.8))
    ext = float(g.uniform(1.0, 3.0))
    rotate = bool(k % 2)
    inp = {"atcorenums": nums.tolist(), "atcoords": coords.tolist(), "spacing": spacing, "extension": ext, "rotate": rotate}

    def chk():
        grid = UniformGrid.from_molecule(nums, coords, spacing=spacing, extension=ext, rotate=rotate)
        inv = np.linalg.inv(grid.axes)
        frac = (coords - grid.origin) @ inv          # fractional grid coordinates of the nuclei
        lo = frac * spacing
        hi = (np.array(grid.shape) - 1 - frac) * spacing
        margin = min(lo.min(), hi.min())
        if margin < ext - spacing - 1e-9:
            return False, f"a nucleus is only {margin:.4g} inside the box, requested margin {ext:.4g} less one spacing {spacing:.4g}"
        return True, None
    asym = "asym" if (k % 3 == 0 and natom > 1) else "generic"
    ok = col.check(f"from_molecule:{'rot' if rotate else 'norot'}:{asym}", chk, inputs=inp, sample={"natom": natom, "rotate": rotate})
    if not ok:
        try:
            grid = UniformGrid.from_molecule(nums, coords, spacing=spacing, extension=ext, rotate=rotate)
            o, a, sh = shipped_from_molecule(nums, coords, spacing, ext, rotate)
            if np.allclose(grid.origin, o, atol=1e-9) and np.allclose(grid.axes, a, atol=1e-9) and np.array_equal(np.asarray(grid.shape), sh):
                col.last_failure["case_id"] += ":known-box-centred-on-charge"
        except Exception:  # noqa: BLE001
            pass


def closest_contract(col, g, dim):
    shape = np.array([int(x) for x in g.integers(3, 8, dim)])
    axes = np.diag(g.uniform(0.2, 1.0, dim) * g.choice([-1.0, 1.0], dim))
    origin = g.normal(size=dim)
    inp = {"dim": dim, "shape": shape.tolist(), "axes": axes.tolist(), "origin": origin.tolist()}

    def chk():
        grid = UniformGrid(origin, axes, shape, weight="Rectangle")
        for t in range(30):
            frac = g.uniform(0, 1, dim) * (shape - 1)
            if t >= 20:
                # "all query points": also points outside the box, by less and by more than half a step, on one or on all axes
                out = g.uniform(0.2, 3.0, dim) * g.choice([-1.0, 1.0], dim)
                mask = np.ones(dim, bool) if t % 2 else (np.arange(dim) == int(g.integers(0, dim)))
                frac = np.where(mask, np.where(out > 0, shape - 1 + out, out), frac)
            p = origin + frac @ axes
            idx = int(grid.closest_point(p, "closest"))
            d = np.linalg.norm(grid.points - p, axis=1)
            if not 0 <= idx < grid.size or d[idx] > d.min() + 1e-12:
                return False, f"closest_point({p}) = {idx} at distance {d[idx] if 0 <= idx < grid.size else None}, nearest node {int(d.argmin())} at {d.min()}"
        return True, None
    col.check(f"closest_point:{dim}d", chk, inputs=inp)


CUBE_SHAPES = [(2, 2, 3), (7, 7, 7), (2, 2, 2), (3, 3, 3), (2, 5, 5), (5, 7, 1 + 2), (2, 3, 4), (7, 5, 5)]   # sizes cover every residue mod 6


def cube_contract(col, g, k, tmpdir):
    shape = np.array(CUBE_SHAPES[k % len(CUBE_SHAPES)]) if k < 2 * len(CUBE_SHAPES) else np.array([int(x) for x in g.integers(2, 6, 3)])
    axes = rand_axes(g, 3)
    origin = g.normal(size=3)
    natom = int(g.integers(1, 4))
    atnums = g.integers(1, 30, natom)
    atcoords = g.normal(size=(natom, 3)) * 2
    pseudo = atnums.astype(float) - (k % 2) * 0.5
    data = g.normal(size=int(np.prod(shape))) * 10.0 ** g.integers(-3, 4)
    inp = {"shape": shape.tolist()}

    def chk():
        grid = UniformGrid(origin, axes, shape, weight="Rectangle")
        fn = os.path.join(tmpdir, f"t{k}.cube")
        grid.generate_cube(fn, data, atcoords, atnums, pseudo_numbers=pseudo if k % 2 else None)
        g2, cd = UniformGrid.from_cube(fn, return_data=True)
        if not (np.array_equal(g2.shape, shape) and np.allclose(g2.origin, origin, atol=6e-7) and np.allclose(g2.axes, axes, atol=6e-7)):
            return False, "grid not reproduced to printed precision"
        if not np.array_equal(cd["atnums"], atnums) or not np.allclose(cd["atcoords"], atcoords, atol=6e-7):
            return False, "atoms not reproduced"
        if not np.allclose(cd["atcorenums"], pseudo if k % 2 else atnums.astype(float), atol=6e-7):
            return False, "pseudo numbers not reproduced"
        if not np.allclose(cd["data"], data, rtol=6e-6, atol=0):
            return False, "data not reproduced to printed precision"
        if not np.allclose(g2.points, grid.points, atol=1e-5):
            return False, "points of the re-read grid differ"
        # angstrom convention: negative first count
        lines = open(fn).read().splitlines()
        parts = lines[3].split()
        lines[3] = f"{-int(parts[0]):5d} " + " ".join(parts[1:])
        fn2 = os.path.join(tmpdir, f"t{k}a.cube")
        open(fn2, "w").write("\n".join(lines) + "\n")
        from grid.utils import ANGSTROM_TO_BOHR
        g3, cd3 = UniformGrid.from_cube(fn2, return_data=True)
        if not (np.allclose(g3.origin, origin * ANGSTROM_TO_BOHR, atol=2e-6) and np.allclose(g3.axes, axes * ANGSTROM_TO_BOHR, atol=2e-6)
                and np.allclose(cd3["atcoords"], atcoords * ANGSTROM_TO_BOHR, atol=2e-6) and np.array_equal(g3.shape, shape)):
            return False, "angstrom convention not converted consistently"
        return True, None
    col.check(f"cube-roundtrip:size-mod-6={int(np.prod(shape)) % 6}", chk, inputs=inp, sample={"shape": shape.tolist(), "natom": natom})


INTERP_SHAPES = [(8, 11, 9), (9, 8, 10), (7, 9, 8), (10, 7, 12), (8, 8, 8)]


def interpolation_contract(col, g, k):
    shape = np.array(INTERP_SHAPES[k % len(INTERP_SHAPES)])
    axes = np.diag(g.uniform(0.3, 0.6, 3))
    origin = g.normal(size=3)
    grid = UniformGrid(origin, axes, shape, weight="Rectangle")
    cx = g.normal(size=(4, 4, 4)) * 0.3

    def poly(p, nu=(0, 0, 0), maxdeg=3):
        x, y, z = (p - origin).T
        out = np.zeros(len(p))
        for a in range(maxdeg + 1):
            for b in range(maxdeg + 1):
                for c in range(maxdeg + 1):
                    def d(v, n, m):
                        if m == 0:
                            return v**n
                        if m == 1:
                            return n * v ** (n - 1) if n >= 1 else 0 * v
                        if m == 2:
                            return n * (n - 1) * v ** (n - 2) if n >= 2 else 0 * v
                        return n * (n - 1) * (n - 2) * v ** (n - 3) if n >= 3 else 0 * v
                    out += cx[a, b, c] * d(x, a, nu[0]) * d(y, b, nu[1]) * d(z, c, nu[2])
        return out
    lo = origin + 2.2 * np.diag(axes)
    hi = origin + (shape - 3.2) * np.diag(axes)
    q = lo + g.uniform(0, 1, (5, 3)) * (hi - lo)
    inp = {"shape": shape.tolist()}

    def chk():
        vals = poly(grid.points)
        for nu in ((0, 0, 0), (1, 0, 0), (0, 1, 0), (0, 0, 1), (1, 1, 0), (0, 2, 0)):
            got = grid.interpolate(q, vals, nu_x=nu[0], nu_y=nu[1], nu_z=nu[2])
            want = poly(q, nu)
            if not np.allclose(got, want, rtol=1e-7, atol=1e-8):
                return False, f"cubic interpolation with derivative orders {nu}: {got[:2]} vs polynomial {want[:2]}"
        lin_vals = poly(grid.points, maxdeg=1)
        got = grid.interpolate(q, lin_vals, method="linear")
        if not np.allclose(got, poly(q, maxdeg=1), rtol=1e-10, atol=1e-10):
            return False, "linear method does not reproduce a trilinear function"
        pos = np.exp(0.2 * poly(grid.points, maxdeg=1))
        got = grid.interpolate(q, pos, use_log=True)
        if not np.allclose(got, np.exp(0.2 * poly(q, maxdeg=1)), rtol=1e-8):
            return False, "logarithmic variant does not reproduce exp(trilinear)"
        got = grid.interpolate(q, pos, use_log=True, nu_x=1)
        want = np.exp(0.2 * poly(q, maxdeg=1)) * 0.2 * poly(q, (1, 0, 0), maxdeg=1)
        if not np.allclose(got, want, rtol=1e-7, atol=1e-9):
            return False, "derivative through the logarithmic variant is wrong"
        # f = exp(s p), p of degree three in each variable: value and the derivatives of order 1..3 in each single variable
        s_ = 2.0 / max(1.0, float(np.max(np.abs(poly(grid.points)))))        # keeps the exponent within [-2, 2] on the whole grid
        pos3 = np.exp(s_ * poly(grid.points))
        f0 = np.exp(s_ * poly(q))
        for axis in range(3):
            p1, p2, p3 = (s_ * poly(q, tuple(m if c == axis else 0 for c in range(3))) for m in (1, 2, 3))
            wants = {0: f0, 1: f0 * p1, 2: f0 * (p2 + p1**2), 3: f0 * (p3 + 3 * p1 * p2 + p1**3)}
            for order in (0, 1, 2, 3):
                nu = [0, 0, 0]
                nu[axis] = order
                got = grid.interpolate(q, pos3, use_log=True, nu_x=nu[0], nu_y=nu[1], nu_z=nu[2])
                if not np.allclose(got, wants[order], rtol=1e-6, atol=1e-8):
                    return False, f"logarithmic variant, derivative orders {tuple(nu)} of exp(cubic): {got[:2]} vs {wants[order][:2]}"
        return True, None
    col.check(f"interpolate:{'x'.join(map(str, shape))}", chk, inputs=inp, sample={"shape": shape.tolist()})


def run(tier, seed, *rest):
    col = Collector("real Tensor1DGrids/UniformGrid on random shapes 2..6 per axis (2D and 3D), skewed/negative axes, all five weight schemes: "
                    "index bijection, node layout, weight products, weight-sum bound, molecule boxes (incl. asymmetric charge), nearest node by "
                    "brute force (query points inside and outside the box), cube write/read round trip in both unit conventions, tri-cubic polynomial reproduction with derivatives, "
                    "log variant on exp(cubic) with derivatives of order <= 3 in each single variable, linear variant; distinct = (contract, dimension, scheme/variant)")
    g = rng(seed, "C13")
    reps = 3 if tier == "quick" else 20
    with tempfile.TemporaryDirectory() as tmp:
        for k in range(reps):
            for dim in (2, 3):
                index_contract(col, g, dim)
                tensor_contract(col, g, dim)
                closest_contract(col, g, dim)
                for scheme in SCHEMES:
                    uniform_contract(col, g, dim, scheme)
        for k in range(reps * 4):
            molecule_contract(col, g, k)
        for k in range(8 if tier == "quick" else 40):
            cube_contract(col, g, k, tmp)
        for k in range(3 if tier == "quick" else 10):
            interpolation_contract(col, g, k)
    return col.result()


def replay(req):
    spec = req.get("spec") or {}
    col = Collector("replay")
    g = rng(req.get("seed", 0), "C13r")
    what = spec.get("what")
    for k in range(12):
        for dim in ((spec.get("dim"),) if spec.get("dim") in (2, 3) else (2, 3)):
            if what in (None, "index"):
                index_contract(col, g, dim)
            if what in (None, "tensor"):
                tensor_contract(col, g, dim)
            if what in (None, "uniform"):
                for scheme in ([spec["scheme"]] if spec.get("scheme") else ["Rectangle", "Trapezoid", "Alternative"]):
                    uniform_contract(col, g, dim, scheme)
    if what == "closest":
        for k in range(6):
            closest_contract(col, g, spec.get("dim") if spec.get("dim") in (2, 3) else 2 + k % 2)
    if what == "interpolate-log":
        for k in range(3):
            interpolation_contract(col, g, k)
    fails = [f for f in col.failures if not f["case_id"].endswith(":known")]
    if fails:
        f = fails[0]
        return {"failed": True, "case_id": f["case_id"], "detail": f["detail"], "input": f["input"]}
    return {"failed": False, "detail": f"{col.evaluations} native evaluations passed"}


def replay_case(case):
    cid = case.get("case_id", "")
    col = Collector("replay-case")
    g = rng(0, "C13")
    with tempfile.TemporaryDirectory() as tmp:
        for k in range(6):
            if cid.startswith("index"):
                index_contract(col, g, 3 if "3d" in cid else 2)
            elif cid.startswith("tensor"):
                tensor_contract(col, g, 3 if "3d" in cid else 2)
            elif cid.startswith("uniform"):
                uniform_contract(col, g, 3 if "3d" in cid else 2, cid.split(":")[2])
            elif cid.startswith("from_molecule"):
                molecule_contract(col, g, k)
            elif cid.startswith("closest"):
                closest_contract(col, g, 3 if "3d" in cid else 2)
            elif cid.startswith("cube"):
                cube_contract(col, g, k, tmp)
            else:
                interpolation_contract(col, g, k)
    if col.failures:
        f = col.failures[0]
        return {"failed": True, "case_id": f["case_id"], "detail": f["detail"], "input": f["input"]}
    return {"failed": False}
