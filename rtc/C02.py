"""Bounded (here: exhaustive) run-time contracts for C02 - every shipped angular grid is exact to its advertised degree.

There is no proof layer for this property (file content is data): this driver IS the check.  It wraps the real
constructor ``AngularGrid(degree=d, method=m)`` (and its by-size / cache-hit / cache-off / non-supported-request
variants) with the postconditions of the property statement and evaluates them for every key of the four
degree tables (32 + 163 + 199 + 56 = 450 shipped data files):

  size         grid.size == table[degree] == len(points) == len(weights), grid.degree == degree
  unit-sphere  | |p_i| - 1 | <= 1e-12 for every point
  exact        | sum_i w_i Y_lm(p_i) - sqrt(4 pi) delta_l0 | <= 1e-10 for all l <= degree, -l <= m <= l
               (l = 0 is the statement that the weights sum to 4 pi)

Oracle: own fully normalised associated-Legendre three-term recursion in l at fixed m (float64, violations are
re-evaluated in longdouble before they are reported); it never touches grid.utils.  The oracle itself is checked
(a) against mpmath.spherharm for all (l, m), l <= 40, at generic/polar/equatorial points, (b) by the addition theorem
sum_m Y_lm^2 = (2l+1)/(4 pi) up to the largest shipped degree and (c) on a Gauss-Legendre x trapezoid product rule
built with numpy.polynomial (exact to a chosen degree), which also measures the noise floor of the oracle (1e-13).

quick   : every file to l <= min(degree, 40), full degree for the 302 files with <= 16000 points (all Lebedev and Ahrens-Beylkin
          files, spherical designs to degree 177, max-det to degree 125)
thorough: every file to its full degree (1.3e11 Legendre values, spread over up to 16 processes)
"""
import os

for _v in ("OPENBLAS_NUM_THREADS", "OMP_NUM_THREADS", "MKL_NUM_THREADS"):
    os.environ.setdefault(_v, "1")      # the kernels below are memory bound; BLAS threads of 16 workers only fight each other

import hashlib  # noqa: E402
import math  # noqa: E402
import multiprocessing  # noqa: E402
import warnings  # noqa: E402

import numpy as np  # noqa: E402

from grid import angular as A  # noqa: E402
from grid.angular import AngularGrid  # noqa: E402
from rtc.common import Collector, rng  # noqa: E402

METHODS = ("lebedev", "spherical", "maxdet", "ahrens_beylkin")
TABLE_NAMES = {"lebedev": "LEBEDEV", "spherical": "SPHERICAL", "maxdet": "MAX_DET", "ahrens_beylkin": "AHRENS_BEYLKIN"}
SHIPPED = {"lebedev": 32, "spherical": 163, "maxdet": 199, "ahrens_beylkin": 56}      # numbers of the property statement
TOL_EXACT = 1e-10         # shipped data: <= 3.3e-12 (max-det), oracle noise 2e-13; the plan's 1e-9 is implied
TOL_SPHERE = 1e-12
QUICK_LCAP = 40
QUICK_FULL_SIZE = 16000  # the plan asks for >= 2000; 16000 takes in every Lebedev and Ahrens-Beylkin file and costs ~30 CPU s more
QUICK_REQUEST_SIZE = 2000
CHUNK = 8192            # points per block: stays in cache and below the size at which BLAS level-1 routines start threads
NPROC = 16
SQRT_4PI = math.sqrt(4.0 * math.pi)

# Recorded genuine defects of the shipped data (known findings): sha1 of the arrays the constructor returns today and the
# shape of the violation.  Only exactly this behaviour gets the ":known-..." suffix.
KNOWN = {
    ("ahrens_beylkin", 39): {"slug": "known-shipped-data-weights-sum-0.9632-of-4pi", "first_l": 0, "sha1": "14c63b5748c455c1479f6773ada5d7643363fba1"},
    ("ahrens_beylkin", 127): {"slug": "known-shipped-data-exact-to-l104-only", "first_l": 105, "sha1": "10b1e3a5dfe3e2c244b39d16a085cccbcd906e42"},
}


def degree_table(method):
    return dict(getattr(A, TABLE_NAMES[method] + "_DEGREES"))


def npoints_table(method):
    return dict(getattr(A, TABLE_NAMES[method] + "_NPOINTS"))


# ---------------------------------------------------------------------------------------------------------------------
# oracle: real spherical harmonics from an own normalised Legendre recursion
# ---------------------------------------------------------------------------------------------------------------------
_COEF = {}


def _coefficients(lmax, dtype):
    """a[l, m], ab[l, m] of  Pbar_l^m = a (z Pbar_{l-1}^m) - ab Pbar_{l-2}^m  and the sectoral factors d[m], e[m]."""
    key = (lmax, np.dtype(dtype).name)
    if key not in _COEF:
        l = np.arange(lmax + 1, dtype=dtype)[:, None]
        m = np.arange(lmax + 1, dtype=dtype)[None, :]
        with np.errstate(all="ignore"):
            a = np.sqrt((4 * l * l - 1) / (l * l - m * m))
            b = np.sqrt(((l - 1) ** 2 - m * m) / (4 * (l - 1) ** 2 - 1))
        ab = a * b
        mm = np.arange(1, lmax + 2, dtype=dtype)
        d = np.concatenate([np.ones(1, dtype=dtype), np.sqrt((2 * mm + 1) / (2 * mm))])     # Pbar_m^m = d[m] sin(theta) Pbar_{m-1}^{m-1}
        e = np.sqrt(2 * np.arange(lmax + 2, dtype=dtype) + 3)                                  # Pbar_{m+1}^m = e[m] z Pbar_m^m
        if np.dtype(dtype) == np.float64:
            _COEF[key] = (a.T.tolist(), ab.T.tolist(), d.tolist(), e.tolist())                 # indexed [m][l]: plain floats are fastest
        else:
            _COEF[key] = (a.T.copy(), ab.T.copy(), d, e)
        if len(_COEF) > 12:
            _COEF.pop(next(iter(_COEF)))
    return _COEF[key]


def pbar_m(z, pmm, m, lmax, am, abm, em, bufs):
    """Yield (l, Pbar_l^m(z)) for l = m..lmax given the sectoral values pmm; the yielded arrays are reused buffers."""
    p0, p1, p2 = bufs
    np.copyto(p0, pmm)
    yield m, p0
    if m == lmax:
        return
    np.multiply(z, p0, out=p1)
    p1 *= em
    yield m + 1, p1
    for l in range(m + 2, lmax + 1):
        np.multiply(z, p1, out=p2)
        p2 *= am[l]
        p0 *= abm[l]
        p2 -= p0
        yield l, p2
        p0, p1, p2 = p1, p2, p0


def angles(points, dtype):
    p = np.asarray(points, dtype=dtype)
    r = np.sqrt(p[:, 0] ** 2 + p[:, 1] ** 2 + p[:, 2] ** 2)
    z = p[:, 2] / r
    s = np.sqrt(p[:, 0] ** 2 + p[:, 1] ** 2) / r
    phi = np.arctan2(p[:, 1], p[:, 0])
    return z, s, phi


def harmonic_sums(points, weights, lmax, dtype=np.float64, only_m=None):
    """res[l, lmax + m] = sum_i w_i Y_lm(p_i) for the real harmonics Y_l0 = Pbar_l^0, Y_l,+m = sqrt2 Pbar_l^m cos(m phi),
    Y_l,-m = sqrt2 Pbar_l^m sin(m phi)  (entries with |m| > l stay zero)."""
    dtype = np.dtype(dtype).type
    a, ab, d, e = _coefficients(lmax, dtype)
    w_all = np.asarray(weights, dtype=dtype)
    z_all, s_all, phi_all = angles(points, dtype)
    res = np.zeros((lmax + 1, 2 * lmax + 1), dtype=dtype)
    sqrt2 = np.sqrt(dtype(2))
    y00 = 1 / np.sqrt(16 * np.arctan(dtype(1)))
    n = len(w_all)
    for lo in range(0, n, CHUNK):
        z, s, phi, w = z_all[lo:lo + CHUNK], s_all[lo:lo + CHUNK], phi_all[lo:lo + CHUNK], w_all[lo:lo + CHUNK]
        pmm = np.full(len(w), y00, dtype=dtype)
        bufs = [np.empty(len(w), dtype=dtype) for _ in range(3)]
        for m in range(lmax + 1):
            if m:
                pmm *= s
                pmm *= d[m]
            if only_m is not None and m != only_m:
                if m > only_m:
                    break
                continue
            if m == 0:
                for l, p in pbar_m(z, pmm, 0, lmax, a[0], ab[0], e[0], bufs):
                    res[l, lmax] += p @ w
            else:
                c = sqrt2 * w * np.cos(m * phi)
                sn = sqrt2 * w * np.sin(m * phi)
                for l, p in pbar_m(z, pmm, m, lmax, a[m], ab[m], e[m], bufs):
                    res[l, lmax + m] += p @ c
                    res[l, lmax - m] += p @ sn
    return res


def harmonic_values(points, lmax, dtype=np.float64):
    """Y[i, l, lmax + m] for a moderate number of points (oracle self-checks only); same recursion as harmonic_sums."""
    dtype = np.dtype(dtype).type
    a, ab, d, e = _coefficients(lmax, dtype)
    z, s, phi = angles(points, dtype)
    out = np.zeros((len(z), lmax + 1, 2 * lmax + 1))
    pmm = np.full(len(z), 1 / np.sqrt(16 * np.arctan(dtype(1))), dtype=dtype)
    bufs = [np.empty(len(z), dtype=dtype) for _ in range(3)]
    sqrt2 = np.sqrt(dtype(2))
    for m in range(lmax + 1):
        if m:
            pmm *= s
            pmm *= d[m]
        c, sn = (1.0, None) if m == 0 else (sqrt2 * np.cos(m * phi), sqrt2 * np.sin(m * phi))
        for l, p in pbar_m(z, pmm, m, lmax, a[m], ab[m], e[m], bufs):
            out[:, l, lmax + m] = p * c
            if m:
                out[:, l, lmax - m] = p * sn
    return out


def residual_profile(points, weights, lmax):
    """(max_m |sum w Y_lm - sqrt(4 pi) delta_l0| per l, the m of that maximum per l)."""
    res = harmonic_sums(points, weights, lmax)
    res[0, lmax] -= SQRT_4PI
    res = np.abs(res)
    return res.max(axis=1), res.argmax(axis=1) - lmax


def fingerprint(points, weights):
    h = hashlib.sha1()
    h.update(np.ascontiguousarray(points, dtype=np.float64).tobytes())
    h.update(np.ascontiguousarray(weights, dtype=np.float64).tobytes())
    return h.hexdigest()


# ---------------------------------------------------------------------------------------------------------------------
# the contract on one (method, degree): executed in a worker process, judged in the parent
# ---------------------------------------------------------------------------------------------------------------------
def grid_facts(g):
    pts, wts = np.asarray(g.points), np.asarray(g.weights)
    facts = {"degree": int(g.degree), "size": int(g.size), "points_shape": list(pts.shape), "weights_shape": list(wts.shape),
             "method": str(g.method), "finite": bool(np.all(np.isfinite(pts)) and np.all(np.isfinite(wts)))}
    if pts.ndim == 2 and pts.shape[1] == 3 and wts.ndim == 1 and len(pts) == len(wts) and facts["finite"]:
        facts["norm_dev"] = float(np.max(np.abs(np.sqrt(np.sum(pts * pts, axis=1)) - 1.0))) if len(pts) else 0.0
        facts["sum_w_over_4pi"] = float(np.sum(wts) / (4 * np.pi))
        facts["fp"] = fingerprint(pts, wts)
    return facts


def exactness_facts(pts, wts, lcap):
    per_l, at_m = residual_profile(pts, wts, lcap)
    bad = np.nonzero(~(per_l <= TOL_EXACT))[0]
    out = {"lcap": int(lcap), "max_residual": float(per_l.max()), "worst_l": int(per_l.argmax()), "n_bad_l": int(len(bad))}
    if len(bad):
        l0 = int(bad[0])
        m0 = int(at_m[l0])
        # confirm in extended precision: a violation must not be an artefact of the float64 recursion
        hi = harmonic_sums(pts, wts, lcap, np.longdouble, only_m=abs(m0))[l0, lcap + m0]
        if l0 == 0:
            hi = hi - 4 * np.sqrt(np.arctan(np.longdouble(1)))          # sqrt(4 pi) = 4 sqrt(pi / 4)
        hi = float(abs(hi))
        out.update({"first_bad_l": l0, "first_bad_m": m0, "first_bad_residual": float(per_l[l0]), "first_bad_residual_longdouble": hi,
                    "confirmed": bool(hi > TOL_EXACT)})
    return out


def variants_of(method, degree, size):
    mixed = method.upper() if len(method) % 2 else method.capitalize()
    return [("by-degree", lambda: AngularGrid(degree=degree, method=method)),
            ("by-degree-again", lambda: AngularGrid(degree=degree, method=method)),            # cache-hit path
            ("by-size", lambda: AngularGrid(size=size, method=method)),
            ("cache-off", lambda: AngularGrid(degree=degree, method=method, cache=False)),
            ("method-name-case", lambda: AngularGrid(degree=np.int64(degree), method=mixed))]


def file_task(task):
    """All observations of the contract for one table entry (runs in a worker, returns plain data)."""
    method, degree, size, lcap = task
    warnings.simplefilter("ignore")
    out = {"method": method, "degree": degree, "advertised": size, "lcap": lcap, "variants": [], "exact": {}}
    for name, build in variants_of(method, degree, size):
        try:
            g = build()
            facts = grid_facts(g)
            facts["variant"] = name
            fp = facts.get("fp")
            if fp is not None and fp not in out["exact"]:
                ex = exactness_facts(g.points, g.weights, lcap)
                ex["variant"] = name
                ex["sum_w_over_4pi"] = facts["sum_w_over_4pi"]
                out["exact"][fp] = ex
        except Exception as e:  # noqa: BLE001
            facts = {"variant": name, "error": f"{type(e).__name__}: {e}"}
        out["variants"].append(facts)
    return out


def judge_file(col, obs):
    """Turn the observations of one table entry into contract evaluations."""
    method, degree, size, lcap = obs["method"], obs["degree"], obs["advertised"], obs["lcap"]
    inp = {"method": method, "degree": degree, "size": size, "lmax": lcap}
    tag = f"{method}:{degree}"
    errs = [v for v in obs["variants"] if "error" in v]

    def chk_size():
        if errs:
            return False, f"AngularGrid({errs[0]['variant']}) raised {errs[0]['error']}"
        for v in obs["variants"]:
            if not (v["size"] == size and v["points_shape"] == [size, 3] and v["weights_shape"] == [size] and v["degree"] == degree):
                return False, (f"{v['variant']}: grid.size = {v['size']}, grid.degree = {v['degree']}, points {v['points_shape']}, weights {v['weights_shape']}; "
                               f"advertised degree {degree} with {size} points")
            if not v["finite"]:
                return False, f"{v['variant']}: non-finite point or weight"
            if v["method"] != method:
                return False, f"{v['variant']}: grid.method = {v['method']!r}"
        return True, None
    col.check(f"size:{tag}", chk_size, inputs=inp, sample={"method": method, "degree": degree, "size": size, "harmonics": (lcap + 1) ** 2})
    usable = [v for v in obs["variants"] if "fp" in v]
    if not usable:
        return

    def chk_sphere():
        v = max(usable, key=lambda q: q["norm_dev"])
        return v["norm_dev"] <= TOL_SPHERE, f"{v['variant']}: max | |p| - 1 | = {v['norm_dev']:.3e} > {TOL_SPHERE}"
    col.check(f"unit-sphere:{tag}", chk_sphere, inputs=inp)

    def chk_exact():
        for fp, ex in obs["exact"].items():
            if ex["n_bad_l"] and ex["confirmed"]:
                l0, m0 = ex["first_bad_l"], ex["first_bad_m"]
                who = [v["variant"] for v in usable if v["fp"] == fp]
                return False, (f"{method} degree {degree} ({size} points, built {'/'.join(who)}): |sum w Y_{{{l0},{m0}}} - sqrt(4pi) delta_l0| = "
                               f"{ex['first_bad_residual']:.6e} (longdouble {ex['first_bad_residual_longdouble']:.6e}) at the first failing l = {l0}; "
                               f"{ex['n_bad_l']} of {ex['lcap'] + 1} degrees l <= {ex['lcap']} fail, largest residual {ex['max_residual']:.6e} at l = {ex['worst_l']}; "
                               f"sum w / 4pi = {ex['sum_w_over_4pi']:.14f}")
        return True, None
    cid = f"exact:{tag}"
    ok = col.check(cid, chk_exact, inputs=inp)
    col.evaluations += (lcap + 1) ** 2 * len(obs["exact"]) - 1        # one postcondition per (grid, l, m)
    if not ok and (method, degree) in KNOWN and not errs:
        k = KNOWN[(method, degree)]
        bad = [ex for ex in obs["exact"].values() if ex["n_bad_l"]]
        if (len(obs["exact"]) == 1 and len(bad) == 1 and bad[0]["first_bad_l"] == k["first_l"] and next(iter(obs["exact"])) == k["sha1"]
                and is_shipped_data(method, degree, size, k["sha1"])):
            rec = col.last_failure if hasattr(col, "last_failure") else col.failures[-1]
            if rec is not None:
                rec["case_id"] = f"{cid}:{k['slug']}"


def is_shipped_data(method, degree, size, fp):
    """Signature of the recorded findings: the constructor returns exactly the content of the shipped file (no scaling for this
    method), i.e. the violation is in the data and not in the code."""
    if method != "ahrens_beylkin":
        return False
    try:
        from importlib.resources import files
        raw = np.load(files("grid.data.ahrens_beylkin").joinpath(f"ahrens_beylkin_{degree}_{size}.npz"))
        return fingerprint(raw["points"], raw["weights"]) == fp and int(raw["degree"]) == degree and int(raw["size"]) == size
    except Exception:  # noqa: BLE001
        return False


def lcap_for(tier, degree, size):
    if tier != "quick" or size <= QUICK_FULL_SIZE:
        return degree
    return min(degree, QUICK_LCAP)


def all_tasks(tier, methods=METHODS):
    tasks = []
    for method in methods:
        for degree, size in degree_table(method).items():
            tasks.append((method, int(degree), int(size), lcap_for(tier, int(degree), int(size))))
    tasks.sort(key=lambda t: -(t[2] * (t[3] + 1) * (t[3] + 2)))       # most expensive first
    return tasks


def run_tasks(fn, tasks, nproc=NPROC):
    nproc = max(1, min(nproc, os.cpu_count() or 1, len(tasks)))
    if nproc == 1:
        return [fn(t) for t in tasks]
    ctx = multiprocessing.get_context("fork")
    with ctx.Pool(nproc) as pool:
        return pool.map(fn, tasks, chunksize=1)


# ---------------------------------------------------------------------------------------------------------------------
# checks of the oracle itself (not counted as cases of the property)
# ---------------------------------------------------------------------------------------------------------------------
def oracle_vs_mpmath(col, lmax=40):
    def chk():
        import mpmath as mp
        mp.mp.dps = 30
        angs = [(0.3, 1.1), (1e-3, 2.0), (math.pi / 2, -2.5), (2.6, 4.0), (math.pi - 1e-5, 0.4), (1.0, 0.0)]
        pts = np.array([[math.sin(t) * math.cos(f), math.sin(t) * math.sin(f), math.cos(t)] for t, f in angs])
        got = harmonic_values(pts, lmax)
        worst = 0.0
        for i in range(len(pts)):
            z, s, phi = angles(pts[i:i + 1], np.float64)
            th, ph = mp.atan2(mp.mpf(float(s[0])), mp.mpf(float(z[0]))), mp.mpf(float(phi[0]))
            for l in range(lmax + 1):
                for m in range(l + 1):
                    y = mp.spherharm(l, m, th, ph)
                    ref = [(0, mp.re(y))] if m == 0 else [(m, (-1) ** m * mp.sqrt(2) * mp.re(y)), (-m, (-1) ** m * mp.sqrt(2) * mp.im(y))]
                    for mm, want in ref:
                        err = abs(float(got[i, l, lmax + mm]) - float(want))
                        worst = max(worst, err)
                        if err > 2e-13 * (1 + l):
                            return False, f"own Y_{{{l},{mm}}} at theta={angs[i][0]}, phi={angs[i][1]}: {got[i, l, lmax + mm]!r} vs mpmath {float(want)!r}"
        return True, f"max deviation {worst:.2e}"
    col.check("oracle:recursion-vs-mpmath-l40", chk, nontrivial=False)


def oracle_task(lmax):
    """Product rule exact to degree lmax (Gauss-Legendre in cos(theta) x equispaced phi) and the addition theorem."""
    nth = lmax // 2 + 1
    x, wx = np.polynomial.legendre.leggauss(nth)
    nph = lmax + 2
    ph = 2 * np.pi * (np.arange(nph) + 0.25) / nph
    st = np.sqrt(1 - x * x)
    pts = np.stack([np.outer(st, np.cos(ph)).ravel(), np.outer(st, np.sin(ph)).ravel(), np.repeat(x, nph)], axis=1)
    wts = np.repeat(wx, nph) * (2 * np.pi / nph)
    per_l, _ = residual_profile(pts, wts, lmax)
    sample = np.vstack([pts[:: max(1, len(pts) // 23)], [[0, 0, 1.0], [0, 0, -1.0], [1e-9, 0, 1.0], [0.6, -0.8, 0.0]]])
    y = harmonic_values(sample, lmax)
    add = np.sum(y * y, axis=2) * (4 * np.pi) / (2 * np.arange(lmax + 1) + 1)
    return {"lmax": lmax, "points": len(pts), "max_residual": float(per_l.max()), "worst_l": int(per_l.argmax()),
            "addition_dev": float(np.max(np.abs(add - 1.0)))}


def judge_oracle(col, o):
    def chk():
        if not o["max_residual"] <= 1e-11:
            return False, f"oracle on an exact product rule of degree {o['lmax']}: residual {o['max_residual']:.3e} at l = {o['worst_l']}"
        if not o["addition_dev"] <= 1e-10:
            return False, f"addition theorem violated by {o['addition_dev']:.3e}"
        return True, None
    col.check(f"oracle:product-rule-and-addition-theorem:l{o['lmax']}", chk, nontrivial=False,
              sample={"oracle_noise_floor": o["max_residual"], "lmax": o["lmax"], "points": o["points"]})


def worker(task):
    return oracle_task(task[1]) if task[0] == "oracle" else file_task(task)


# ---------------------------------------------------------------------------------------------------------------------
# requests that are not table keys: the constructed grid is a (verified) table entry that is at least what was asked for
# ---------------------------------------------------------------------------------------------------------------------
def inventory_contract(col):
    for method in METHODS:
        def chk(method=method):
            deg, npt = degree_table(method), npoints_table(method)
            if len(deg) != SHIPPED[method] or len(npt) != SHIPPED[method]:
                return False, f"{method}: {len(deg)} degrees / {len(npt)} sizes are constructible, {SHIPPED[method]} grids are shipped"
            if {int(v): int(k) for k, v in deg.items()} != {int(k): int(v) for k, v in npt.items()}:
                return False, f"{method}: the degree->size and size->degree tables are not inverse to each other"
            if list(deg) != sorted(deg) or list(npt) != sorted(npt):
                return False, f"{method}: table keys are not ascending (the next-largest look-up bisects them)"
            return True, None
        col.check(f"inventory:{method}", chk, sample={"method": method, "constructible_degrees": len(degree_table(method))})


def request_contract(col, g, tier, verified):
    """verified: {(method, degree): fingerprint of the grid that passed/was judged by the file contract}."""
    cap = QUICK_REQUEST_SIZE if tier == "quick" else 10 ** 9

    def build_and_compare(method, kw, want_deg, want_size, what):
        with warnings.catch_warnings():
            warnings.simplefilter("ignore")
            gr = AngularGrid(method=method, **kw)
        if int(gr.degree) != want_deg or int(gr.size) != want_size or gr.points.shape != (want_size, 3) or gr.weights.shape != (want_size,):
            return False, (f"AngularGrid({what}, method={method!r}): degree {gr.degree}, size {gr.size}, points {gr.points.shape}; "
                           f"the smallest shipped grid that is large enough has degree {want_deg}, size {want_size}")
        fp = fingerprint(gr.points, gr.weights)
        if verified.get((method, want_deg)) not in (None, fp):
            # not the grid that was verified above: it has to satisfy the contract on its own
            dev = float(np.max(np.abs(np.linalg.norm(gr.points, axis=1) - 1)))
            ex = exactness_facts(gr.points, gr.weights, lcap_for(tier, want_deg, want_size))
            if dev > TOL_SPHERE or (ex["n_bad_l"] and ex["confirmed"]):
                return False, (f"AngularGrid({what}, method={method!r}) differs from AngularGrid(degree={want_deg}) and is not exact: "
                               f"residual {ex['max_residual']:.3e} at l = {ex['worst_l']}, | |p| - 1 | <= {dev:.2e}")
        return True, None

    for method in METHODS:
        deg, npt = degree_table(method), npoints_table(method)
        dmax, nmax = max(deg), max(npt)
        for r in range(0, dmax + 3):
            fits = [k for k in deg if k >= r]
            kind = "table-key" if r in deg else ("rounded-up" if fits else "beyond-largest")

            def chk(r=r, fits=fits, method=method, deg=deg):
                try:
                    got = AngularGrid._get_degree_and_size(degree=r, size=None, method=method)
                except Exception:  # noqa: BLE001  (refusing a request is fine: the property is about grids that can be constructed)
                    got = None
                if not fits:
                    return got is None, f"degree {r} > largest shipped degree gives {got}"
                want = (min(fits), deg[min(fits)])
                if got is None or (int(got[0]), int(got[1])) != want:
                    return False, f"request degree={r}, method={method!r} is mapped to (degree, size) = {got}; smallest shipped degree >= {r} is {want}"
                if want[1] <= cap:
                    return build_and_compare(method, {"degree": r}, want[0], want[1], f"degree={r}")
                return True, None
            col.check(f"request-degree:{method}:{kind}", chk, inputs={"method": method, "degree": r})
        sizes = sorted(set([0, 1, 2, nmax, nmax + 1] + [int(n) + dn for n in npt for dn in (-1, 1)]
                           + [int(x) for x in g.integers(0, nmax + 1, 40 if tier == "quick" else 400)]
                           + [int(x) for x in g.integers(0, min(nmax, cap) + 1, 40 if tier == "quick" else 400)]))
        for s in sizes:
            fits = [k for k in npt if k >= s]
            kind = "table-key" if s in npt else ("rounded-up" if fits else "beyond-largest")

            def chk(s=s, fits=fits, method=method, npt=npt):
                try:
                    got = AngularGrid._get_degree_and_size(degree=None, size=s, method=method)
                except Exception:  # noqa: BLE001
                    got = None
                if not fits:
                    return got is None, f"size {s} > largest shipped size gives {got}"
                want = (npt[min(fits)], min(fits))
                if got is None or (int(got[0]), int(got[1])) != want:
                    return False, f"request size={s}, method={method!r} is mapped to (degree, size) = {got}; smallest shipped size >= {s} is {want}"
                if want[1] <= cap:
                    return build_and_compare(method, {"size": s}, want[0], want[1], f"size={s}")
                return True, None
            col.check(f"request-size:{method}:{kind}", chk, inputs={"method": method, "size": s})


# ---------------------------------------------------------------------------------------------------------------------
def run(tier, seed, *rest):
    col = Collector("EXHAUSTIVE over the 450 shipped (method, degree) pairs = every key of LEBEDEV/SPHERICAL/MAX_DET/AHRENS_BEYLKIN_DEGREES (32+163+199+56): the real "
                    "AngularGrid constructor (by degree, cache hit, by size, cache off, other spelling of the method) must give size == table[degree] == len(points), "
                    "| |p|-1 | <= 1e-12 and |sum w Y_lm - sqrt(4pi) delta_l0| <= 1e-10 for ALL real harmonics l <= "
                    + (f"min(degree, {QUICK_LCAP}) (l <= degree for the files with <= {QUICK_FULL_SIZE} points)" if tier == "quick" else "degree")
                    + " against an own normalised-Legendre recursion (validated against mpmath to l = 40, the addition theorem and an exact product rule to the "
                    "largest degree; violations re-evaluated in longdouble); every integer degree request 0..max+2 and shipped sizes +-1 plus random sizes map to the "
                    "smallest shipped grid that is large enough; evaluations counts one postcondition per (grid, l, m); distinct = (clause, method, degree)")
    col.exhaustive = True
    g = rng(seed, "C02")
    inventory_contract(col)
    oracle_vs_mpmath(col)
    tasks = all_tasks(tier)
    lmax_all = max([t[3] for t in tasks] + [1])
    jobs = [("oracle", lmax_all)] + tasks
    results = run_tasks(worker, jobs)
    judge_oracle(col, results[0])
    verified = {}
    for obs in sorted(results[1:], key=lambda o: (METHODS.index(o["method"]), o["degree"])):
        judge_file(col, obs)
        if len(obs["exact"]) == 1:
            verified[(obs["method"], obs["degree"])] = next(iter(obs["exact"]))
    request_contract(col, g, tier, verified)
    return col.result()


def _first_failure(col, prefer_unknown=True):
    fails = list(col.failures)
    if not fails:
        return None
    if prefer_unknown:
        for f in fails:
            if ":known-" not in f["case_id"]:
                return f
    return fails[0]


def replay(req):
    """Native replay of a refuted proof obligation (contracts/C02.py): the file contract (size, unit sphere, exactness of the grid built five
    ways) is run on the table entries the replay spec names (`degree` or `degrees`; every entry of the method otherwise)."""
    spec = req.get("spec") or {}
    model = req.get("model") or {}
    method = spec.get("method") or model.get("method")
    degree = spec.get("degree", model.get("degree"))
    degrees = None if degree is None else {int(degree)}
    if degrees is None and spec.get("degrees"):
        degrees = {int(x) for x in spec["degrees"]}
    col = Collector("replay")
    methods = [method] if method in METHODS else list(METHODS)
    tasks = [t for t in all_tasks("quick", methods) if degrees is None or t[1] in degrees]
    if degrees is not None:
        tasks = [(m, d, n, d) for m, d, n, _ in tasks]
    for obs in run_tasks(worker, tasks):
        judge_file(col, obs)
    f = _first_failure(col)
    if f:
        return {"failed": True, "case_id": f["case_id"], "detail": f["detail"], "input": f["input"]}
    return {"failed": False, "detail": f"{col.evaluations} native contract evaluations passed"}


def replay_case(case):
    cid = case.get("case_id", "")
    inp = case.get("input") or {}
    col = Collector("replay-case")
    parts = cid.split(":")
    if parts[0] in ("size", "unit-sphere", "exact") and len(parts) >= 3 and parts[1] in METHODS:
        method, degree = parts[1], int(parts[2])
        size = degree_table(method).get(degree)
        if size is None:
            return {"failed": True, "case_id": cid, "detail": f"degree {degree} is no longer a key of the {method} table", "input": inp}
        judge_file(col, file_task((method, degree, int(size), int(inp.get("lmax", degree)))))
        fails = [f for f in col.failures if f["case_id"].startswith(f"{parts[0]}:{method}:{degree}")] or col.failures
    else:
        inventory_contract(col)
        request_contract(col, rng(0, "C02"), "quick", {})
        fails = [f for f in col.failures if f["case_id"].split(":")[:2] == parts[:2]] or col.failures
    if fails:
        f = fails[0]
        return {"failed": True, "case_id": f["case_id"], "detail": f["detail"], "input": f["input"]}
    return {"failed": False}
