"""Bounded run-time contracts for C08 (real spherical harmonics, derivatives, solid harmonics, coordinate conversion).

Oracle (independent of the recursions and of SciPy): the real spherical harmonic written out from the textbook closed forms

    P_l(x)      = 2^-l sum_k (-1)^k C(l,k) C(2l-2k,l) x^(l-2k)                (exact integer coefficients)
    Y_{l,+-m}   = sqrt((2l+1)/(4 pi) (l-m)!/(l+m)!) * sqrt2 * {cos,sin}(m theta) * sin(phi)^m * d^m P_l/dx^m (cos phi)

evaluated with mpmath at (50 + 2.5 l_max) digits for the *given* floating-point angles, together with its exact partial
derivatives (own differentiation of the closed form, not the raising-operator form of the library).  The function of the
angles is the real-analytic one, i.e. the harmonic polynomial evaluated at the point of the unit sphere that the
parametrisation (sin phi cos theta, sin phi sin theta, cos phi) denotes; on 0 <= phi <= pi it coincides with the
documented P_l^m(cos phi).  The oracle is cross-checked in every run against mpmath.spherharm and mpmath.diff.
"""
import math

import mpmath as mp
import numpy as np

from grid import utils as U
from rtc.common import Collector, rng

PI = math.pi
IMPLS = {"recursion": U.generate_real_spherical_harmonics, "scipy": U.generate_real_spherical_harmonics_scipy}


# ----------------------------------------------------------------------------------------------------------------------
# oracle
# ----------------------------------------------------------------------------------------------------------------------
def horton_order(l_max):
    """(l, m) of every row: for each l the orders 0, 1, -1, 2, -2, ..., l, -l (the documented order)."""
    return [(l, m) for l in range(l_max + 1) for m in [0] + [s * a for a in range(1, l + 1) for s in (1, -1)]]


_COEF = {}


def _coef(l, m):
    """Integer coefficients (highest power first, step x^-2) of 2^l d^m/dx^m P_l(x)."""
    key = (l, m)
    if key not in _COEF:
        out = []
        for k in range((l - m) // 2 + 1):
            n = l - 2 * k
            c = (-1) ** k * math.comb(l, k) * math.comb(2 * l - 2 * k, l)
            for j in range(m):
                c *= n - j
            out.append(c)
        _COEF[key] = out
    return _COEF[key]


def _dleg(l, m, x, x2):
    """d^m P_l / dx^m at x (mpf)."""
    if m > l:
        return mp.mpf(0)
    acc = mp.mpf(0)
    for c in _coef(l, m):
        acc = acc * x2 + c
    if (l - m) % 2:
        acc = acc * x
    return mp.ldexp(acc, -l)


_NORM = {}


def _norm(l, m):
    key = (l, m, mp.mp.dps)
    if key not in _NORM:
        _NORM[key] = mp.sqrt(mp.mpf(2 * l + 1) / (4 * mp.pi) * mp.factorial(l - m) / mp.factorial(l + m))
    return _NORM[key]


_TABLES = {}


def oracle(l_max, theta, phi):
    """dict of float arrays ((l_max+1)^2, n): Y, dth, dph (analytic function of the angles) and the two *recorded wrong*
    variants Yabs (|sin phi|^m instead of sin(phi)^m) and dph_known (raising term with |sin phi|^(m+1))."""
    theta = np.asarray(theta, dtype=float)
    phi = np.asarray(phi, dtype=float)
    key = (l_max, theta.tobytes(), phi.tobytes())
    if key in _TABLES:
        return _TABLES[key]
    old = mp.mp.dps
    mp.mp.dps = int(50 + 2.5 * l_max)
    try:
        n = len(theta)
        rows = (l_max + 1) ** 2
        out = {k: np.zeros((rows, n)) for k in ("Y", "Yabs", "dth", "dph", "dph_known")}
        r2 = mp.sqrt(2)
        for ip in range(n):
            t, p = mp.mpf(float(theta[ip])), mp.mpf(float(phi[ip]))
            x, s = mp.cos(p), mp.sin(p)
            x2 = x * x
            sa = abs(s)
            spow = [mp.mpf(1)]
            sapow = [mp.mpf(1)]
            for _ in range(l_max + 2):
                spow.append(spow[-1] * s)
                sapow.append(sapow[-1] * sa)
            cm = [mp.cos(m * t) for m in range(l_max + 1)]
            sm = [mp.sin(m * t) for m in range(l_max + 1)]
            for l in range(l_max + 1):
                q_next = _dleg(l, 0, x, x2)
                for m in range(l + 1):
                    q, q_next = q_next, _dleg(l, m + 1, x, x2)
                    nrm = _norm(l, m)
                    rad = nrm * spow[m] * q
                    rad_abs = nrm * sapow[m] * q
                    first = m * spow[m - 1] * x * q if m else mp.mpf(0)
                    drad = nrm * (first - spow[m + 1] * q_next)
                    drad_known = nrm * (first - sapow[m + 1] * q_next)
                    if m == 0:
                        i = l * l
                        out["Y"][i, ip] = rad
                        out["Yabs"][i, ip] = rad_abs
                        out["dph"][i, ip] = drad
                        out["dph_known"][i, ip] = drad_known
                    else:
                        ic, isn = l * l + 2 * m - 1, l * l + 2 * m
                        c, sn = r2 * cm[m], r2 * sm[m]
                        out["Y"][ic, ip], out["Y"][isn, ip] = c * rad, sn * rad
                        out["Yabs"][ic, ip], out["Yabs"][isn, ip] = c * rad_abs, sn * rad_abs
                        out["dth"][ic, ip], out["dth"][isn, ip] = -m * sn * rad, m * c * rad
                        out["dph"][ic, ip], out["dph"][isn, ip] = c * drad, sn * drad
                        out["dph_known"][ic, ip], out["dph_known"][isn, ip] = c * drad_known, sn * drad_known
    finally:
        mp.mp.dps = old
    if len(_TABLES) > 400:
        _TABLES.clear()
    _TABLES[key] = out
    return out


def legendre_mp(l, x):
    return _dleg(l, 0, x, x * x)


def unit_mp(t, p):
    t, p = mp.mpf(float(t)), mp.mpf(float(p))
    return (mp.sin(p) * mp.cos(t), mp.sin(p) * mp.sin(t), mp.cos(p))


def unit_np(t, p):
    return np.array([np.sin(p) * np.cos(t), np.sin(p) * np.sin(t), np.cos(p)])


def fold_polar(p):
    """The angle in [0, pi] with the same cosine (what an implementation working with |sin phi| effectively uses)."""
    return float(np.arccos(np.clip(np.cos(p), -1, 1)))


def oracle_selfcheck(col):
    """The oracle against two implementations that share nothing with it (mpmath.spherharm, numerical differentiation)."""
    def chk():
        old = mp.mp.dps
        mp.mp.dps = 40
        try:
            th = np.array([0.7, -2.2, 4.0])
            ph = np.array([1.9, 0.4, 2.8])
            lm = 7
            tab = oracle(lm, th, ph)
            for row, (l, m) in enumerate(horton_order(lm)):
                for ip in range(3):
                    am = abs(m)
                    z = mp.spherharm(l, am, mp.mpf(float(ph[ip])), mp.mpf(float(th[ip])))
                    if m == 0:
                        want = mp.re(z)
                    else:
                        want = mp.sqrt(2) * (-1) ** am * (mp.re(z) if m > 0 else mp.im(z))
                    if abs(want - tab["Y"][row, ip]) > 1e-13:
                        return False, f"oracle self-check: Y({l},{m}) = {tab['Y'][row, ip]} but mpmath.spherharm gives {want}"
            for (l, m) in [(3, 2), (5, -1), (4, 0), (6, -6), (7, 3), (1, 1), (2, -1)]:
                row = l * l + (0 if m == 0 else 2 * abs(m) - (1 if m > 0 else 0))

                def val(t, p, l=l, m=m):
                    am = abs(m)
                    z = mp.spherharm(l, am, p, t)
                    return mp.re(z) if m == 0 else mp.sqrt(2) * (-1) ** am * (mp.re(z) if m > 0 else mp.im(z))
                for ip in range(3):
                    t, p = mp.mpf(float(th[ip])), mp.mpf(float(ph[ip]))
                    d_t = mp.diff(lambda tt: val(tt, p), t)
                    d_p = mp.diff(lambda pp: val(t, pp), p)
                    if abs(d_t - tab["dth"][row, ip]) > 1e-11 or abs(d_p - tab["dph"][row, ip]) > 1e-11:
                        return False, f"oracle self-check: derivative of Y({l},{m}) {tab['dth'][row, ip]}, {tab['dph'][row, ip]} vs numerical {d_t}, {d_p}"
        finally:
            mp.mp.dps = old
        return True, None
    col.check("oracle:selfcheck", chk, nontrivial=False)


# ----------------------------------------------------------------------------------------------------------------------
# angle families
# ----------------------------------------------------------------------------------------------------------------------
def angle_classes(g, tier):
    k = 6 if tier == "quick" else 12
    cls = {}
    cls["generic"] = (g.uniform(0, 2 * PI, k), g.uniform(0.05, PI - 0.05, k))
    cls["poles"] = (np.array([0.0, 1.3, -2.0, 0.4]), np.array([0.0, PI, 0.0, PI]))
    cls["near-pole"] = (np.array([0.3, 2.0, 5.1, -0.8, 1.0]), np.array([1e-7, 1e-3, PI - 1e-3, PI - 1e-6, 0.02]))
    cls["equator"] = (np.array([0.0, PI / 2, PI, 1.5 * PI, 0.7]), np.full(5, PI / 2))
    cls["theta-outside"] = (np.concatenate([[-1.0, -9.3, 7.5, 2 * PI, 100.0, -PI, -PI / 2], g.uniform(-30, 30, k // 2)]),
                            np.concatenate([[0.6, 2.2, 1.0, 1.3, 2.9, 0.9, 1.7], g.uniform(0.1, 3.0, k // 2)]))
    # polar angle outside [0, pi] with positive sine
    cls["phi-beyond-2pi"] = (np.array([1.0, -0.5, 3.3, 6.0]), np.array([2 * PI + 0.3, 2 * PI + 2.0, 4 * PI + 1.0, -2 * PI + 1.2]))
    # multiples of pi other than 0 and pi: poles again
    cls["pole-multiples"] = (np.array([1.0, 2.0, -0.3]), np.array([-PI, 2 * PI, 3 * PI]))
    # polar angle with negative sine
    cls["phi-negative-sine"] = (np.concatenate([[1.0, 0.0, -2.5, 4.0], g.uniform(0, 2 * PI, 2)]),
                                np.concatenate([[-0.7, PI + 0.5, -2.9, 2 * PI - 0.4], -g.uniform(0.2, 2.9, 2)]))
    return cls


POLAR = ("poles", "pole-multiples")


def tol_val(l_max, theta):
    return 5e-12 + 4e-15 * l_max * float(np.max(np.abs(theta), initial=0.0))


def first_bad(got, want, tol, l_max):
    err = np.abs(np.asarray(got, dtype=float) - want)
    if not np.all(np.isfinite(np.asarray(got, dtype=float))):
        err = np.where(np.isfinite(np.asarray(got, dtype=float)), err, np.inf)
    if err.size == 0 or float(err.max()) <= tol:
        return None
    row, ip = np.unravel_index(int(np.argmax(err)), err.shape)
    return int(row), int(ip), float(err[row, ip])


def lm_of_row(row):
    l = int(math.isqrt(row))
    k = row - l * l
    m = 0 if k == 0 else ((k + 1) // 2 if k % 2 else -(k // 2))
    return l, m


def _inp(fn, l_max, cls, th, ph, **kw):
    d = {"fn": fn, "l_max": int(l_max), "class": cls, "theta": [float(v) for v in th], "phi": [float(v) for v in ph]}
    d.update(kw)
    return d


# ----------------------------------------------------------------------------------------------------------------------
# contracts: values
# ----------------------------------------------------------------------------------------------------------------------
def values_contract(col, impl, l_max, cls, th, ph, per_degree):
    fn = IMPLS[impl]
    th = np.array(th, dtype=float)
    ph = np.array(ph, dtype=float)
    keep = (th.copy(), ph.copy())
    rows = (l_max + 1) ** 2
    inp = _inp(fn.__name__, l_max, cls, th, ph)
    state = {}

    def call():
        if "out" not in state:
            state["out"] = fn(l_max, th, ph)
        return state["out"]

    def shape():
        out = call()
        if np.shape(out) != (rows, len(th)):
            return False, f"l_max={l_max}, {len(th)} points: shape {np.shape(out)}, expected {(rows, len(th))}"
        if not (np.array_equal(th, keep[0]) and np.array_equal(ph, keep[1])):
            return False, "the angle arrays were modified"
        if np.iscomplexobj(out):
            return False, "complex output"
        return True, None
    if not col.check(f"Y:{impl}:{cls}:shape:lmax={l_max}", shape, inputs=inp, nontrivial=False):
        return
    out = np.asarray(call(), dtype=float)
    tab = oracle(l_max, th, ph)
    tol = tol_val(l_max, th)

    def compare(lo, hi):
        def chk():
            bad = first_bad(out[lo:hi], tab["Y"][lo:hi], tol, l_max)
            if bad is None:
                return True, None
            row, ip, err = bad
            l, m = lm_of_row(lo + row)
            return False, (f"row {lo + row} (documented order: l={l}, m={m}) at theta={float(th[ip])!r}, phi={float(ph[ip])!r}: "
                           f"{out[lo + row, ip]:.15g}, definition gives {tab['Y'][lo + row, ip]:.15g} (|diff| {err:.3g} > {tol:.3g})")
        return chk
    sample = {"fn": fn.__name__, "l_max": l_max, "class": cls, "points": len(th)}
    if per_degree:
        for l in range(l_max + 1):
            col.check(f"Y:{impl}:{cls}:l={l}", compare(l * l, (l + 1) ** 2), inputs=inp, sample=sample)
    else:
        cid = f"Y:{impl}:{cls}:lmax={l_max}"
        ok = col.check(cid, compare(0, rows), inputs=inp, sample=sample)
        if not ok and impl == "scipy" and np.any(np.sin(ph) < 0):
            # recorded finding (SciPy-based variant only): |sin phi|^m is used where the polar angle has a negative sine (odd orders change sign)
            if out.shape == tab["Yabs"].shape and first_bad(out, tab["Yabs"], tol, l_max) is None:
                col.failures[-1]["case_id"] = cid + ":known-abs-sine-for-polar-angle-with-negative-sine"


def agree_contract(col, l_max, cls, th, ph):
    th = np.array(th, dtype=float)
    ph = np.array(ph, dtype=float)
    inp = _inp("both", l_max, cls, th, ph)
    tol = tol_val(l_max, th) * (1 + l_max / 20.0)
    state = {}

    def chk():
        a = np.asarray(U.generate_real_spherical_harmonics(l_max, th, ph), dtype=float)
        b = np.asarray(U.generate_real_spherical_harmonics_scipy(l_max, th, ph), dtype=float)
        state["a"], state["b"] = a, b
        if a.shape != b.shape:
            return False, f"shapes {a.shape} and {b.shape}"
        bad = first_bad(a, b, tol, l_max)
        if bad is None:
            return True, None
        row, ip, err = bad
        l, m = lm_of_row(row)
        return False, (f"row {row} (l={l}, m={m}) at theta={float(th[ip])!r}, phi={float(ph[ip])!r}: recursion {a[row, ip]:.15g}, "
                       f"SciPy-based {b[row, ip]:.15g}")
    cid = f"agree:{cls}:lmax={l_max}"
    ok = col.check(cid, chk, inputs=inp, sample={"l_max": l_max, "class": cls, "points": len(th)})
    if not ok and "a" in state and state["a"].shape == state["b"].shape and np.any(np.sin(ph) < 0):
        # recorded finding: the two differ exactly by sign(sin phi)^m
        sgn = np.sign(np.sin(ph))
        mm = np.array([abs(m) for _, m in horton_order(l_max)])
        flip = np.where((mm[:, None] % 2 == 1) & (sgn[None, :] < 0), -1.0, 1.0)
        if first_bad(state["a"], state["b"] * flip, tol, l_max) is None:
            col.failures[-1]["case_id"] = cid + ":known-abs-sine-for-polar-angle-with-negative-sine"


def addition_contract(col, impl, l_max, cls, th, ph, per_degree):
    """sum_m Y_lm(a) Y_lm(b) = (2l+1)/(4 pi) P_l(cos gamma) for consecutive pairs of directions (and a = b)."""
    fn = IMPLS[impl]
    th = np.array(th, dtype=float)
    ph = np.array(ph, dtype=float)
    n = len(th)
    pairs = [(i, (i + 1) % n) for i in range(n)] + [(0, 0), (n - 1, n // 2)]
    inp = _inp(fn.__name__, l_max, cls, th, ph)
    old = mp.mp.dps
    mp.mp.dps = int(30 + 1.2 * l_max)
    try:
        def cosg(pa, pb):
            cg = []
            for i, j in pairs:
                ua, ub = unit_mp(th[i], pa[i]), unit_mp(th[j], pb[j])
                cg.append(ua[0] * ub[0] + ua[1] * ub[1] + ua[2] * ub[2])
            return cg
        cg = cosg(ph, ph)
        want = np.array([[float((2 * l + 1) / (4 * mp.pi) * legendre_mp(l, c)) for c in cg] for l in range(l_max + 1)])
        phf = np.array([fold_polar(p) for p in ph])
        neg = bool(np.any(np.sin(ph) < 0))
        if neg:
            cgf = cosg(phf, phf)
            want_folded = np.array([[float((2 * l + 1) / (4 * mp.pi) * legendre_mp(l, c)) for c in cgf] for l in range(l_max + 1)])
    finally:
        mp.mp.dps = old
    state = {}

    def sums():
        if "s" not in state:
            y = np.asarray(fn(l_max, th, ph), dtype=np.longdouble)
            state["s"] = np.array([[float(np.sum(y[l * l:(l + 1) ** 2, i] * y[l * l:(l + 1) ** 2, j])) for i, j in pairs] for l in range(l_max + 1)])
        return state["s"]

    def compare(lo, hi):
        def chk():
            s = sums()
            for l in range(lo, hi):
                tol = 1e-11 * (2 * l + 1) * (1 + tol_val(l_max, th) / 5e-12)
                err = np.abs(s[l] - want[l])
                if not np.all(err <= tol):
                    k = int(np.argmax(np.where(np.isfinite(err), err, np.inf)))
                    i, j = pairs[k]
                    return False, (f"l={l}: sum_m Y_lm(a) Y_lm(b) = {s[l, k]:.15g} for a=(theta {float(th[i])!r}, phi {float(ph[i])!r}), "
                                   f"b=({float(th[j])!r}, {float(ph[j])!r}); (2l+1)/(4 pi) P_l(cos gamma) = {want[l, k]:.15g}")
            return True, None
        return chk
    sample = {"fn": fn.__name__, "l_max": l_max, "class": cls, "pairs": len(pairs)}
    if per_degree:
        for l in range(l_max + 1):
            col.check(f"addition:{impl}:{cls}:l={l}", compare(l, l + 1), inputs=inp, sample=sample)
    else:
        cid = f"addition:{impl}:{cls}:lmax={l_max}"
        ok = col.check(cid, compare(0, l_max + 1), inputs=inp, sample=sample)
        if not ok and neg and "s" in state:
            s = state["s"]
            if all(np.all(np.abs(s[l] - want_folded[l]) <= 1e-11 * (2 * l + 1) * (1 + tol_val(l_max, th) / 5e-12)) for l in range(l_max + 1)):
                col.failures[-1]["case_id"] = cid + ":known-abs-sine-for-polar-angle-with-negative-sine"


def high_degree_contract(col, g, l_max, npts):
    """No multiprecision table here: agreement of the two implementations and the addition theorem up to a high degree."""
    th = np.concatenate([[0.0, 5.0, -3.0], g.uniform(-7, 7, npts)])
    ph = np.concatenate([[1e-3, PI / 2, 3.0], g.uniform(0.05, PI - 0.05, npts)])
    agree_contract(col, l_max, "high-degree", th, ph)
    for impl in IMPLS:
        addition_contract(col, impl, l_max, "high-degree", th, ph, per_degree=False)


def validation_contract(col):
    def chk():
        f = U.generate_real_spherical_harmonics_scipy
        for bad in (lambda: f(-1, np.array([0.1]), np.array([0.2])),
                    lambda: f(2, np.array([0.1, 0.2]), np.array([0.2])),
                    lambda: f(2, np.array([[0.1]]), np.array([[0.2]]))):
            try:
                bad()
                return False, "invalid arguments (negative l_max / different lengths / 2-D angles) accepted"
            except ValueError:
                pass
        return True, None
    col.check("Y:scipy:validation", chk)

    def empty():
        for name, fn in IMPLS.items():
            out = fn(3, np.zeros(0), np.zeros(0))
            if np.shape(out) != (16, 0):
                return False, f"{name}: no points give shape {np.shape(out)}"
        return True, None
    col.check("Y:no-points", empty)


# ----------------------------------------------------------------------------------------------------------------------
# contracts: derivatives
# ----------------------------------------------------------------------------------------------------------------------
def derivative_contract(col, l_max, cls, th, ph, per_degree):
    th = np.array(th, dtype=float)
    ph = np.array(ph, dtype=float)
    keep = (th.copy(), ph.copy())
    rows = (l_max + 1) ** 2
    inp = _inp("generate_derivative_real_spherical_harmonics", l_max, cls, th, ph)
    state = {}

    def shape():
        state["out"] = U.generate_derivative_real_spherical_harmonics(l_max, th, ph)
        if np.shape(state["out"]) != (2, rows, len(th)):
            return False, f"shape {np.shape(state['out'])}, expected {(2, rows, len(th))}"
        if not (np.array_equal(th, keep[0]) and np.array_equal(ph, keep[1])):
            return False, "the angle arrays were modified"
        return True, None
    if not col.check(f"derivative:{cls}:shape:lmax={l_max}", shape, inputs=inp, nontrivial=False):
        return
    out = np.asarray(state["out"], dtype=float)
    tab = oracle(l_max, th, ph)
    polar = cls in POLAR
    want = {"dtheta": tab["dth"], "dphi": np.zeros_like(tab["dph"]) if polar else tab["dph"]}
    comp = {"dtheta": out[0], "dphi": out[1]}
    what = {"dtheta": "d/dtheta", "dphi": "d/dphi"}
    sample = {"fn": "derivative", "l_max": l_max, "class": cls, "points": len(th)}

    def compare(which, lo, hi):
        def chk():
            l_hi = int(math.isqrt(hi - 1))
            tol = 5e-11 * (l_hi + 1) ** 1.5 * (1 + tol_val(l_max, th) / 5e-12)
            bad = first_bad(comp[which][lo:hi], want[which][lo:hi], tol, l_max)
            if bad is None:
                return True, None
            row, ip, err = bad
            l, m = lm_of_row(lo + row)
            ref = "0 (documented convention at a pole)" if (polar and which == "dphi") else f"{want[which][lo + row, ip]:.15g}"
            return False, (f"{what[which]} of Y(l={l}, m={m}) (row {lo + row}) at theta={float(th[ip])!r}, phi={float(ph[ip])!r}: "
                           f"{comp[which][lo + row, ip]:.15g}, true partial derivative {ref}")
        return chk
    tag = {"dtheta": cls, "dphi": ("pole-convention:" + cls) if polar else cls}
    for which in ("dtheta", "dphi"):
        if per_degree:
            for l in range(l_max + 1):
                col.check(f"{which}:{tag[which]}:l={l}", compare(which, l * l, (l + 1) ** 2), inputs=inp, sample=sample)
        else:
            cid = f"{which}:{tag[which]}:lmax={l_max}"
            ok = col.check(cid, compare(which, 0, rows), inputs=inp, sample=sample)
            if not ok and which == "dphi" and np.any(np.sin(ph) < 0):
                # recorded finding: the raising-operator term is evaluated with |sin phi|^(m+1)
                tol = 5e-11 * (l_max + 1) ** 1.5 * (1 + tol_val(l_max, th) / 5e-12)
                if first_bad(out[1], tab["dph_known"], tol, l_max) is None:
                    col.failures[-1]["case_id"] = cid + ":known-abs-sine-for-polar-angle-with-negative-sine"


# ----------------------------------------------------------------------------------------------------------------------
# contracts: solid harmonics
# ----------------------------------------------------------------------------------------------------------------------
def solid_contract(col, l_max, cls, r, th, ph):
    r = np.array(r, dtype=float)
    th = np.array(th, dtype=float)
    ph = np.array(ph, dtype=float)
    sph = np.stack([r, th, ph], axis=1)
    keep = sph.copy()
    inp = _inp("solid_harmonics", l_max, cls, th, ph, r=[float(v) for v in r])
    state = {}

    def shape():
        state["out"] = U.solid_harmonics(l_max, sph)
        if np.shape(state["out"]) != ((l_max + 1) ** 2, len(r)):
            return False, f"shape {np.shape(state['out'])}"
        if not np.array_equal(sph, keep):
            return False, "the input points were modified"
        return True, None
    if not col.check(f"solid:{cls}:shape:lmax={l_max}", shape, inputs=inp, nontrivial=False):
        return
    out = np.asarray(state["out"], dtype=float)
    tab = oracle(l_max, th, ph)

    def compare(l):
        def chk():
            lo, hi = l * l, (l + 1) ** 2
            scale = np.array([mp.mpf(float(ri)) ** l * mp.sqrt(4 * mp.pi / (2 * l + 1)) for ri in r], dtype=float)
            want = tab["Y"][lo:hi] * scale[None, :]
            tol = tol_val(l_max, th) * np.maximum(1.0, np.abs(scale))[None, :]
            err = np.abs(out[lo:hi] - want)
            err = np.where(np.isfinite(out[lo:hi]), err, np.inf)
            if np.all(err <= tol):
                return True, None
            row, ip = np.unravel_index(int(np.argmax(err / tol)), err.shape)
            _, m = lm_of_row(lo + row)
            return False, (f"R(l={l}, m={m}) at r={float(r[ip])!r}, theta={float(th[ip])!r}, phi={float(ph[ip])!r}: {out[lo + row, ip]:.15g}, "
                           f"sqrt(4 pi/(2l+1)) r^l Y_lm = {want[row, ip]:.15g}")
        return chk
    for l in range(l_max + 1):
        col.check(f"solid:{cls}:l={l}", compare(l), inputs=inp, sample={"fn": "solid_harmonics", "l_max": l_max, "class": cls})


def cartesian_polynomials(p):
    """Regular solid harmonics up to l = 3 as polynomials (Horton-2 order), written from the tables of real solid harmonics."""
    x, y, z = p.T
    r2 = x * x + y * y + z * z
    s3, s5, s6, s10, s15 = (math.sqrt(v) for v in (3.0, 5.0, 6.0, 10.0, 15.0))
    return np.array([
        np.ones_like(x),
        z, x, y,
        (3 * z * z - r2) / 2, s3 * x * z, s3 * y * z, s3 / 2 * (x * x - y * y), s3 * x * y,
        z * (5 * z * z - 3 * r2) / 2, s6 / 4 * x * (5 * z * z - r2), s6 / 4 * y * (5 * z * z - r2),
        s15 / 2 * z * (x * x - y * y), s15 * x * y * z, s10 / 4 * x * (x * x - 3 * y * y), s10 / 4 * y * (3 * x * x - y * y)])


def cartesian_gradients(p):
    """Gradients of the l <= 2 polynomials above: array (9, n, 3)."""
    x, y, z = p.T
    o, s3 = np.zeros_like(x), math.sqrt(3.0)
    rows = [(o, o, o), (o, o, o + 1), (o + 1, o, o), (o, o + 1, o),
            (-x, -y, 2 * z), (s3 * z, o, s3 * x), (o, s3 * z, s3 * y), (s3 * x, -s3 * y, o), (s3 * y, s3 * x, o)]
    return np.array([np.stack(r, axis=1) for r in rows])


def solid_cartesian_contract(col, g, k):
    n = 7
    centre = g.normal(size=3) * (k % 3)          # k % 3 == 0: centre at the origin
    pts = centre + g.normal(size=(n, 3)) * 10.0 ** g.uniform(-1, 0.7)
    pts[0] = centre                              # the centre itself (r = 0)
    pts[1] = centre + [0.0, 0.0, 1.7]            # on the +z axis
    pts[2] = centre + [0.0, 0.0, -0.6]           # on the -z axis
    pts[3] = centre + [-1.1, 0.0, 0.0]           # on the -x axis (theta = pi)
    inp = {"fn": "solid_harmonics(convert_cart_to_sph)", "points": pts.tolist(), "center": centre.tolist()}

    def chk():
        sph = U.convert_cart_to_sph(pts, centre)
        got = np.asarray(U.solid_harmonics(3, sph), dtype=float)
        want = cartesian_polynomials(pts - centre)
        scale = np.maximum(1.0, np.linalg.norm(pts - centre, axis=1)) ** 3
        err = np.abs(got - want) / scale[None, :]
        if got.shape != want.shape or not np.all(err <= 1e-12):
            row, ip = np.unravel_index(int(np.argmax(np.where(np.isfinite(err), err, np.inf))), err.shape)
            l, m = lm_of_row(int(row))
            return False, (f"R(l={l}, m={m}) at point {(pts - centre)[ip].tolist()} relative to the centre: {got[row, ip]:.15g}, "
                           f"the harmonic polynomial gives {want[row, ip]:.15g}")
        return True, None
    col.check(f"solid:cartesian-polynomials:{'origin-centre' if k % 3 == 0 else 'shifted-centre'}", chk, inputs=inp,
              sample={"fn": "solid_harmonics", "points": n, "centre": centre.tolist()})


# ----------------------------------------------------------------------------------------------------------------------
# contracts: coordinate conversion
# ----------------------------------------------------------------------------------------------------------------------
def cart_to_sph_check(pts, centre, expect_centre_rows=()):
    keep = pts.copy()
    sph = U.convert_cart_to_sph(pts, centre)
    c = np.zeros(3) if centre is None else np.asarray(centre, dtype=float)
    if np.shape(sph) != (len(pts), 3):
        return False, f"shape {np.shape(sph)}"
    if not np.array_equal(pts, keep):
        return False, "the input points were modified"
    if not np.all(np.isfinite(sph)):
        k = int(np.argmax(~np.isfinite(sph).all(axis=1)))
        return False, f"non-finite spherical coordinates {sph[k]} for point {pts[k].tolist()}, centre {c.tolist()}"
    r, t, p = sph.T
    if np.any(r < 0) or np.any(t < -PI) or np.any(t > PI) or np.any(p < 0) or np.any(p > PI):
        return False, "coordinates outside r >= 0, -pi <= theta <= pi, 0 <= phi <= pi"
    back = c + (r * np.array([np.sin(p) * np.cos(t), np.sin(p) * np.sin(t), np.cos(p)])).T
    scale = 1.0 + np.linalg.norm(pts - c, axis=1) + np.linalg.norm(c)
    err = np.linalg.norm(back - pts, axis=1) / scale
    # noise: the polar angle is documented as arccos(z/r), whose rounding error is eps/sin(phi) (at most sqrt(eps)) near the axis
    rel = pts - c
    sin_true = np.hypot(rel[:, 0], rel[:, 1]) / np.where(r > 0, r, 1.0)
    tol = 1e-14 + 4e-16 / np.maximum(sin_true, 1.5e-8)
    if not np.all(err <= tol):
        k = int(np.argmax(err / tol))
        return False, (f"point {pts[k].tolist()}, centre {c.tolist()}: (r, theta, phi) = {sph[k].tolist()} maps back to "
                       f"{back[k].tolist()}")
    want_r = np.array([float(mp.sqrt(sum(mp.mpf(float(a)) ** 2 for a in (q - c)))) for q in pts])
    if not np.allclose(r, want_r, rtol=1e-14, atol=1e-300):
        return False, "r is not the distance to the centre"
    for k in expect_centre_rows:
        if not (r[k] == 0.0 and p[k] == 0.0):
            return False, f"the centre itself gives (r, theta, phi) = {sph[k].tolist()}, documented convention is r = 0, phi = 0"
    return True, None


def cart_to_sph_contract(col, g, k):
    n = 8
    c = g.normal(size=3) * 3
    pts = c + g.normal(size=(n, 3)) * 10.0 ** g.uniform(-2, 2)
    pts[0] = c
    col.check("convert_cart_to_sph:generic-centre", lambda: cart_to_sph_check(pts, c, (0,)),
              inputs={"fn": "convert_cart_to_sph", "points": pts.tolist(), "center": c.tolist()}, sample={"fn": "convert_cart_to_sph", "n": n})
    col.check("convert_cart_to_sph:centre-as-list", lambda: cart_to_sph_check(pts, [float(v) for v in c], (0,)),
              inputs={"fn": "convert_cart_to_sph", "points": pts.tolist(), "center": c.tolist(), "as_list": True})
    p0 = g.normal(size=(n, 3))
    p0[0] = 0.0
    col.check("convert_cart_to_sph:no-centre", lambda: cart_to_sph_check(p0, None, (0,)),
              inputs={"fn": "convert_cart_to_sph", "points": p0.tolist(), "center": None})
    a = float(g.uniform(0.3, 4))
    axes = np.array([[a, 0, 0], [-a, 0, 0], [0, a, 0], [0, -a, 0], [0, 0, a], [0, 0, -a], [-a, -0.0, 0.0], [-0.0, -0.0, -a],
                     [0.0, 0.0, 0.0], [-0.0, -0.0, -0.0], [a, a, 0], [-a, a, 0], [-a, -a, -a]])
    col.check("convert_cart_to_sph:axes-and-signed-zeros", lambda: cart_to_sph_check(axes, None, (8, 9)),
              inputs={"fn": "convert_cart_to_sph", "points": axes.tolist(), "center": None})
    eps = 10.0 ** g.uniform(-17, -6, size=n)
    near = np.stack([eps * g.choice([-1, 1], n), eps * g.normal(size=n), g.choice([-1.0, 1.0], n) * g.uniform(0.1, 5, n)], axis=1)
    cn = c if k % 2 else np.zeros(3)
    col.check("convert_cart_to_sph:near-polar-axis", lambda: cart_to_sph_check(near + cn, cn),
              inputs={"fn": "convert_cart_to_sph", "points": (near + cn).tolist(), "center": cn.tolist()})

    def single():
        return cart_to_sph_check(c[None, :].copy(), c, (0,))
    col.check("convert_cart_to_sph:single-point-at-centre", single, inputs={"fn": "convert_cart_to_sph", "points": [c.tolist()], "center": c.tolist()})

    def validation():
        for bad in (lambda: U.convert_cart_to_sph(np.zeros(3)), lambda: U.convert_cart_to_sph(np.zeros((4, 2))),
                    lambda: U.convert_cart_to_sph(np.zeros((4, 3)), np.zeros(2)), lambda: U.convert_cart_to_sph(np.zeros((2, 2, 3)))):
            try:
                bad()
                return False, "points/centre of a wrong shape accepted"
            except ValueError:
                pass
        return True, None
    col.check("convert_cart_to_sph:validation", validation)

    def roundtrip():
        # spherical -> cartesian -> spherical for principal-range angles
        r = g.uniform(0.1, 5, n)
        t = g.uniform(-PI, PI, n)
        p = g.uniform(0.01, PI - 0.01, n)
        q = c + (r * np.array([np.sin(p) * np.cos(t), np.sin(p) * np.sin(t), np.cos(p)])).T
        sph = U.convert_cart_to_sph(q, c)
        if not np.allclose(sph, np.stack([r, t, p], axis=1), rtol=0, atol=1e-11):
            return False, "principal-range (r, theta, phi) are not recovered from the parametrised point"
        return True, None
    col.check("convert_cart_to_sph:recovers-principal-angles", roundtrip)


def forward_jacobian(r, t, p):
    """D(x,y,z)/D(r,theta,phi) of x = r sin(phi) cos(theta), y = r sin(phi) sin(theta), z = r cos(phi)."""
    return np.array([[np.sin(p) * np.cos(t), -r * np.sin(p) * np.sin(t), r * np.cos(p) * np.cos(t)],
                     [np.sin(p) * np.sin(t), r * np.sin(p) * np.cos(t), r * np.cos(p) * np.sin(t)],
                     [np.cos(p), 0.0, -r * np.sin(p)]])


def jacobian_contract(col, g, k):
    def generic(ranges, name):
        def chk():
            for _ in range(12):
                r = float(10.0 ** g.uniform(-2, 1.5))
                t = float(g.uniform(*ranges[0]))
                p = float(g.uniform(*ranges[1]))
                grad = g.normal(size=3)
                d_sph = forward_jacobian(r, t, p).T @ grad          # chain rule: df/dq_j = sum_i df/dx_i dx_i/dq_j
                got = np.asarray(U.convert_derivative_from_spherical_to_cartesian(d_sph[0], d_sph[1], d_sph[2], r, t, p), dtype=float)
                tol = 1e-12 * (1 + 1 / abs(np.sin(p))) * (1 + np.linalg.norm(grad))
                if got.shape != (3,) or not np.all(np.abs(got - grad) <= tol):
                    return False, (f"r={r!r}, theta={t!r}, phi={p!r}: spherical derivatives {d_sph.tolist()} of a function with "
                                   f"Cartesian gradient {grad.tolist()} are converted to {got.tolist()}")
            return True, None
        col.check(f"convert_derivative:{name}", chk, sample={"fn": "convert_derivative_from_spherical_to_cartesian", "class": name})
    generic(((0.0, 2 * PI), (0.05, PI - 0.05)), "generic")
    generic(((-12.0, 12.0), (-PI + 0.05, -0.05)), "outside-principal-range")
    generic(((-12.0, 12.0), (2 * PI + 0.05, 3 * PI - 0.05)), "phi-beyond-2pi")

    def r_zero():
        for p in (float(g.uniform(0.1, 3.0)), 0.0, -1.1):
            r, t = 0.0, float(g.uniform(0, 2 * PI))
            d = g.normal(size=3)
            got = np.asarray(U.convert_derivative_from_spherical_to_cartesian(d[0], d[1], d[2], r, t, p), dtype=float)
            want = d[0] * unit_np(t, p)
            if not np.allclose(got, want, rtol=0, atol=1e-13):
                return False, f"r={r}, theta={t}, phi={p}: {got.tolist()}, documented convention (angular derivatives dropped) gives {want.tolist()}"
        return True, None
    col.check("convert_derivative:r=0-convention", r_zero)

    def phi_zero():
        r, t = float(g.uniform(0.2, 3)), float(g.uniform(0, 2 * PI))
        d = g.normal(size=3)
        got = np.asarray(U.convert_derivative_from_spherical_to_cartesian(d[0], d[1], d[2], r, t, 0.0), dtype=float)
        want = d[0] * np.array([0.0, 0.0, 1.0]) + d[2] * np.array([np.cos(t), np.sin(t), 0.0]) / r
        if not np.allclose(got, want, rtol=0, atol=1e-13):
            return False, f"phi=0, r={r}, theta={t}: {got.tolist()}, documented convention (theta derivative dropped) gives {want.tolist()}"
        return True, None
    col.check("convert_derivative:phi=0-convention", phi_zero)


def gradient_chain_contract(col, g, k):
    """Gradient of the regular solid harmonics l <= 2 through derivative routine + Jacobian against the polynomial gradients."""
    n = 6
    pts = g.normal(size=(n, 3)) * 10.0 ** g.uniform(-0.5, 0.5)
    pts[:, 0] += np.sign(pts[:, 0]) * 0.05      # stay off the polar axis
    inp = {"fn": "gradient-chain", "points": pts.tolist()}

    def chk():
        sph = U.convert_cart_to_sph(pts)
        r, t, p = sph.T
        y = np.asarray(U.generate_real_spherical_harmonics(2, t, p), dtype=float)
        dy = np.asarray(U.generate_derivative_real_spherical_harmonics(2, t, p), dtype=float)
        want = cartesian_gradients(pts)
        for row, (l, m) in enumerate(horton_order(2)):
            c = math.sqrt(4 * PI / (2 * l + 1))
            for i in range(n):
                d_r = c * l * r[i] ** (l - 1) * y[row, i] if l else 0.0
                d_t = c * r[i] ** l * dy[0, row, i]
                d_p = c * r[i] ** l * dy[1, row, i]
                got = np.asarray(U.convert_derivative_from_spherical_to_cartesian(d_r, d_t, d_p, r[i], t[i], p[i]), dtype=float)
                tol = 1e-11 * (1 + r[i]) ** 2 / abs(np.sin(p[i]))
                if not np.all(np.abs(got - want[row, i]) <= tol):
                    return False, (f"gradient of R(l={l}, m={m}) at {pts[i].tolist()}: {got.tolist()}, polynomial gradient "
                                   f"{want[row, i].tolist()}")
        return True, None
    col.check("gradient-chain:l<=2", chk, inputs=inp, sample={"fn": "derivative+jacobian", "points": n})


# ----------------------------------------------------------------------------------------------------------------------
# driver
# ----------------------------------------------------------------------------------------------------------------------
SMALL_LMAX = (0, 1, 2, 3, 6)


def family(col, g, tier, l_top, only=None):
    def want(name):
        return only is None or name in only
    classes = angle_classes(g, tier)
    if want("values"):
        for impl in IMPLS:
            for cls, (th, ph) in classes.items():
                values_contract(col, impl, l_top, cls, th, ph, per_degree=cls != "phi-negative-sine")
            for lm in SMALL_LMAX:
                th, ph = classes["generic"]
                values_contract(col, impl, lm, "generic", th, ph, per_degree=False)
    if want("agree"):
        for cls, (th, ph) in classes.items():
            agree_contract(col, l_top, cls, th, ph)
        for lm in SMALL_LMAX:
            agree_contract(col, lm, "theta-outside", *classes["theta-outside"])
    if want("addition"):
        merged_t = np.concatenate([classes[c][0] for c in ("generic", "equator", "near-pole", "poles")])
        merged_p = np.concatenate([classes[c][1] for c in ("generic", "equator", "near-pole", "poles")])
        out_t = np.concatenate([classes[c][0] for c in ("theta-outside", "phi-beyond-2pi", "pole-multiples")])
        out_p = np.concatenate([classes[c][1] for c in ("theta-outside", "phi-beyond-2pi", "pole-multiples")])
        for impl in IMPLS:
            addition_contract(col, impl, l_top, "principal-range", merged_t, merged_p, per_degree=True)
            addition_contract(col, impl, l_top, "outside-range", out_t, out_p, per_degree=True)
            addition_contract(col, impl, l_top, "phi-negative-sine", *classes["phi-negative-sine"], per_degree=False)
    if want("derivative"):
        for cls, (th, ph) in classes.items():
            derivative_contract(col, l_top, cls, th, ph, per_degree=cls != "phi-negative-sine")
        for lm in SMALL_LMAX:
            derivative_contract(col, lm, "generic", *classes["generic"], per_degree=False)
            derivative_contract(col, lm, "poles", *classes["poles"], per_degree=False)
    if want("solid"):
        l_solid = min(l_top, 12 if tier == "quick" else 30)
        th, ph = classes["generic"]
        n = len(th)
        solid_contract(col, l_solid, "generic-radius", g.uniform(0.2, 3.0, n), th, ph)
        solid_contract(col, l_solid, "unit-radius", np.ones(n), th, ph)
        rr = g.uniform(0.2, 3.0, n)
        rr[::2] = 0.0
        solid_contract(col, l_solid, "origin-among-points", rr, th, ph)
        solid_contract(col, l_solid, "small-and-large-radius", np.resize([1e-3, 12.0, 0.05, 7.0], n), th, ph)
        th, ph = classes["theta-outside"]
        solid_contract(col, l_solid, "angles-outside-range", g.uniform(0.2, 2.0, len(th)), th, ph)
        th, ph = classes["poles"]
        solid_contract(col, l_solid, "poles", g.uniform(0.2, 2.0, len(th)), th, ph)
        for lm in (0, 1, 2):
            th, ph = classes["generic"]
            solid_contract(col, lm, f"lmax={lm}", g.uniform(0.2, 3.0, len(th)), th, ph)
        for k in range(3 if tier == "quick" else 12):
            solid_cartesian_contract(col, g, k)
    if want("convert"):
        for k in range(2 if tier == "quick" else 20):
            cart_to_sph_contract(col, g, k)
    if want("jacobian"):
        for k in range(2 if tier == "quick" else 20):
            jacobian_contract(col, g, k)
            gradient_chain_contract(col, g, k)


def run(tier, seed, *rest):
    quick = tier == "quick"
    l_top = 20 if quick else 60
    col = Collector(
        f"real generate_real_spherical_harmonics(+_scipy), generate_derivative_real_spherical_harmonics, solid_harmonics, "
        f"convert_cart_to_sph, convert_derivative_from_spherical_to_cartesian; every row (l,m) up to l_max = {l_top}{'' if quick else ' (90 on a second family)'} (and l_max in "
        f"{SMALL_LMAX}) against a multiprecision closed-form table on angle classes generic / poles / near-pole / equator / theta "
        f"negative and > 2 pi / phi beyond 2 pi / phi with negative sine / multiples of pi; agreement of both implementations and "
        f"addition theorem up to l_max = {170 if quick else 320}; exact theta- and phi-derivatives; solid harmonics incl. r = 0 and "
        f"Cartesian polynomials l <= 3 with shifted centres; cart->sph inversion (axes, signed zeros, near-axis, centre itself); "
        f"Jacobian by the chain rule; distinct = (clause, implementation, angle class, degree l)")
    g = rng(seed, "C08")
    oracle_selfcheck(col)
    validation_contract(col)
    family(col, g, tier, l_top)
    if not quick:
        # a second, smaller angle family at a higher degree (multiprecision table up to l = 90)
        family(col, rng(seed, "C08-l90"), "quick", 90, only={"values", "derivative", "agree"})
    for lm in ((60, 170) if quick else (100, 200, 320)):
        high_degree_contract(col, g, lm, 4 if quick else 10)
    return col.result()


WHAT = {"values": ("generate_real_spherical_harmonics", "recursion", "scipy", "harmonics/", "index", "row", "legendre", "factorial"),
        "agree": ("agree", "scipy"), "addition": ("addition",),
        "derivative": ("derivative", "dtheta", "dphi", "theta-row", "index_m"),
        "solid": ("solid",), "convert": ("convert_cart_to_sph", "cart_to_sph", "cart"),
        "jacobian": ("convert_derivative", "jacobian", "gradient")}


def _unknown_only(col):
    return [f for f in col.failures if ":known-" not in f["case_id"]]


def replay(req):
    spec = req.get("spec") or {}
    text = " ".join(str(v) for v in (req.get("obligation", ""), spec.get("fn", ""), spec.get("what", ""))).lower()
    only = {k for k, pats in WHAT.items() if any(p.lower() in text for p in pats)}
    if "derivative" in only and "generate_derivative" in text:
        only.discard("values")
    if not only:
        only = None
    col = Collector("replay")
    g = rng(req.get("seed", 0), "C08-replay")
    l_top = int(spec.get("l_max", 10))
    family(col, g, "quick", min(max(l_top, 3), 30), only=only)
    fails = _unknown_only(col)
    if fails:
        f = fails[0]
        return {"failed": True, "case_id": f["case_id"], "detail": f["detail"], "input": f["input"]}
    return {"failed": False, "detail": f"{col.evaluations} native contract evaluations passed ({sorted(only) if only else 'all clauses'})"}


def replay_case(case):
    cid = case.get("case_id", "")
    inp = case.get("input") or {}
    col = Collector("replay-case")
    head = cid.split(":")[0]
    per_degree = ":l=" in cid
    if isinstance(inp, dict) and "theta" in inp and "l_max" in inp:
        lm, cls, th, ph = inp["l_max"], inp.get("class", "generic"), inp["theta"], inp["phi"]
        if head == "Y":
            values_contract(col, cid.split(":")[1], lm, cls, th, ph, per_degree)
        elif head == "agree":
            agree_contract(col, lm, cls, th, ph)
        elif head == "addition":
            addition_contract(col, cid.split(":")[1], lm, cls, th, ph, per_degree)
        elif head in ("dtheta", "dphi", "derivative"):
            derivative_contract(col, lm, cls, th, ph, per_degree)
        elif head == "solid":
            solid_contract(col, lm, cls, inp["r"], th, ph)
    if col.evaluations == 0:
        g = rng(0, "C08")
        only = {"solid": {"solid"}, "convert_cart_to_sph": {"convert"}, "convert_derivative": {"jacobian"}, "gradient-chain": {"jacobian"}}.get(head)
        if head == "oracle":
            oracle_selfcheck(col)
        else:
            validation_contract(col)
            family(col, g, "quick", 8, only=only)
    base = cid.split(":known-")[0]
    fails = [f for f in col.failures if f["case_id"].split(":known-")[0] == base] or col.failures
    if fails:
        f = fails[0]
        return {"failed": True, "case_id": f["case_id"], "detail": f["detail"], "input": f["input"]}
    return {"failed": False}
