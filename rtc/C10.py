"""Bounded run-time contracts for C10 (local grids and selection) on the real classes, native NumPy.

Oracle: brute-force distances of the *public* points of the parent grid to the centre (no neighbour tree); points whose
distance is within a relative band of 1e-9 of the radius may fall on either side, radii are chosen in gaps of the sorted
distances (or are exact integers on integer lattices) so that membership is unambiguous.  Histories replay sequences of
queries and attribute reassignments on ONE instance and compare every answer with the instance's current public state.

Defects are recognised by a reference model of the defective behaviour (the ball taken on the array the neighbour tree
was built from, an empty ball giving a float index array, the general selection branch rejecting an empty selection, ...).
All of them have been repaired in the library, so none gets a ':known-<slug>' suffix any more (KNOWN_TODAY is empty):
a change that brings one back is reported as an ordinary failure, with a note naming the earlier defect.
"""
import itertools

import numpy as np

from grid.angular import AngularGrid
from grid.atomgrid import AtomGrid
from grid.basegrid import Grid, LocalGrid, OneDGrid
from grid.becke import BeckeWeights
from grid.cubic import Tensor1DGrids, UniformGrid
from grid.molgrid import MolGrid
from grid.onedgrid import GaussLegendre
from grid.periodicgrid import PeriodicGrid
from grid.rtransform import BeckeRTransform
from rtc.common import Collector, rng

BAND = 1e-9
MAX_PER_SLUG = 2

LOCAL_KINDS = ["Grid1D", "Grid2D", "Grid3D", "OneDGrid", "OneDRule", "AtomGrid-origin", "AtomGrid-offcentre", "AtomGrid-r0shell",
               "MolGrid", "Tensor1DGrids2D", "Tensor1DGrids3D", "UniformGrid2D", "UniformGrid3D", "PeriodicGrid1D-novec", "PeriodicGrid2D-novec",
               "PeriodicGrid3D-novec", "AngularGrid", "LocalGrid", "GridSubclass3D"]
LATTICE_KINDS = ["Grid1D", "Grid2D", "Grid3D", "OneDGrid", "Tensor1DGrids2D", "Tensor1DGrids3D", "UniformGrid2D", "UniformGrid3D",
                 "PeriodicGrid1D-novec", "PeriodicGrid3D-novec"]
GETITEM_KINDS = ["Grid1D", "Grid2D", "Grid3D", "OneDGrid", "OneDGrid-nodomain", "OneDRule", "PeriodicGrid1D-novec", "PeriodicGrid2D-novec", "PeriodicGrid3D-novec",
                 "PeriodicGrid1D-vec", "PeriodicGrid2D-vec", "PeriodicGrid3D-vec", "PeriodicGrid3D-wrap", "GridSubclass1D", "GridSubclass3D",
                 "PeriodicGrid2D-subclass"]


# ----------------------------------------------------------------------------------------------------------------------
# grid family
# ----------------------------------------------------------------------------------------------------------------------
class PlainSubGrid(Grid):
    """User-style subclass that keeps the base constructor signature."""


class PeriodicSubGrid(PeriodicGrid):
    """User-style subclass that keeps the base constructor signature."""


class Bundle:
    def __init__(self, kind, grid, can_set_points=True, extra=()):
        self.kind = kind
        self.grid = grid
        self.can_set_points = can_set_points
        self.extra = extra          # constructor arguments that a selection must carry over (domain / lattice vectors)


def _cloud(g, n, dim, lattice):
    if lattice:
        lo = int(g.integers(-3, 1))
        side = max(2, int(np.ceil(n ** (1.0 / max(dim, 1)))) + 1)
        axes = [np.arange(lo, lo + side + d) for d in range(dim)]
        pts = np.array(list(itertools.product(*axes)), dtype=float)
        pts = pts[g.permutation(len(pts))]
    else:
        pts = g.normal(size=(n, dim)) * g.uniform(0.5, 3.0) + g.normal(size=dim)
        if n >= 4 and g.random() < 0.6:
            pts[1] = pts[0]                # duplicated parent points: each must be returned once
            if g.random() < 0.5:
                pts[n - 1] = pts[0]
    return pts


def _radial(g, n, r0=False):
    if r0:
        pts = np.concatenate([[0.0], np.sort(g.uniform(0.2, 3.0, n - 1))])
        return OneDGrid(pts, g.uniform(0.1, 1.0, n), (0, np.inf))
    return BeckeRTransform(float(g.uniform(0.0, 0.05)), float(g.uniform(0.5, 2.0))).transform_1d_grid(GaussLegendre(n))


def _atom(g, centre, r0=False):
    n = int(g.integers(2, 5))
    degs = [int(x) for x in g.choice([3, 5, 7], n)]
    rot = int(g.integers(0, 1000)) if g.random() < 0.5 else 0
    return AtomGrid(_radial(g, n, r0), degrees=degs, center=centre, rotate=rot)


def build(kind, g, lattice=False):
    """One grid of the requested kind; sizes 5..60, odd and even, non-cubic shapes."""
    n = int(g.integers(5, 41))
    if kind in ("Grid1D", "Grid2D", "Grid3D", "GridSubclass1D", "GridSubclass3D"):
        dim = int(kind[-2])
        pts = _cloud(g, n, dim, lattice)
        if dim == 1:
            pts = pts.reshape(-1)
        return Bundle(kind, (PlainSubGrid if "Subclass" in kind else Grid)(pts, g.uniform(-1.0, 1.0, len(pts))))
    if kind in ("OneDGrid", "OneDGrid-nodomain"):
        pts = np.arange(-3.0, -3.0 + n) if lattice else np.sort(g.normal(size=n) * 2)
        if not lattice and g.random() < 0.5:
            pts[1] = pts[0]
        dom = None if kind.endswith("nodomain") else (float(pts.min()) - float(g.uniform(0, 1)), float(pts.max()) + 0.5)
        return Bundle(kind, OneDGrid(pts, g.uniform(0.1, 1.0, n), dom), extra=(dom,))
    if kind == "OneDRule":
        grid = GaussLegendre(n) if g.random() < 0.5 else _radial(g, n)
        return Bundle(kind, grid, extra=(grid.domain,))
    if kind.startswith("AtomGrid"):
        centre = None if kind.endswith("origin") else g.normal(size=3) * 2
        if kind.endswith("r0shell"):
            centre = np.array([0.5, -1.0, 2.0]) + g.normal(size=3)
        return Bundle(kind, _atom(g, centre, r0=kind.endswith("r0shell")), can_set_points=False)
    if kind == "MolGrid":
        nat = int(g.integers(1, 4))
        ats = [_atom(g, g.normal(size=3) * 1.5 + np.array([0, 0, 2.0 * a])) for a in range(nat)]
        size = sum(a.size for a in ats)
        aim = BeckeWeights(order=3) if g.random() < 0.5 else g.uniform(0.0, 1.0, size)
        return Bundle(kind, MolGrid(g.integers(1, 10, nat), ats, aim, store=bool(g.integers(0, 2))))
    if kind.startswith("Tensor1DGrids"):
        dim = int(kind[-2])
        ns = [int(x) for x in g.integers(2, 5, dim)]
        ones = []
        for d, m in enumerate(ns):
            p = np.arange(-1.0, -1.0 + m) * (d + 1) if lattice else np.sort(g.normal(size=m))
            ones.append(OneDGrid(p, g.uniform(0.1, 1.0, m)))
        return Bundle(kind, Tensor1DGrids(*ones))
    if kind.startswith("UniformGrid"):
        dim = int(kind[-2])
        shape = np.array([int(x) for x in g.integers(2, 5, dim)])
        if lattice:
            axes = np.diag([1.0, 2.0, 1.0][:dim])
            origin = np.array([-1.0, 0.0, -2.0][:dim])
        else:
            axes = np.diag(g.uniform(0.3, 1.0, dim)) + g.uniform(-0.15, 0.15, (dim, dim))
            if g.random() < 0.4:
                axes[0] = -axes[0]
            origin = g.normal(size=dim)
        return Bundle(kind, UniformGrid(origin, axes, shape, weight=str(g.choice(["Trapezoid", "Rectangle"]))))
    if kind.startswith("PeriodicGrid"):
        dim = int(kind[12])
        if kind.endswith("subclass"):
            vecs = np.eye(2) * g.uniform(1.0, 2.0, 2)
            return Bundle(kind, PeriodicSubGrid(g.uniform(0.0, 1.0, (n, 2)) @ vecs, g.uniform(0.1, 1.0, n), vecs), extra=(vecs,))
        if kind.endswith("novec"):
            pts = _cloud(g, n, dim, lattice)
            if dim == 1:
                pts = pts.reshape(-1)
            return Bundle(kind, PeriodicGrid(pts, g.uniform(0.1, 1.0, len(pts))), extra=(None,))
        nvec = 1 if dim == 1 else int(g.integers(1, dim + 1))
        if dim == 1:
            vecs = np.array([float(g.uniform(1.0, 2.0))])
            pts = g.uniform(0.0, 1.0, n) * vecs[0]
        else:
            vecs = (np.eye(dim) * g.uniform(1.0, 2.0, dim) + g.uniform(-0.2, 0.2, (dim, dim)))[:nvec]
            pts = g.uniform(0.0, 1.0, (n, nvec)) @ vecs + (g.normal(size=(n, dim)) * 0.0)
            if nvec < dim:
                pts = pts + g.normal(size=(n, dim)) * np.array([0.0] * nvec + [1.0] * (dim - nvec))
        wrap = kind.endswith("wrap")
        if wrap:
            pts = pts + g.integers(-2, 3, (n, nvec)) @ vecs
        return Bundle(kind, PeriodicGrid(pts, g.uniform(0.1, 1.0, n), vecs, wrap=wrap), extra=(vecs,))
    if kind == "AngularGrid":
        return Bundle(kind, AngularGrid(degree=int(g.choice([3, 5, 7, 9]))))
    if kind == "LocalGrid":
        pts = _cloud(g, n, 3, lattice)
        idx = g.permutation(3 * n)[: len(pts)] if g.random() < 0.5 else None
        return Bundle(kind, LocalGrid(pts, g.uniform(0.1, 1.0, len(pts)), g.normal(size=3), idx))
    raise ValueError(kind)


# ----------------------------------------------------------------------------------------------------------------------
# oracle and contract of one query
# ----------------------------------------------------------------------------------------------------------------------
def flat(points):
    points = np.asarray(points, dtype=float)
    return points.reshape(len(points), -1)


def dist(points, centre):
    p2 = flat(points)
    c = np.asarray(centre, dtype=float).reshape(-1)
    out = np.empty(len(p2))
    for i in range(len(p2)):          # plain loop: no shared machinery with the library
        s = 0.0
        for a, b in zip(p2[i], c):
            s += (a - b) * (a - b)
        out[i] = np.sqrt(s)
    return out


def ball(points, centre, radius):
    """(must_in, may_in): boolean masks; points in may_in & ~must_in are within rounding of the sphere."""
    d = dist(points, centre)
    if np.isinf(radius):
        m = np.ones(len(d), dtype=bool)
        return m, m
    r = float(radius)
    return d <= r * (1 - BAND), d <= r * (1 + BAND)


def rdesc(r):
    return int(r) if isinstance(r, (int, np.integer)) else repr(float(r))


def int_index_array(idx):
    return isinstance(idx, np.ndarray) and idx.ndim == 1 and idx.dtype.kind in "iu"


def check_local(local, pts, wts, centre, radius, n_before):
    """Postcondition of get_localgrid for a parent with public points pts / weights wts."""
    if not isinstance(local, LocalGrid):
        return False, f"result is a {type(local).__name__}, not a LocalGrid"
    idx = local.indices
    if not isinstance(idx, np.ndarray) or idx.ndim != 1:
        return False, f"indices is not a 1-D array: {type(idx).__name__} {getattr(idx, 'shape', None)}"
    if idx.dtype.kind not in "iu":
        return False, f"indices have dtype {idx.dtype} (size {idx.size}); an index array must be integer-typed also when empty"
    lp, lw = np.asarray(local.points), np.asarray(local.weights)
    if not (len(lp) == len(lw) == len(idx) == local.size):
        return False, f"lengths disagree: points {len(lp)}, weights {len(lw)}, indices {len(idx)}, size {local.size}"
    if lp.shape[1:] != pts.shape[1:] or lw.ndim != 1:
        return False, f"local points have shape {lp.shape}, parent points {pts.shape}"
    if idx.size and (idx.min() < 0 or idx.max() >= n_before):
        return False, f"index out of range 0..{n_before - 1}: {idx.min()}..{idx.max()}"
    if len(np.unique(idx)) != len(idx):
        return False, "a parent point is returned more than once"
    must, may = ball(pts, centre, radius)
    got = np.zeros(len(pts), dtype=bool)
    got[idx] = True
    if np.any(must & ~got):
        k = int(np.argmax(must & ~got))
        return False, (f"parent point {k} at distance {float(dist(pts[k:k + 1], centre)[0])!r} <= radius {rdesc(radius)} is missing "
                       f"({int(got.sum())} returned, {int(must.sum())} inside)")
    if np.any(got & ~may):
        k = int(np.argmax(got & ~may))
        return False, (f"parent point {k} at distance {float(dist(pts[k:k + 1], centre)[0])!r} > radius {rdesc(radius)} was returned "
                       f"({int(got.sum())} returned, {int(may.sum())} inside)")
    if not np.array_equal(lp, pts[idx]):
        k = int(np.argmax(np.any(flat(lp) != flat(pts[idx]), axis=1)))
        return False, f"local point {k} is {lp[k]!r} but indices[{k}] = {idx[k]} is parent point {pts[idx[k]]!r}"
    if not np.array_equal(lw, wts[idx]):
        k = int(np.argmax(lw != wts[idx]))
        return False, f"local weight {k} is {lw[k]!r} but the parent weight at indices[{k}] = {idx[k]} is {wts[idx[k]]!r}"
    # independent of the index array: every returned point really lies in the sphere
    if len(lp) and not np.isinf(radius):
        dl = dist(lp, centre)
        if np.any(dl > float(radius) * (1 + BAND)):
            return False, f"a returned point lies at distance {float(dl.max())!r} > radius {rdesc(radius)}"
    lc = np.asarray(local.center, dtype=float)
    if lc.shape != np.asarray(centre).shape or not np.array_equal(lc, np.asarray(centre, dtype=float)):
        return False, f"local grid reports centre {local.center!r}, asked for {centre!r}"
    return True, None


def tree_points(grid):
    t = getattr(grid, "_kdtree", None)
    try:
        return None if t is None else np.array(t.data)
    except Exception:  # noqa: BLE001
        return None


def do_query(grid, centre, radius, st):
    """Run one real query under the contract; st records what the classification of known defects needs."""
    pts = np.array(grid.points, dtype=float)
    wts = np.array(grid.weights, dtype=float)
    st.update(grid=grid, pts=pts, wts=wts, centre=centre, radius=radius, tree=tree_points(grid), has_tree_attr=hasattr(grid, "_kdtree"),
              exc=None, local=None)
    try:
        raw = getattr(grid, "_points", None)
        st["raw"] = None if raw is None else np.array(raw, dtype=float)
    except Exception:  # noqa: BLE001
        st["raw"] = None
    c_keep = np.array(centre, dtype=float)
    try:
        local = grid.get_localgrid(centre, radius)
    except Exception as e:  # noqa: BLE001
        st["exc"] = e
        raise
    st["local"] = local
    ok, detail = check_local(local, pts, wts, centre, radius, len(pts))
    if not ok:
        return ok, detail
    if not (np.array_equal(np.asarray(grid.points, dtype=float), pts) and np.array_equal(np.asarray(grid.weights, dtype=float), wts)):
        return False, "the query changed the parent's points or weights"
    if grid.size != len(pts):
        return False, "the query changed the parent's size"
    if not np.array_equal(np.asarray(centre, dtype=float), c_keep):
        return False, "the query modified the centre argument"
    return True, None


# ----------------------------------------------------------------------------------------------------------------------
# recognition of the recorded defects (never used to decide whether a contract holds)
# ----------------------------------------------------------------------------------------------------------------------
def classify_query(st):
    """Slug of the recorded defect whose shipped behaviour is exactly what was observed, else None."""
    if not st or st.get("pts") is None:
        return None
    exc, local, kind = st.get("exc"), st.get("local"), st.get("kind", "")
    pts, wts, centre, radius = st["pts"], st["wts"], st["centre"], st["radius"]
    if kind.startswith("AtomGrid") and not st["has_tree_attr"]:
        if isinstance(exc, AttributeError) and "_kdtree" in str(exc):
            return "atomgrid-no-kdtree"
    raw = st.get("raw")
    if raw is None or raw.shape != pts.shape:
        return None
    tree = st.get("tree")
    if kind.startswith("AtomGrid") and tree is not None and tree.shape == flat(pts).shape and np.array_equal(tree, flat(pts)):
        raw = pts          # an atomic grid that already works on its public (centred) points
    ghost = st.get("ghost_tree")
    differs = tree is not None and not (tree.shape == flat(raw).shape and np.array_equal(tree, flat(raw)))
    # "stale" = the shipped setter behaviour: the tree is the one built at the first finite query of this history and
    # the points were reassigned since; a tree that is wrong for any other reason is not the recorded defect
    stale = bool(differs and ghost is not None and st.get("reassigned") and tree.shape == ghost.shape and np.array_equal(tree, ghost))
    if differs and not stale:
        return None
    src = tree if tree is not None else flat(raw)
    if np.isinf(radius):
        s_must = s_may = np.ones(len(raw), dtype=bool)
    else:
        s_must, s_may = ball(src, centre, radius)
    t_must, _ = ball(pts, centre, radius)
    # does the observation agree with the shipped algorithm (ball on the tree's array, raw points gathered)?
    if exc is not None:
        if s_must.any():
            return None
        msg = str(exc)
        if kind.startswith("PeriodicGrid"):
            if not (isinstance(exc, ValueError) and "need at least one array to concatenate" in msg):
                return None
            empty_slug = "periodic-empty-ball"
        else:
            if not (isinstance(exc, IndexError) and "arrays used as indices must be of integer" in msg):
                return None
            empty_slug = "empty-ball"
    else:
        if local is None or not isinstance(local, LocalGrid):
            return None
        idx = local.indices
        if not int_index_array(idx) or len(np.unique(idx)) != len(idx) or (idx.size and (idx.min() < 0 or idx.max() >= len(raw))):
            return None
        got = np.zeros(len(raw), dtype=bool)
        got[idx] = True
        if np.any(s_must & ~got) or np.any(got & ~s_may):
            return None
        if not (np.array_equal(np.asarray(local.points), raw[idx]) and np.array_equal(np.asarray(local.weights), wts[idx])):
            return None
        empty_slug = None
    if exc is not None and not t_must.any():
        return empty_slug
    if stale:
        return "stale-tree"
    if kind.startswith("AtomGrid") and not np.array_equal(raw, pts):
        return "atomgrid-uncentred"
    return None


# Defects that the unchanged library shows today: only these would get the ':known-<slug>' suffix.  Every defect that the
# classification recognises (stale-tree, empty-ball, periodic-empty-ball, numpy-int-index, atomgrid-no-kdtree,
# atomgrid-uncentred, empty-selection-onedgrid, empty-selection-periodicgrid) has been repaired in the library ("fix:"
# commits), so the set is empty: if a change brings one of them back the failure is reported as an ordinary violation,
# with a note in its detail.
KNOWN_TODAY = set()


def mark_known(col, n_before, slug):
    """Re-label the failure just recorded when it is exactly a recorded defect of the unchanged library; keep at most
    MAX_PER_SLUG records per recorded defect so that the (capped) failure list keeps room for other violations."""
    if slug is None or len(col.failures) <= n_before:
        return
    rec = col.failures[-1]
    if slug not in KNOWN_TODAY:
        rec["detail"] = f"{rec['detail']} [exactly the behaviour of the defect '{slug}' that was repaired in the library earlier]"
        return
    rec["case_id"] += ":known-" + slug
    same = [f for f in col.failures if f["case_id"].endswith(":known-" + slug)]
    if len(same) > MAX_PER_SLUG:
        col.failures.pop()


# ----------------------------------------------------------------------------------------------------------------------
# choice of centres and radii
# ----------------------------------------------------------------------------------------------------------------------
def extent_of(pts):
    p2 = flat(pts)
    return float(np.max(np.abs(p2 - p2.mean(axis=0)))) + 1.0


def gap_radius(pts, centre, k):
    """Radius strictly between the k-th and (k+1)-th sorted distance (1 <= k <= N); None if those distances are too close."""
    d = np.sort(dist(pts, centre))
    n = len(d)
    k = min(max(int(k), 1), n)
    for kk in list(range(k, n + 1)) + list(range(k - 1, 0, -1)):
        lo = d[kk - 1]
        hi = d[kk] if kk < n else 2.0 * d[-1] + 1.0
        if hi - lo > 1e-6 * (1.0 + hi):
            return 0.5 * (lo + hi)
    return 2.0 * d[-1] + 1.0


def centre_arg(c, pts, variant):
    """Centre in the form the API documents: float for 1-D grids (also NumPy scalar / 0-d array), array(M,) otherwise."""
    if pts.ndim == 1:
        c = float(np.asarray(c).reshape(-1)[0])
        return [c, np.float64(c), np.array(c)][variant % 3]
    return np.array(c, dtype=float)


def near_node(g, pts):
    j = int(g.integers(0, len(pts)))
    return flat(pts)[j] + g.normal(size=flat(pts).shape[1]) * 0.3 * extent_of(pts) / max(len(pts), 1) ** 0.5


def outside_centre(g, pts):
    p2 = flat(pts)
    v = g.normal(size=p2.shape[1])
    v /= np.linalg.norm(v)
    return p2.mean(axis=0) + float(g.uniform(4.0, 8.0)) * extent_of(pts) * v


def far_centre(g, pts):
    p2 = flat(pts)
    v = g.normal(size=p2.shape[1])
    v /= np.linalg.norm(v)
    return p2.mean(axis=0) + 50.0 * extent_of(pts) * v


RCLASSES = ["zero-on-node", "zero-off-node", "tiny-on-node", "tiny-off-node", "one-point", "typical", "all-but-one", "huge", "max-float",
            "inf", "inf-far-centre", "empty-far", "int-radius"]


def local_case(col, g, kind, rclass, rep, meta):
    b = build(kind, g)
    grid = b.grid
    pts = np.array(grid.points, dtype=float)
    n = len(pts)
    ext = extent_of(pts)
    j = int(g.integers(0, n))
    if rclass in ("zero-on-node", "tiny-on-node"):
        j = 0 if rep % 2 == 0 else j            # point 0 is the duplicated one in plain clouds / the r=0 shell
        c = flat(pts)[j].copy()
        r = (0 if rep % 2 else 0.0) if rclass.startswith("zero") else 1e-12
    elif rclass in ("zero-off-node", "tiny-off-node"):
        c = flat(pts)[j] + 1e-3 * ext * (1 + np.abs(g.normal(size=flat(pts).shape[1])))
        r = 0.0 if rclass.startswith("zero") else 1e-12
    elif rclass == "one-point":
        c = near_node(g, pts)
        r = gap_radius(pts, c, 1)
    elif rclass == "typical":
        c = near_node(g, pts)
        r = gap_radius(pts, c, int(g.integers(2, max(3, n - 1))))
    elif rclass == "all-but-one":
        c = near_node(g, pts)
        r = gap_radius(pts, c, n - 1)
    elif rclass == "huge":
        c = near_node(g, pts)
        r = 1e6 * ext
    elif rclass == "max-float":
        c = near_node(g, pts)
        r = [1e200, 1.7e308][rep % 2]
    elif rclass == "inf":
        c = near_node(g, pts)
        r = [np.inf, float("inf")][rep % 2]
    elif rclass == "inf-far-centre":
        c = far_centre(g, pts)
        r = np.inf
    elif rclass == "empty-far":
        c = far_centre(g, pts)
        r = ext
    elif rclass == "int-radius":
        c = near_node(g, pts)
        r = int(np.ceil(gap_radius(pts, c, max(2, n // 2))))
        d = dist(pts, c)
        if np.any(np.abs(d - r) <= 1e-6 * (1 + r)):
            r = int(np.ceil(2 * d.max() + 1))
    else:
        raise ValueError(rclass)
    if kind.startswith("PeriodicGrid") and np.isinf(r):
        return                                   # the periodic class documents finite radii only; not part of the statement
    c = centre_arg(c, pts, rep)
    st = {"kind": kind}
    inp = dict(meta, kind=kind, rclass=rclass, rep=rep, n=n, centre=np.asarray(c).tolist(), radius=rdesc(r))
    n0 = len(col.failures)
    ok = col.check(f"get_localgrid:{kind}:{rclass}", lambda: do_query(grid, c, r, st), inputs=inp,
                   sample={"kind": kind, "n": n, "radius": rdesc(r)})
    if not ok:
        mark_known(col, n0, classify_query(st))


def lattice_case(col, g, kind, rep, meta):
    """Integer lattices, integer centre and radius: membership d^2 <= r^2 is decided exactly (closed ball, points on the sphere included)."""
    b = build(kind, g, lattice=True)
    grid = b.grid
    pts = np.array(grid.points, dtype=float)
    if not np.array_equal(pts, np.round(pts)):
        return
    p2 = flat(pts).astype(np.int64)
    j = int(g.integers(0, len(pts)))
    ci = p2[j] + (g.integers(-1, 2, p2.shape[1]) if rep % 2 else 0)
    r = int([1, 2, 3, 5][rep % 4])
    d2 = ((p2 - ci) ** 2).sum(axis=1)
    want = set(np.nonzero(d2 <= r * r)[0].tolist())
    on_sphere = int(np.sum(d2 == r * r))
    c = centre_arg(ci.astype(float), pts, rep) if rep % 3 else (np.array(ci) if pts.ndim > 1 else float(ci[0]))   # integer-typed centre as well
    st = {"kind": kind}
    inp = dict(meta, kind=kind, rclass="lattice-exact", rep=rep, centre=np.asarray(c).tolist(), radius=r)

    def chk():
        ok, detail = do_query(grid, c, r, st)
        if not ok:
            return ok, detail
        got = set(int(i) for i in st["local"].indices)
        if got != want:
            return False, (f"integer lattice, centre {ci.tolist()}, radius {r}: got {len(got)} points, exactly {len(want)} satisfy d^2 <= r^2 "
                           f"({on_sphere} of them on the sphere); symmetric difference {sorted(got ^ want)[:6]}")
        return True, None
    n0 = len(col.failures)
    ok = col.check(f"get_localgrid:{kind}:lattice-exact", chk, inputs=inp, sample={"kind": kind, "radius": r, "on_sphere": on_sphere})
    if not ok:
        mark_known(col, n0, classify_query(st))


# ----------------------------------------------------------------------------------------------------------------------
# histories of queries and reassignments on one instance
# ----------------------------------------------------------------------------------------------------------------------
FIXED_PATTERNS = ["QQ", "QPQ", "PQ", "QWQ", "QPWQ", "IPQ", "QPI", "QPQPQ", "ZPZ", "QPQWQ", "WPQ", "QQPQQ", "QIQ", "TPQ", "QPT", "QPPQ",
                  "EPQ", "QPE", "QEQ", "EQ", "QPQPQP", "QO", "OQ", "TO", "OT", "QOQ", "OO", "OPO", "QOWO", "ZO", "EO",
                  "ZSZ", "QSZ", "TSZ", "OSZ", "ZSZSZ", "QSSZ", "SZ", "QSQZ"]       # S: points moved by a tiny amount


def new_points(g, pts, variant):
    v = variant % 6
    if v == 0:
        return pts[::-1].copy()                                   # same set, reversed order
    if v == 1:
        return pts + 7.0 * extent_of(pts)                         # rigid shift further than any radius used
    if v == 2:
        out = pts.copy()                                          # two points swapped
        out[[0, len(pts) - 1]] = out[[len(pts) - 1, 0]]
        return out
    if v == 3:
        return pts * 0.5 + g.normal(size=pts.shape) * 0.3 * extent_of(pts)
    if v == 4:
        return np.roll(pts, 1, axis=0)
    return pts * np.float64(-1.0)


def history_case(col, g, kind, pattern, rep, meta):
    b = build(kind, g)
    grid = b.grid
    if not b.can_set_points:
        pattern = pattern.replace("P", "W").replace("S", "W")
    st = {"kind": kind, "ghost_tree": None, "reassigned": False}
    n = grid.size
    trace = []

    def chk():
        for step, op in enumerate(pattern):
            pts = np.array(grid.points, dtype=float)
            if op == "P":
                new = new_points(g, pts, rep + step)
                grid.points = new
                st["reassigned"] = True
                if not np.array_equal(np.asarray(grid.points, dtype=float), new):
                    return False, f"step {step} ({pattern}): points after reassignment are not the assigned ones"
                trace.append("P")
                continue
            if op == "S":
                # "current points" also after a reassignment that moves them by very little (absolute and relative to the coordinates)
                tiny = float(10.0 ** g.uniform(-9, -5.5))
                new = pts + tiny * (g.normal(size=pts.shape) * max(1.0, extent_of(pts)) + np.abs(pts))
                grid.points = new
                st["reassigned"] = True
                if not np.array_equal(np.asarray(grid.points, dtype=float), new):
                    return False, f"step {step} ({pattern}): points after reassignment are not the assigned ones"
                trace.append("S")
                continue
            if op == "W":
                new = g.uniform(0.1, 2.0, n)
                grid.weights = new
                if not np.array_equal(np.asarray(grid.weights, dtype=float), new):
                    return False, f"step {step} ({pattern}): weights after reassignment are not the assigned ones"
                trace.append("W")
                continue
            if op == "Q":
                c = near_node(g, pts)
                r = gap_radius(pts, c, int(g.integers(1, max(2, n // 2))))
            elif op == "T":                                       # all but the farthest point, through the tree
                c = near_node(g, pts)
                r = gap_radius(pts, c, n - 1)
            elif op == "I":
                if kind.startswith("PeriodicGrid"):
                    continue
                c, r = near_node(g, pts), np.inf
            elif op == "E":
                c, r = far_centre(g, pts), 0.5 * extent_of(pts)
            elif op == "O":                                       # centre outside the cloud, large radius, part of the points inside
                c = outside_centre(g, pts)
                r = gap_radius(pts, c, max(1, n // 2))
            elif op == "Z":
                c, r = flat(pts)[int(g.integers(0, n))].copy(), 0.0
            else:
                raise ValueError(op)
            c = centre_arg(c, pts, rep + step)
            trace.append({"op": op, "centre": np.asarray(c).tolist(), "radius": rdesc(r)})
            if st["ghost_tree"] is None and not np.isinf(r):
                # ghost state for the classification only: the array the (lazily built) tree is first built from
                st["ghost_tree"] = flat(np.array(getattr(grid, "_points", pts), dtype=float))
                st["reassigned"] = False
            ok, detail = do_query(grid, c, r, st)
            if not ok:
                return False, f"step {step} of history {pattern} (query '{op}', radius {rdesc(r)}): {detail}"
        return True, None

    def chk_exc():
        try:
            return chk()
        except Exception as e:  # noqa: BLE001
            return False, f"history {pattern}, after {len(trace)} operations: {type(e).__name__}: {e}"
    inp = dict(meta, kind=kind, pattern=pattern, rep=rep, trace=trace)
    n0 = len(col.failures)
    ok = col.check(f"history:{kind}:{pattern}", chk_exc, inputs=inp, sample={"kind": kind, "history": pattern})
    if not ok:
        mark_known(col, n0, classify_query(st))


def interleaved_case(col, g, kind, rep, meta):
    """Two instances of the same shape queried alternately: no state may be shared between instances."""
    b1 = build(kind, g)
    g1 = b1.grid
    if kind.startswith("Grid") or kind == "OneDGrid-nodomain":
        p1 = np.array(g1.points, dtype=float)
        g2 = Grid(new_points(g, p1, 1 + rep), g.uniform(0.1, 1.0, g1.size))
    else:
        g2 = build(kind, g).grid
    st = {"kind": kind}

    def chk():
        for step, gr in enumerate((g1, g2, g1, g2)):
            pts = np.array(gr.points, dtype=float)
            c = centre_arg(near_node(g, pts), pts, step)
            r = gap_radius(pts, c, max(1, gr.size // 3))
            ok, detail = do_query(gr, c, r, st)
            if not ok:
                return False, f"query {step} (instance {step % 2 + 1}): {detail}"
        return True, None
    n0 = len(col.failures)
    ok = col.check(f"interleaved-instances:{kind}", chk, inputs=dict(meta, kind=kind, rep=rep), sample={"kind": kind})
    if not ok:
        mark_known(col, n0, classify_query(st))


SHARED_KINDS = {"Grid1D": (Grid, 1), "Grid2D": (Grid, 2), "Grid3D": (Grid, 3), "OneDGrid": (OneDGrid, 1), "PeriodicGrid2D-novec": (PeriodicGrid, 2),
                "GridSubclass3D": (PlainSubGrid, 3)}


def shared_array_case(col, g, kind, rep, meta):
    """Two instances built from the SAME points array: reassigning the points of one must leave the other one consistent."""
    cls, dim = SHARED_KINDS[kind]
    n = int(g.integers(6, 30))
    base = g.normal(size=(n, dim)) * 2.0
    base = np.sort(base.reshape(-1)) if dim == 1 else base
    g1, g2 = cls(base, g.uniform(0.1, 1.0, n)), cls(base, g.uniform(0.1, 1.0, n))
    st = {"kind": kind}

    def chk():
        for step, gr in enumerate((g1, g2, g1, g2, g1)):
            if step == 2:
                g1.points = new_points(g, np.array(g1.points, dtype=float), 1 + rep)
            pts = np.array(gr.points, dtype=float)
            c = centre_arg(near_node(g, pts), pts, step)
            r = gap_radius(pts, c, max(1, n // 3))
            ok, detail = do_query(gr, c, r, st)
            if not ok:
                return False, f"query {step} (instance {2 - (step + 1) % 2}; the points of instance 1 are reassigned before query 2): {detail}"
        return True, None
    col.check(f"shared-constructor-array:{kind}", chk, inputs=dict(meta, kind=kind, rep=rep), sample={"kind": kind})


# ----------------------------------------------------------------------------------------------------------------------
# selection
# ----------------------------------------------------------------------------------------------------------------------
def index_family(g, n):
    mid = int(g.integers(1, max(2, n - 1)))
    a, bnd = sorted(int(x) for x in g.integers(0, n + 1, 2))
    if a == bnd:
        a, bnd = max(0, a - 2), min(n, a + 1)
    mask = g.random(n) < 0.5
    mask[0], mask[-1] = True, False
    fam = [("int-first", 0), ("int-mid", mid), ("int-last", n - 1), ("int-negative", -1 - int(g.integers(0, n))), ("int-minus-size", -n),
           ("np.int64", np.int64(mid)), ("np.int32", np.int32(mid)), ("np.intp-last", np.intp(n - 1)), ("np.int64-negative", np.int64(-1)),
           ("np.int64-zero", np.int64(0)), ("np.uint8", np.uint8(mid)), ("np.int16-negative", np.int16(-n)),
           ("slice-range", slice(a, bnd)), ("slice-step", slice(None, None, 2)), ("slice-reverse", slice(None, None, -1)),
           ("slice-full", slice(None)), ("slice-negative", slice(-3, None)), ("slice-beyond-end", slice(n - 2, n + 5)),
           ("array-int", g.integers(0, n, int(g.integers(1, n + 1)))), ("array-permutation", g.permutation(n)),
           ("array-negative-repeat", np.array([-1, 0, -1, n - 1, -n])), ("array-int32", g.integers(0, n, 3).astype(np.int32)),
           ("array-one", np.array([mid])), ("mask", mask), ("mask-all", np.ones(n, dtype=bool)),
           ("empty-slice", slice(mid, mid)), ("empty-array", np.array([], dtype=int)), ("empty-mask", np.zeros(n, dtype=bool))]
    return fam


def describe_index(ix):
    if isinstance(ix, slice):
        return f"slice({ix.start},{ix.stop},{ix.step})"
    if isinstance(ix, np.ndarray):
        return {"dtype": str(ix.dtype), "values": ix.tolist()}
    return f"{type(ix).__name__}({int(ix)})"


def same_extra(kind, child, parent, extra):
    if kind.startswith("OneD"):
        if child.domain != parent.domain and not (child.domain is None and parent.domain is None):
            return False, f"domain {child.domain} differs from the parent's {parent.domain}"
    if kind.startswith("PeriodicGrid"):
        if not np.array_equal(child.realvecs, parent.realvecs) or child.realvecs.shape != parent.realvecs.shape:
            return False, "lattice vectors differ from the parent's"
    return True, None


def ctor_outcome(cls, args):
    try:
        cls(*args)
        return None
    except Exception as e:  # noqa: BLE001
        return f"{type(e).__name__}: {e}"


def getitem_case(col, g, kind, ikind, ix, b, meta):
    grid = b.grid
    pts0 = np.array(grid.points, dtype=float)
    wts0 = np.array(grid.weights, dtype=float)
    is_int = isinstance(ix, (int, np.integer))
    want_p = pts0[[int(ix)]] if is_int else pts0[ix]
    want_w = wts0[[int(ix)]] if is_int else wts0[ix]
    nonperiodic = not (kind.startswith("PeriodicGrid") and not kind.endswith("novec"))
    st = {}

    def chk():
        try:
            child = grid[ix]
        except Exception as e:  # noqa: BLE001
            st["exc"] = f"{type(e).__name__}: {e}"
            raise
        if kind == "OneDRule":
            if not isinstance(child, OneDGrid):
                return False, f"selection of a one-dimensional rule is a {type(child).__name__}"
        elif type(child) is not type(grid):
            return False, f"selection of a {type(grid).__name__} is a {type(child).__name__}"
        cp, cw = np.asarray(child.points), np.asarray(child.weights)
        if cp.shape != want_p.shape or not np.array_equal(cp, want_p):
            return False, f"points {cp.tolist()[:3]}... (shape {cp.shape}) are not the selected points {want_p.tolist()[:3]}... (shape {want_p.shape})"
        if cw.shape != want_w.shape or not np.array_equal(cw, want_w):
            return False, f"weights (shape {cw.shape}) are not the selected weights (shape {want_w.shape})"
        if child.size != len(want_w):
            return False, f"size {child.size}, selected {len(want_w)}"
        ok, detail = same_extra(kind, child, grid, b.extra)
        if not ok:
            return ok, detail
        if not (np.array_equal(np.asarray(grid.points, dtype=float), pts0) and np.array_equal(np.asarray(grid.weights, dtype=float), wts0)):
            return False, "selection changed the parent grid"
        # the selection is a grid in its own right: its queries answer for its own points
        if nonperiodic and child.size >= 1:
            c = centre_arg(near_node(g, cp), cp, 0)
            r = gap_radius(cp, c, max(1, child.size // 2))
            ok, detail = do_query(child, c, r, {})
            if not ok:
                return False, f"query on the selected grid: {detail}"
        return True, None
    cid = f"getitem:{kind}:{ikind}"
    inp = dict(meta, kind=kind, ikind=ikind, n=len(pts0), index=describe_index(ix))
    n0 = len(col.failures)
    ok = col.check(cid, chk, inputs=inp, sample={"kind": kind, "index": ikind})
    if ok or "exc" not in st:
        return
    # recorded defects: the observed exception is exactly that of the general branch  cls(array(points[ix]), array(weights[ix]), ...)
    cls = OneDGrid if kind.startswith("OneD") else type(grid)
    extra = tuple(e for e in b.extra) if kind.startswith(("OneD", "PeriodicGrid")) else ()
    if kind.startswith("PeriodicGrid"):
        extra = (grid.realvecs,)
    try:
        general = ctor_outcome(cls, (np.array(grid.points[ix]), np.array(grid.weights[ix])) + extra)
    except Exception:  # noqa: BLE001
        general = None
    if general is None or general != st["exc"]:
        return
    if isinstance(ix, np.integer) and not isinstance(ix, int):
        try:
            grid[int(ix)]
        except Exception:  # noqa: BLE001
            return
        mark_known(col, n0, "numpy-int-index")
    elif not is_int and len(want_w) == 0:
        mark_known(col, n0, "empty-selection-onedgrid" if kind.startswith("OneD") else "empty-selection-periodicgrid")


def getitem_group(col, g, kinds, reps, meta, only_ikind=None):
    for rep in range(reps):
        for kind in kinds:
            b = build(kind, g)
            pts = np.array(b.grid.points, dtype=float)
            if rep % 2 == 0 and not (kind.startswith("PeriodicGrid") and not kind.endswith("novec")):
                # parent has already built its neighbour tree: the selection must not inherit it
                c = centre_arg(near_node(g, pts), pts, rep)
                try:
                    b.grid.get_localgrid(c, gap_radius(pts, c, 2))
                except Exception:  # noqa: BLE001
                    pass
            for ikind, ix in index_family(g, b.grid.size):
                if only_ikind is None or ikind == only_ikind:
                    getitem_case(col, g, kind, ikind, ix, b, dict(meta, rep=rep))


# ----------------------------------------------------------------------------------------------------------------------
# groups, run, replay
# ----------------------------------------------------------------------------------------------------------------------
def all_patterns(maxlen):
    out = []
    for m in range(1, maxlen + 1):
        for t in itertools.product("QEIPW", repeat=m):
            s = "".join(t)
            if any(ch in s for ch in "QEI"):
                out.append(s)
    return out


def random_pattern(g, m):
    s = "".join(g.choice(list("QQQPPWEIZTOO"), m))
    return s if s[-1] in "QEIZTO" else s + "Q"


def group_localgrid(col, tier, seed, kinds=None, rclasses=None):
    meta = {"group": "localgrid", "tier": tier, "seed": seed}
    reps = 10 if tier == "quick" else 60
    for rep in range(reps):
        for kind in LOCAL_KINDS:
            for rclass in RCLASSES:
                gk = rng(seed * 7919 + rep, f"C10-{kind}-{rclass}")
                if (kinds is None or kind in kinds) and (rclasses is None or rclass in rclasses):
                    local_case(col, gk, kind, rclass, rep, meta)
    if rclasses is None or "lattice-exact" in rclasses:
        for kind in LATTICE_KINDS:
            gk = rng(seed, f"C10-lattice-{kind}")
            for rep in range(24 if tier == "quick" else 200):
                if kinds is None or kind in kinds:
                    lattice_case(col, gk, kind, rep, meta)


def group_history(col, tier, seed, kinds=None, patterns=None):
    meta = {"group": "history", "tier": tier, "seed": seed}
    pats = list(FIXED_PATTERNS)
    pats += [p for p in all_patterns(3 if tier == "quick" else 5) if p not in pats]
    for kind in LOCAL_KINDS:
        if kinds is not None and kind not in kinds:
            continue
        g = rng(seed, f"C10-history-{kind}")
        plist = list(pats)
        for k in range(12 if tier == "quick" else 300):
            plist.append(random_pattern(g, int(g.integers(4, 7)) if k % 2 else 5))
        seen = set()
        for rep, p in enumerate(plist):
            if patterns is not None and p not in patterns:
                continue
            if kind.startswith("AtomGrid"):
                p = p.replace("P", "W").replace("S", "W")
            if kind.startswith("PeriodicGrid"):
                p = p.replace("I", "")
            if not p or p in seen or not any(ch in p for ch in "QEIZTO"):
                continue
            seen.add(p)
            history_case(col, g, kind, p, rep, meta)


def group_interleaved(col, tier, seed, kinds=None):
    meta = {"group": "interleaved", "tier": tier, "seed": seed}
    for kind in LOCAL_KINDS:
        g = rng(seed, f"C10-interleaved-{kind}")
        for rep in range(4 if tier == "quick" else 24):
            if kinds is None or kind in kinds:
                interleaved_case(col, g, kind, rep, meta)
    for kind in SHARED_KINDS:
        g = rng(seed, f"C10-shared-{kind}")
        for rep in range(4 if tier == "quick" else 24):
            if kinds is None or kind in kinds:
                shared_array_case(col, g, kind, rep, meta)


def group_getitem(col, tier, seed, kinds=None, ikind=None):
    meta = {"group": "getitem", "tier": tier, "seed": seed}
    for kind in GETITEM_KINDS:
        if kinds is None or kind in kinds:
            getitem_group(col, rng(seed, f"C10-getitem-{kind}"), [kind], 6 if tier == "quick" else 48, meta, only_ikind=ikind)


RULE = ("real get_localgrid on plain 1/2/3-D, one-dimensional (plain and quadrature rule), atomic (origin, off-centre, r=0 shell, rotated), molecular, "
        "tensor-product and uniform (2-D/3-D, skewed), periodic-without-vectors, angular and local grids with 5..60 points incl. duplicated points: "
        "brute-force ball oracle for radii {0 on/off node, 1e-12, one point, typical, all but one, huge, 1e200/1.7e308, inf, empty, integer}, exact closed "
        "ball on integer lattices, centre as float/NumPy scalar/0-d/int array; index array integer, unique, maps back, weights carried, parent "
        "untouched; histories (fixed patterns, all words over {query, empty query, inf query, set points, set weights} of length <= 3 (quick) / <= 5 (thorough), random words of <= 7 operations, points moved by 1e-9..3e-6 followed by a zero-radius query) of queries / point / weight "
        "reassignments on one instance, interleaved instances, instances sharing the constructor array; selection by Python/NumPy ints, slices, index arrays, masks (incl. empty) on Grid, "
        "OneDGrid, PeriodicGrid with domain/lattice carried over and a query on the selection; distinct = (clause, grid kind, variant)")


def run(tier, seed, *rest):
    col = Collector(RULE)
    seed = int(seed)
    group_localgrid(col, tier, seed)
    group_history(col, tier, seed)
    group_interleaved(col, tier, seed)
    group_getitem(col, tier, seed)
    return col.result()


def _pick(col, prefer_unknown=True):
    if not col.failures:
        return {"failed": False, "detail": f"{col.evaluations} native contract evaluations passed"}
    f = col.failures[0]
    if prefer_unknown:
        for cand in col.failures:
            if ":known-" not in cand["case_id"]:
                f = cand
                break
    return {"failed": True, "case_id": f["case_id"], "detail": f["detail"], "input": f["input"]}


def replay(req):
    spec = req.get("spec") or {}
    name = str(req.get("obligation") or "")
    seed = int(req.get("seed", 0) or 0)
    what = spec.get("what")
    low = name.lower()
    if what is None:
        if "getitem" in low:
            what = "getitem"
        elif "setter" in low or "inv" in low or "history" in low:
            what = "history"
        elif "localgrid" in low or "atomgrid" in low or "molgrid" in low or "init" in low:
            what = "localgrid"
    kinds = spec.get("kinds") or ([spec["kind"]] if spec.get("kind") else None)
    if kinds is None:
        for key, ks in (("atomgrid", [k for k in LOCAL_KINDS if k.startswith("AtomGrid")]), ("molgrid", ["MolGrid"]),
                        ("periodic", [k for k in LOCAL_KINDS + GETITEM_KINDS if k.startswith("PeriodicGrid")]),
                        ("onedgrid", [k for k in LOCAL_KINDS + GETITEM_KINDS if k.startswith("OneD")]),
                        ("hyperrectangle", [k for k in LOCAL_KINDS if k.startswith(("Tensor", "Uniform"))])):
            if key in low:
                kinds = sorted(set(ks))
                break
    col = Collector("replay")
    for s in (seed, seed + 1):
        if what in (None, "localgrid"):
            group_localgrid(col, "quick", s, kinds=kinds, rclasses=spec.get("rclasses"))
        if what in (None, "history"):
            group_history(col, "quick", s, kinds=kinds, patterns=spec.get("patterns"))
            group_interleaved(col, "quick", s, kinds=kinds)
        if what in (None, "getitem"):
            group_getitem(col, "quick", s, kinds=kinds, ikind=spec.get("ikind"))
        if col.failures:
            break
    want_slug = spec.get("known")
    if want_slug:
        for f in col.failures:
            if f["case_id"].endswith(":known-" + want_slug):
                return {"failed": True, "case_id": f["case_id"], "detail": f["detail"], "input": f["input"]}
    return _pick(col)


def replay_case(case):
    cid = str(case.get("case_id", ""))
    inp = case.get("input") or {}
    base = cid.split(":known-")[0]
    parts = base.split(":")
    tier = inp.get("tier", "quick")
    seed = int(inp.get("seed", 0) or 0)
    kind = parts[1] if len(parts) > 1 else None
    col = Collector("replay-case")
    if parts[0] == "get_localgrid":
        group_localgrid(col, tier, seed, kinds=[kind], rclasses=[parts[2]] if len(parts) > 2 else None)
    elif parts[0] == "history":
        group_history(col, tier, seed, kinds=[kind])
    elif parts[0] in ("interleaved-instances", "shared-constructor-array"):
        group_interleaved(col, tier, seed, kinds=[kind])
    elif parts[0] == "getitem":
        group_getitem(col, tier, seed, kinds=[kind])
    else:
        return replay({"seed": seed})
    for f in col.failures:
        if f["case_id"].split(":known-")[0] == base:
            return {"failed": True, "case_id": f["case_id"], "detail": f["detail"], "input": f["input"]}
    return {"failed": False}
