#!/bin/sh
# Developer helper: tools_mutate.sh <property> <file relative to src/grid> <sed expression> [extra check args]
# Copies /repo/src to a scratch tree, applies the sed expression, runs the check against it, removes the tree.
set -e
PID=$1; FILE=$2; EXPR=$3; shift 3
S=$(mktemp -d /tmp/mutXXXXXX)
mkdir -p $S/src
rsync -a --exclude data --exclude tests --exclude __pycache__ /repo/src/grid/ $S/src/grid/; ln -s /repo/src/grid/data $S/src/grid/data
sed -i "$EXPR" $S/src/grid/$FILE
if diff -q /repo/src/grid/$FILE $S/src/grid/$FILE >/dev/null; then echo "MUTATION DID NOT APPLY"; rm -rf $S; exit 9; fi
diff /repo/src/grid/$FILE $S/src/grid/$FILE | head -6 || true
cd /verif
set +e
VERIF_EVIDENCE_DIR=/tmp/verif_scratch_evidence VERIF_REPO=$S timeout 1800 ./check $PID "$@" 2>&1 | grep -E "^(VIOLATION|KNOWN|UNDECIDED|\[C|ENGINE)" | cut -c1-220 | head -12
echo "exit=$?"
rm -rf $S
