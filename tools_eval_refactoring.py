"""Developer helper: evaluate a behaviour-preserving refactoring written by a sub-agent (false-alarm test).

usage: tools_eval_refactoring.py <src dir> <property> <name>
Applies patch.diff to a scratch worktree of /repo HEAD, runs the agent's demo (`demo.py check`) and ./check <property> against the patched tree,
and files patch + verdict under /verif/refactorings/<name>/.  Exit 0 of the check = no alarm; exit 2 = undecided (the code left the fragment the
contracts were written for); exit 1 = FALSE ALARM (to be fixed in the machinery).  Nothing is committed to /repo; the worktree is removed."""
import json
import os
import shutil
import subprocess
import sys
import tempfile

src, pid, name = sys.argv[1:4]
V = os.path.dirname(os.path.abspath(__file__))
w = tempfile.mkdtemp(prefix="refw", dir="/tmp")
os.rmdir(w)
subprocess.run(["git", "-C", "/repo", "worktree", "add", "-q", "--detach", w, "HEAD"], check=True)
shutil.copy("/repo/src/grid/_version.py", f"{w}/src/grid/_version.py")
env = dict(os.environ, PYTHONPATH=f"{w}/src", OMP_NUM_THREADS="1")
try:
    ap = subprocess.run(["git", "apply", f"{src}/patch.diff"], cwd=w, capture_output=True, text=True)
    if ap.returncode:
        print("patch does not apply:", ap.stderr[:300])
        sys.exit(8)
    demo = subprocess.run(["/venv/bin/python", "demo.py", "check"], env=env, capture_output=True, text=True, timeout=3600, cwd=src).returncode
    chk = subprocess.run(["./check", pid], env=dict(os.environ, VERIF_REPO=w, VERIF_EVIDENCE_DIR="/tmp/verif_scratch_evidence"), capture_output=True, text=True, timeout=7200, cwd=V)
    lines = [l for l in chk.stdout.splitlines() if l.startswith(("VIOLATION", "UNDECIDED", "[C"))]
    alarms = []
    for l in lines:
        if l.startswith("VIOLATION"):
            path = l.split("replay=")[1].split()[0]
            try:
                d = json.load(open(os.path.join(V, path)))
                alarms.append(d.get("obligation") or (d.get("bounded_case") or {}).get("case_id"))
            except Exception:
                pass
finally:
    subprocess.run(["git", "-C", "/repo", "worktree", "remove", "--force", w])
dst = os.path.join(V, "refactorings", name)
os.makedirs(dst, exist_ok=True)
shutil.copy(f"{src}/patch.diff", dst)
meta = json.load(open(f"{src}/meta.json"))
head = subprocess.run(["git", "-C", "/repo", "rev-parse", "--short", "HEAD"], capture_output=True, text=True).stdout.strip()
verdict = {0: "no alarm", 1: "FALSE ALARM", 2: "undecided (not an alarm)"}.get(chk.returncode, f"exit {chk.returncode}")
out = {"property": pid, "summary": meta.get("summary"), "functions": meta.get("functions"), "author": "independent sub-agent (saw only the property text)",
       "verified_here": {"repo_head": head, "agent_demo_check_exit": demo, "command": f"./check {pid} (VERIF_REPO=<scratch worktree with the refactoring>)", "check_exit": chk.returncode,
                         "verdict": verdict, "summary_line": lines[-1] if lines else None, "alarms": sorted(set(x for x in alarms if x))[:12],
                         "undecided": [l[:300] for l in lines if l.startswith("UNDECIDED")][:6]}}
json.dump(out, open(os.path.join(dst, "meta.json"), "w"), indent=1)
print(name, "demo", demo, "check exit", chk.returncode, verdict, out["verified_here"]["alarms"][:3], out["verified_here"]["undecided"][:1])
