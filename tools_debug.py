"""Developer helper: print hypotheses/goal/model of obligations whose name contains a substring."""
import importlib, sys
sys.path.insert(0, '/verif')
from pyvc import framework, solve
import z3
pid, pat = sys.argv[1], sys.argv[2]
mod = importlib.import_module(f"contracts.{pid}")
chk = framework.Check(pid, "quick", 0)
mod.build(chk)
print("undecided:", chk.undecided[:10]); print("errors:", chk.engine_errors[:3])
for ob in chk.obs:
    if pat in ob.name:
        print("=====", ob.name, ob.kind)
        for h in ob.hyps: print("  H:", str(z3.simplify(h) if hasattr(h,'sexpr') else h)[:300])
        print("  G:", str(ob.goal)[:1500])
        print("  atoms:", ob.meta.get("atoms"))
        r = solve.discharge([ob], timeout_s=20, jobs=1)[0]
        print("  ->", r.status, r.backend, r.time_s, r.model, r.reason)
